(* C10_GenLink: every comparison, assertion, index assignment and size argument of
   muduo::net::Buffer as translated from the clang AST of the current sources (Gen_C10,
   regenerated on every check by lib/gen_C10.py) is the one the hand model C10_Model uses.
   Sizes are the model's naturals embedded in Z; a pointer is an arbitrary address B (begin())
   plus an offset.
   Every generated fact is a function over the record [Gen_C10.obs] of NAMED observables
   (review B-2): the link lemmas evaluate it on [buf_obs b B e] -- the record whose fields
   o_readerIndex, o_writerIndex, o_buffer_size, o_readableBytes, o_writableBytes,
   o_prependableBytes, o_peek, o_beginWrite, o_kCheapPrepend are the model's values for the
   buffer [b], every other field taken from an ARBITRARY record [e] -- with the parameters /
   locals that are in scope set by name ([set_len], [set_n], ...).  So a fact that reads another
   observable than the model's test does (readableBytes() replaced by writableBytes() or
   writerIndex_, len by a name that is not in scope, ...) evaluates to a different term and
   the lemma no longer holds: flipping an operator or replacing an operand in Buffer.h /
   Buffer.cc breaks a proof obligation directly.  (Two names that denote the same value at
   that program point -- prependableBytes() and readerIndex_, the local `readable` and
   readableBytes() -- are interchangeable, as they are in the C++.) *)
From Coq Require Import List ZArith Lia Bool Arith NArith.
From Coq.Strings Require Import Byte.
From Muduo Require Import Base_Bytes Gen_Consts Gen_C10 C10_Model.
Import ListNotations.
Local Open Scope Z_scope.

Local Notation Zn := Z.of_nat.
Definition kCP : Z := Gen_Consts.Buffer_kCheapPrepend.

Ltac zb :=
  repeat match goal with
  | |- context [Z.geb ?a ?b] => rewrite (Z.geb_leb a b)
  | |- context [Z.gtb ?a ?b] => rewrite (Z.gtb_ltb a b)
  | |- context [Z.ltb ?a ?b] => destruct (Z.ltb_spec a b)
  | |- context [Z.leb ?a ?b] => destruct (Z.leb_spec a b)
  | |- context [Z.eqb ?a ?b] => destruct (Z.eqb_spec a b)
  | |- context [Nat.ltb ?a ?b] => destruct (Nat.ltb_spec a b)
  | |- context [Nat.leb ?a ?b] => destruct (Nat.leb_spec a b)
  | |- context [Nat.eqb ?a ?b] => destruct (Nat.eqb_spec a b)
  end; cbn [andb orb negb]; try reflexivity; try lia.

Lemma kCP_nat : Zn kCheapPrepend = kCP.
Proof. unfold kCheapPrepend, kCP. apply Z2Nat.id. vm_compute. discriminate. Qed.

Lemma kExtra_nat : Zn kExtraBuf = Gen_Consts.Buffer_extrabuf_size.
Proof. unfold kExtraBuf. apply Z2Nat.id. vm_compute. discriminate. Qed.

Local Opaque kCheapPrepend kExtraBuf kInitialSize.

(* the record of named observables of a model buffer whose storage begins at address B;
   everything that is not a buffer observable comes from [e] *)
Definition buf_obs (b : buf) (B : Z) (e : obs) : obs :=
  {| o_readerIndex := Zn (ridx b);
     o_writerIndex := Zn (widx b);
     o_buffer_size := Zn (length (store b));
     o_readableBytes := Zn (readableBytes b);
     o_writableBytes := Zn (writableBytes b);
     o_prependableBytes := Zn (prependableBytes b);
     o_peek := B + Zn (ridx b);
     o_beginWrite := B + Zn (widx b);
     o_kCheapPrepend := kCP;
     o_len := o_len e; o_initialSize := o_initialSize e; o_reserve := o_reserve e;
     o_start := o_start e; o_end := o_end e; o_size := o_size e; o_fd := o_fd e; o_n := o_n e;
     o_writable := o_writable e; o_readable := o_readable e; o_iovcnt := o_iovcnt e; o_x := o_x e; o_result := o_result e |}.

(* only the three private members (what the bodies of the size observers may read) *)
Definition mem_obs (b : buf) (e : obs) : obs :=
  set_readerIndex (Zn (ridx b)) (set_writerIndex (Zn (widx b)) (set_buffer_size (Zn (length (store b))) e)).

Ltac gl := unfold buf_obs, mem_obs; obs_red.

(* ---- constructor, Buffer.h:48-56 ---------------------------------------------- *)
Lemma gen_constructor n B e :
  let o0 := set_initialSize (Zn n) (set_kCheapPrepend kCP e) in
  let o := set_initialSize (Zn n) (buf_obs (new_buf n) B e) in
  Buffer_init_buffer o0 = Zn (length (store (new_buf n))) /\
  Buffer_init_readerIndex o0 = Zn (ridx (new_buf n)) /\
  Buffer_init_writerIndex o0 = Zn (widx (new_buf n)) /\
  Buffer_assert0 o = true /\
  Buffer_assert1 o = true /\
  Buffer_assert2 o = true.
Proof.
  cbn zeta.
  unfold Buffer_init_buffer, Buffer_init_readerIndex, Buffer_init_writerIndex,
    Buffer_assert0, Buffer_assert1, Buffer_assert2. gl.
  unfold readableBytes, writableBytes, prependableBytes, new_buf.
  cbn [store ridx widx]. rewrite repeat_length, <- kCP_nat.
  repeat split; zb.
Qed.

(* ---- size observers, Buffer.h:68-75 -------------------------------------------- *)
Lemma gen_observers b e : (ridx b <= widx b)%nat -> (widx b <= length (store b))%nat ->
  readableBytes_ret (mem_obs b e) = Zn (readableBytes b) /\
  writableBytes_ret (mem_obs b e) = Zn (writableBytes b) /\
  prependableBytes_ret (mem_obs b e) = Zn (prependableBytes b).
Proof.
  intros H1 H2. unfold readableBytes_ret, writableBytes_ret, prependableBytes_ret. gl.
  unfold readableBytes, writableBytes, prependableBytes. repeat split; lia.
Qed.

(* ---- pointer preconditions: findCRLF(start), findEOL(start), retrieveUntil(end) --
   peek() = B + readerIndex_, beginWrite() = B + writerIndex_, the argument = peek() + off *)
Lemma gen_pointer_asserts b B off e : (ridx b <= widx b)%nat ->
  let os := set_start (B + Zn (ridx b) + off) (buf_obs b B e) in
  let oe := set_end (B + Zn (ridx b) + off) (buf_obs b B e) in
  (findCRLF1_assert0 os && findCRLF1_assert1 os = ptr_ok off b) /\
  (findEOL1_assert0 os && findEOL1_assert1 os = ptr_ok off b) /\
  (retrieveUntil_assert0 oe && retrieveUntil_assert1 oe = ptr_ok off b) /\
  retrieveUntil_call0_retrieve oe = off.
Proof.
  intros H. cbn zeta. unfold findCRLF1_assert0, findCRLF1_assert1, findEOL1_assert0, findEOL1_assert1,
    retrieveUntil_assert0, retrieveUntil_assert1, retrieveUntil_call0_retrieve, ptr_ok. gl.
  unfold readableBytes.
  repeat split; zb.
Qed.

(* ---- retrieve family, Buffer.h:113-170 ------------------------------------------ *)
Lemma gen_retrieve b n B e :
  let o := set_len (Zn n) (buf_obs b B e) in
  retrieve_assert0 o = (n <=? readableBytes b)%nat /\
  retrieve_if0 o = (n <? readableBytes b)%nat /\
  retrieve_set0_readerIndex o = Zn (ridx b + n) /\
  retrieveAll_set0_readerIndex (buf_obs b B e) = Zn (ridx (retrieveAll b)) /\
  retrieveAll_set1_writerIndex (buf_obs b B e) = Zn (widx (retrieveAll b)) /\
  retrieveAsString_assert0 o = (n <=? readableBytes b)%nat /\
  retrieveAsString_call0_retrieve o = Zn n /\
  retrieveAllAsString_call0_retrieveAsString (buf_obs b B e) = Zn (readableBytes b).
Proof.
  cbn zeta.
  unfold retrieve_assert0, retrieve_if0, retrieve_set0_readerIndex, retrieveAll_set0_readerIndex,
    retrieveAll_set1_writerIndex, retrieveAsString_assert0, retrieveAsString_call0_retrieve,
    retrieveAllAsString_call0_retrieveAsString, retrieveAll. gl.
  cbn [ridx widx]. rewrite <- kCP_nat. repeat split; zb.
Qed.

Lemma gen_widths e :
  retrieveInt64_call0_retrieve e = Zn (wbytes W64) /\ retrieveInt32_call0_retrieve e = Zn (wbytes W32) /\
  retrieveInt16_call0_retrieve e = Zn (wbytes W16) /\ retrieveInt8_call0_retrieve e = Zn (wbytes W8) /\
  appendInt64_call0_append e = Zn (wbytes W64) /\ appendInt32_call0_append e = Zn (wbytes W32) /\
  appendInt16_call0_append e = Zn (wbytes W16) /\ appendInt8_call0_append e = Zn (wbytes W8) /\
  prependInt64_call0_prepend e = Zn (wbytes W64) /\ prependInt32_call0_prepend e = Zn (wbytes W32) /\
  prependInt16_call0_prepend e = Zn (wbytes W16) /\ prependInt8_call0_prepend e = Zn (wbytes W8).
Proof. repeat split; reflexivity. Qed.

Lemma gen_peekInt_asserts b B e :
  peekInt64_assert0 (buf_obs b B e) = (wbytes W64 <=? readableBytes b)%nat /\
  peekInt32_assert0 (buf_obs b B e) = (wbytes W32 <=? readableBytes b)%nat /\
  peekInt16_assert0 (buf_obs b B e) = (wbytes W16 <=? readableBytes b)%nat /\
  peekInt8_assert0 (buf_obs b B e) = (wbytes W8 <=? readableBytes b)%nat.
Proof.
  unfold peekInt64_assert0, peekInt32_assert0, peekInt16_assert0, peekInt8_assert0. gl.
  cbn [wbytes]. repeat split; zb.
Qed.

(* ---- ensureWritableBytes / hasWritten / unwrite / prepend / shrink ---------------- *)
Lemma gen_write_side b n B e :
  let o := set_len (Zn n) (buf_obs b B e) in
  ensureWritableBytes_if0 o = (writableBytes b <? n)%nat /\
  ensureWritableBytes_call0_makeSpace o = Zn n /\
  ensureWritableBytes_assert0 o = (n <=? writableBytes b)%nat /\
  hasWritten_assert0 o = (n <=? writableBytes b)%nat /\
  hasWritten_set0_writerIndex o = Zn (widx b + n) /\
  unwrite_assert0 o = (n <=? readableBytes b)%nat /\
  ((n <= widx b)%nat -> unwrite_set0_writerIndex o = Zn (widx b - n)) /\
  prepend_assert0 o = (n <=? prependableBytes b)%nat /\
  ((n <= ridx b)%nat -> prepend_set0_readerIndex o = Zn (ridx b - n)) /\
  shrink_call0_ensureWritableBytes (set_reserve (Zn n) (buf_obs b B e)) = Zn (readableBytes b + n).
Proof.
  cbn zeta.
  unfold ensureWritableBytes_if0, ensureWritableBytes_call0_makeSpace, ensureWritableBytes_assert0,
    hasWritten_assert0, hasWritten_set0_writerIndex, unwrite_assert0, unwrite_set0_writerIndex,
    prepend_assert0, prepend_set0_readerIndex, shrink_call0_ensureWritableBytes. gl.
  repeat split; zb.
Qed.

(* ---- makeSpace, Buffer.h:390-409 --------------------------------------------------
   the compaction branch: `readable` is the local copy of readableBytes() taken before the
   indices move; set1 reads the reader index set0 has just stored; assert1 is evaluated on the
   buffer after both assignments *)
Lemma gen_makeSpace b len B e : (ridx b <= widx b)%nat ->
  let o := set_len (Zn len) (buf_obs b B e) in
  let o1 := set_readable (Zn (readableBytes b)) o in
  let b' := mkBuf (store b) kCheapPrepend (kCheapPrepend + readableBytes b) 0 in
  makeSpace_if0 o = (writableBytes b + prependableBytes b <? len + kCheapPrepend)%nat /\
  makeSpace_call0_resize o = Zn (widx b + len) /\
  makeSpace_assert0 o = (kCheapPrepend <? ridx b)%nat /\
  makeSpace_set0_readerIndex o1 = Zn kCheapPrepend /\
  makeSpace_set1_writerIndex (set_readerIndex (makeSpace_set0_readerIndex o1) o1)
    = Zn (kCheapPrepend + readableBytes b) /\
  makeSpace_assert1 (set_readable (Zn (readableBytes b)) (set_len (Zn len) (buf_obs b' B e))) = true.
Proof.
  intros H. cbn zeta.
  unfold makeSpace_if0, makeSpace_call0_resize, makeSpace_assert0, makeSpace_set0_readerIndex,
    makeSpace_set1_writerIndex, makeSpace_assert1. gl.
  unfold readableBytes, writableBytes, prependableBytes. cbn [ridx widx store].
  rewrite <- kCP_nat. repeat split; zb.
Qed.

(* ---- readFd, Buffer.cc:25-57 --------------------------------------------------------
   `writable` is the local copy of writableBytes() taken on entry, `n` the result of readv *)
Lemma gen_readFd b n B e :
  let o := set_n (Zn n) (set_writable (Zn (writableBytes b)) (buf_obs b B e)) in
  let oerr := set_n (-1) (set_writable (Zn (writableBytes b)) (buf_obs b B e)) in
  readFd_set0_iov_len o = Zn (writableBytes b) /\
  readFd_set1_iov_len o = Zn kExtraBuf /\
  readFd_let_iovcnt o = Zn (readFd_iovcnt b) /\
  readFd_if0 oerr = true /\ readFd_if0 o = false /\
  readFd_if1 o = (n <=? writableBytes b)%nat /\
  readFd_set2_writerIndex o = Zn (widx b + n) /\
  readFd_set3_writerIndex o = Zn (length (store b)) /\
  ((writableBytes b <= n)%nat -> readFd_call0_append o = Zn (n - writableBytes b)) /\
  readFd_ret o = Zn n /\ readFd_ret oerr = (-1).
Proof.
  cbn zeta.
  unfold readFd_set0_iov_len, readFd_set1_iov_len, readFd_let_iovcnt, readFd_if0, readFd_if1,
    readFd_set2_writerIndex, readFd_set3_writerIndex, readFd_call0_append, readFd_ret, readFd_iovcnt. gl.
  pose proof kExtra_nat as HE. change Gen_Consts.Buffer_extrabuf_size with 65536 in HE.
  repeat split; zb.
Qed.

(* ---- append overloads, the lengths handed to memchr / memcpy / string(ptr, len) ----------- *)
Lemma gen_append_lengths b n B off e : (ridx b <= widx b)%nat ->
  let o := set_len (Zn n) (buf_obs b B e) in
  let os := set_start (B + Zn (ridx b) + off) (buf_obs b B e) in
  append1_call0_append (set_size (Zn n) (buf_obs b B e)) = Zn n /\
  append2_void_call0_append o = Zn n /\
  append2_char_call0_ensureWritableBytes o = Zn n /\
  append2_char_call1_hasWritten o = Zn n /\
  findEOL0_memchr0_len (buf_obs b B e) = Zn (readableBytes b) /\
  findEOL1_memchr0_len os = Zn (readableBytes b) - off /\
  peekInt64_memcpy0_len e = Zn (wbytes W64) /\ peekInt32_memcpy0_len e = Zn (wbytes W32) /\
  peekInt16_memcpy0_len e = Zn (wbytes W16) /\
  retrieveAsString_string0_len o = Zn n.
Proof.
  intros H. cbn zeta.
  unfold append1_call0_append, append2_void_call0_append, append2_char_call0_ensureWritableBytes,
    append2_char_call1_hasWritten, findEOL0_memchr0_len, findEOL1_memchr0_len, peekInt64_memcpy0_len,
    peekInt32_memcpy0_len, peekInt16_memcpy0_len, retrieveAsString_string0_len. gl.
  unfold readableBytes. cbn [wbytes]. repeat split; zb.
Qed.

(* ---- the integer casts the expression translator looks through (review B-3) --------------
   exactly one narrowing cast in Buffer.h/.cc: toStringPiece()'s static_cast<int>(readableBytes());
   exactly one signed value widened to size_t: StringPiece::size() in append(const StringPiece&);
   both are the 32-bit int of C10_Model.int_cast, and the operand of the first is the model's *)
Lemma gen_int_casts b B e :
  narrowing_casts = 1 /\ signed_widening_casts = 1 /\
  toStringPiece_narrow0 = int_bits /\ append1_widen_signed0 = int_bits /\
  int_cast (toStringPiece_narrow0_arg (buf_obs b B e)) = toStringPiece_len b.
Proof. repeat split; reflexivity. Qed.

(* ==== the statement TREES (review E-3) ==========================================================
   Gen_C10.<f>_tree is the control structure of member function f with every generated fact at its
   place.  [exec] interprets a tree on a MODEL buffer: conditions and expressions are evaluated on
   [buf_obs b B L] (L = the record holding parameters and locals), SSet stores an index, SCall runs the
   MODEL's function of that name, SIf picks a branch, SAssert stops with [Failed].  Data movement
   (std::copy, memcpy: SOther) is not interpreted, so results are compared on the index skeleton
   [sk] = (readerIndex_, writerIndex_, buffer_.size()): [agrees (exec f_tree ..) (model_f ..)].
   Swapping the branches of an if, moving a statement into / out of a branch, dropping or duplicating
   an index assignment or a call changes the tree, hence the interpreted result, and breaks a lemma. *)
From Coq Require Import String.
Import List.   (* List.length, not String.length *)
Local Open Scope string_scope.

Inductive outc : Type :=
| Done (b : buf) (L : obs)
| Ret (b : buf) (L : obs) (v : Z)
| Failed                      (* an assert failed (in this function or in a callee) *)
| Stuck (what : string).      (* the interpreter does not know this member / callee *)

Definition hasWritten_idx (n : nat) (b : buf) : res buf :=
  if (n <=? writableBytes b)%nat then Ok (mkBuf (store b) (ridx b) (widx b + n) (up b)) else Rejected.

(* the model's function for a callee name; integer arguments only (data is not part of the skeleton) *)
Definition call_sem (f : string) (args : list Z) (b : buf) : option (res buf) :=
  match args with
  | [] => if f =? "retrieveAll" then Some (Ok (retrieveAll b)) else None
  | [a] =>
      let n := Z.to_nat a in
      if f =? "retrieve" then Some (retrieve n b)
      else if f =? "makeSpace" then Some (makeSpace n b)
      else if f =? "ensureWritableBytes" then Some (ensureWritable n b)
      else if f =? "buffer.resize" then Some (Ok (mkBuf (vresize (store b) n) (ridx b) (widx b) (up b)))
      else if f =? "hasWritten" then Some (hasWritten_idx n b)
      else if f =? "append" then Some (C10_Model.append (repeat x00 n) b)
      else None
  | _ => None
  end.

Section Exec.
Variable B : Z.

Fixpoint exec_stmt (st : stmt) (b : buf) (L : obs) {struct st} : outc :=
  let exec_list :=
    fix exec_list (l : list stmt) (b : buf) (L : obs) {struct l} : outc :=
      match l with
      | [] => Done b L
      | x :: t => match exec_stmt x b L with Done b' L' => exec_list t b' L' | o => o end
      end in
  let v := buf_obs b B L in
  match st with
  | SAssert c => if c v then Done b L else Failed
  | SSet m e =>
      if m =? "readerIndex" then Done (mkBuf (store b) (Z.to_nat (e v)) (widx b) (up b)) L
      else if m =? "writerIndex" then Done (mkBuf (store b) (ridx b) (Z.to_nat (e v)) (up b)) L
      else if m =? "iov_len" then Done b L            (* not buffer state *)
      else Stuck m
  | SLet _ set e => Done b (set (e v) L)
  | SHavoc _ => Done b L                              (* its value is whatever L already holds *)
  | SCall f args =>
      match call_sem f (map (fun a => a v) args) b with
      | Some (Ok b') => Done b' L
      | Some _ => Failed
      | None => Stuck f
      end
  | SIf c th el => if c v then exec_list th b L else exec_list el b L
  | SRet e => Ret b L (e v)
  | SRetOther => Ret b L 0                            (* a return ends the function *)
  | SLetCall _ _ _ => Done b L                        (* the callee's result is whatever L already holds under that name *)
  | SSwapWith _ m => Stuck m                          (* two buffers: not interpreted (swap_tree is pinned by its shape) *)
  | SOther _ => Done b L                              (* no side effect on the indices / buffer_: guaranteed by the generator *)
  end.

Fixpoint exec (l : list stmt) (b : buf) (L : obs) {struct l} : outc :=
  match l with
  | [] => Done b L
  | x :: t => match exec_stmt x b L with Done b' L' => exec t b' L' | o => o end
  end.
End Exec.

Definition sk (b : buf) : nat * nat * nat := (ridx b, widx b, length (store b)).

Definition agrees (o : outc) (r : res buf) : Prop :=
  match o, r with
  | Done b _, Ok b' => sk b = sk b'
  | Ret b _ _, Ok b' => sk b = sk b'
  | Failed, Rejected => True
  | Failed, Fault => True
  | _, _ => False
  end.

(* parameters / locals live in L; the link lemmas above are stated with the setters outside *)
Lemma buf_obs_set_len b B v e : buf_obs b B (set_len v e) = set_len v (buf_obs b B e).
Proof. reflexivity. Qed.
Lemma buf_obs_set_n b B v e : buf_obs b B (set_n v e) = set_n v (buf_obs b B e).
Proof. reflexivity. Qed.
Lemma buf_obs_set_writable b B v e : buf_obs b B (set_writable v e) = set_writable v (buf_obs b B e).
Proof. reflexivity. Qed.
Lemma buf_obs_set_readable b B v e : buf_obs b B (set_readable v e) = set_readable v (buf_obs b B e).
Proof. reflexivity. Qed.
Lemma buf_obs_set_iovcnt b B v e : buf_obs b B (set_iovcnt v e) = set_iovcnt v (buf_obs b B e).
Proof. reflexivity. Qed.

Ltac run_tree := cbn [exec exec_stmt call_sem map String.eqb Ascii.eqb Bool.eqb]; cbv beta;
  rewrite ?buf_obs_set_len, ?buf_obs_set_n, ?buf_obs_set_writable, ?buf_obs_set_readable, ?buf_obs_set_iovcnt.

Local Close Scope string_scope.

Lemma vresize_length s n : length (vresize s n) = n.
Proof.
  unfold vresize. rewrite app_length, firstn_length, repeat_length. lia.
Qed.

Lemma write_at_length s p d s' : write_at s p d = Some s' -> length s' = length s.
Proof.
  unfold write_at. destruct (Nat.leb_spec (p + length d) (length s)); [|discriminate].
  intros E. injection E as <-. rewrite !app_length, firstn_length, skipn_length. lia.
Qed.

Lemma write_at_some s p d : (p + length d <= length s)%nat -> exists s', write_at s p d = Some s'.
Proof. intros H. unfold write_at. destruct (Nat.leb_spec (p + length d) (length s)); [eauto|lia]. Qed.

Lemma read_at_ok s p l : (p + l <= length s)%nat -> exists d, read_at s p l = Some d /\ length d = l.
Proof.
  intros H. unfold read_at. destruct (Nat.leb_spec (p + l) (length s)); [|lia].
  eexists. split; [reflexivity|]. rewrite firstn_length, skipn_length. lia.
Qed.

Lemma hasWritten_idx_spec d b :
  match hasWrittenBytes d b with
  | Ok b1 => exists b2, hasWritten_idx (length d) b = Ok b2 /\ sk b1 = sk b2
  | Rejected => hasWritten_idx (length d) b = Rejected
  | Fault => True
  end.
Proof.
  unfold hasWrittenBytes, hasWritten_idx. destruct (length d <=? writableBytes b)%nat; [|reflexivity].
  destruct (write_at (store b) (widx b) d) as [s'|] eqn:W; cbn [mem bind]; [|exact I].
  eexists. split; [reflexivity|]. unfold sk. cbn [ridx widx store]. now rewrite (write_at_length _ _ _ _ W).
Qed.

(* ---- retrieve: assert; if (len < readableBytes()) readerIndex_ += len; else retrieveAll(); ---------- *)
Lemma tree_retrieve b n B e :
  agrees (exec B retrieve_tree b (set_len (Zn n) e)) (retrieve n b).
Proof.
  unfold retrieve_tree. run_tree.
  pose proof (gen_retrieve b n B e) as (A0 & I0 & S0 & _). cbn zeta in A0, I0, S0.
  rewrite A0. unfold retrieve. destruct (n <=? readableBytes b)%nat; [|exact I].
  run_tree. rewrite I0. destruct (n <? readableBytes b)%nat; run_tree.
  - rewrite S0, Nat2Z.id. reflexivity.
  - reflexivity.
Qed.

Lemma tree_retrieveAll b B e : exec B retrieveAll_tree b e = Done (mkBuf (store b) (ridx (retrieveAll b)) (widx (retrieveAll b)) (up b)) e.
Proof.
  unfold retrieveAll_tree. run_tree.
  unfold retrieveAll_set0_readerIndex, retrieveAll_set1_writerIndex. gl. cbn [store ridx widx up retrieveAll].
  rewrite <- kCP_nat, !Nat2Z.id. reflexivity.
Qed.

(* ---- hasWritten / unwrite / prepend: assert, then one index moves -------------------------------------- *)
Lemma tree_hasWritten b n B e :
  agrees (exec B hasWritten_tree b (set_len (Zn n) e)) (hasWritten_idx n b).
Proof.
  unfold hasWritten_tree. run_tree.
  pose proof (gen_write_side b n B e) as (_ & _ & _ & A0 & S0 & _). cbn zeta in A0, S0.
  rewrite A0. unfold hasWritten_idx. destruct (n <=? writableBytes b)%nat; [|exact I].
  run_tree. rewrite S0, Nat2Z.id. reflexivity.
Qed.

Lemma tree_unwrite b n B e : (ridx b <= widx b)%nat ->
  agrees (exec B unwrite_tree b (set_len (Zn n) e)) (unwrite n b).
Proof.
  intros H. unfold unwrite_tree. run_tree.
  pose proof (gen_write_side b n B e) as (_ & _ & _ & _ & _ & A0 & S0 & _). cbn zeta in A0, S0.
  rewrite A0. unfold unwrite. destruct (Nat.leb_spec n (readableBytes b)); [|exact I].
  run_tree. rewrite S0 by (unfold readableBytes in *; lia). rewrite Nat2Z.id. reflexivity.
Qed.

Lemma tree_prepend b d B e : (ridx b <= widx b)%nat -> (widx b <= length (store b))%nat ->
  agrees (exec B prepend_tree b (set_len (Zn (length d)) e)) (prepend d b).
Proof.
  intros H1 H2. unfold prepend_tree. run_tree.
  pose proof (gen_write_side b (length d) B e) as (_ & _ & _ & _ & _ & _ & _ & A0 & S0 & _). cbn zeta in A0, S0.
  rewrite A0. unfold prepend, prependableBytes in *. destruct (Nat.leb_spec (length d) (ridx b)); [|exact I].
  run_tree. rewrite S0 by lia. rewrite Nat2Z.id.
  destruct (write_at_some (store b) (ridx b - length d) d) as [s' E]; [lia|].
  rewrite E. cbn [mem bind agrees]. unfold sk. cbn [ridx widx store]. now rewrite (write_at_length _ _ _ _ E).
Qed.

(* ---- ensureWritableBytes: if (writableBytes() < len) makeSpace(len); assert(writableBytes() >= len) ---- *)
Lemma tree_ensureWritableBytes b n B e :
  agrees (exec B ensureWritableBytes_tree b (set_len (Zn n) e)) (ensureWritable n b).
Proof.
  unfold ensureWritableBytes_tree. run_tree.
  pose proof (gen_write_side b n B e) as (I0 & C0 & _). cbn zeta in I0, C0.
  rewrite I0. unfold ensureWritable. destruct (writableBytes b <? n)%nat.
  - run_tree. rewrite C0, Nat2Z.id. destruct (makeSpace n b) as [b1| |]; cbn [bind]; try exact I.
    run_tree. pose proof (gen_write_side b1 n B e) as (_ & _ & A0 & _). cbn zeta in A0. rewrite A0.
    destruct (n <=? writableBytes b1)%nat; [reflexivity|exact I].
  - run_tree. cbn [bind]. pose proof (gen_write_side b n B e) as (_ & _ & A0 & _). cbn zeta in A0. rewrite A0.
    destruct (n <=? writableBytes b)%nat; [reflexivity|exact I].
Qed.

(* ---- makeSpace: if (writable + prependable < len + kCheapPrepend) buffer_.resize(writerIndex_+len);
                   else { assert; readable = readableBytes(); copy; readerIndex_ = ..; writerIndex_ = ..; assert } *)
Lemma tree_makeSpace b len B e : (ridx b <= widx b)%nat -> (widx b <= length (store b))%nat ->
  agrees (exec B makeSpace_tree b (set_len (Zn len) e)) (makeSpace len b).
Proof.
  intros H1 H2. unfold makeSpace_tree. run_tree.
  pose proof (gen_makeSpace b len B e H1) as (I0 & C0 & A0 & _). cbn zeta in I0, C0, A0.
  rewrite I0. unfold makeSpace. destruct (writableBytes b + prependableBytes b <? len + kCheapPrepend)%nat.
  - run_tree. rewrite C0, Nat2Z.id. reflexivity.
  - run_tree. rewrite A0. destruct (Nat.ltb_spec kCheapPrepend (ridx b)) as [HK|]; [|exact I].
    run_tree.
    destruct (read_at_ok (store b) (ridx b) (readableBytes b)) as (d & -> & Ld); [unfold readableBytes; lia|].
    cbn [mem bind].
    destruct (write_at_some (store b) kCheapPrepend d) as [s' E]; [unfold readableBytes in *; lia|].
    rewrite E. cbn [mem bind].
    unfold makeSpace_let_readable, makeSpace_set0_readerIndex, makeSpace_set1_writerIndex, makeSpace_assert1. gl.
    cbn [store ridx widx up]. unfold readableBytes. cbn [ridx widx]. rewrite <- kCP_nat.
    rewrite !Nat2Z.id.
    replace (Z.to_nat (Zn kCheapPrepend + Zn (widx b - ridx b))) with (kCheapPrepend + (widx b - ridx b))%nat by lia.
    destruct (Z.eqb_spec (Zn (widx b - ridx b)) (Zn (kCheapPrepend + (widx b - ridx b) - kCheapPrepend))) as [_|NE]; [|lia].
    cbn [agrees]. unfold sk. cbn [ridx widx store]. now rewrite (write_at_length _ _ _ _ E).
Qed.

From Muduo Require C10_Proofs.
(* ---- index skeletons of the model's makeSpace / ensureWritable / append (what SCall needs of a callee) --- *)
Definition makeSpace_sk (len : nat) (s : nat * nat * nat) : nat * nat * nat :=
  let '(r, w, z) := s in
  if (z - w + r <? len + kCheapPrepend)%nat then (r, w, w + len)%nat else (kCheapPrepend, kCheapPrepend + (w - r), z)%nat.
Definition ensure_sk (n : nat) (s : nat * nat * nat) : nat * nat * nat :=
  let '(r, w, z) := s in if (z - w <? n)%nat then makeSpace_sk n s else s.
Definition append_sk (n : nat) (s : nat * nat * nat) : nat * nat * nat :=
  let '(r, w, z) := ensure_sk n s in (r, w + n, z)%nat.

Lemma makeSpace_skel len b b' : makeSpace len b = Ok b' -> sk b' = makeSpace_sk len (sk b).
Proof.
  unfold makeSpace, makeSpace_sk, sk, writableBytes, prependableBytes, readableBytes.
  destruct (length (store b) - widx b + ridx b <? len + kCheapPrepend)%nat.
  - intros E. injection E as <-. cbn [ridx widx store]. now rewrite vresize_length.
  - destruct (kCheapPrepend <? ridx b)%nat; [|discriminate].
    destruct (read_at (store b) (ridx b) (widx b - ridx b)) as [d|]; cbn [mem bind]; [|discriminate].
    destruct (write_at (store b) kCheapPrepend d) as [s'|] eqn:W; cbn [mem bind]; [|discriminate].
    intros E. injection E as <-. cbn [ridx widx store]. now rewrite (write_at_length _ _ _ _ W).
Qed.

Lemma ensureWritable_skel n b b' : ensureWritable n b = Ok b' -> sk b' = ensure_sk n (sk b).
Proof.
  unfold ensureWritable, ensure_sk. unfold sk at 2. unfold writableBytes at 1.
  destruct (length (store b) - widx b <? n)%nat.
  - destruct (makeSpace n b) as [b1| |] eqn:M; cbn [bind]; try discriminate.
    destruct (n <=? writableBytes b1)%nat; [|discriminate]. intros E. injection E as <-.
    apply makeSpace_skel. exact M.
  - cbn [bind]. destruct (n <=? writableBytes b)%nat; [|discriminate]. intros E. injection E as <-. reflexivity.
Qed.

Lemma append_skel d b b' : C10_Model.append d b = Ok b' -> sk b' = append_sk (length d) (sk b).
Proof.
  unfold C10_Model.append, append_sk.
  destruct (ensureWritable (length d) b) as [b1| |] eqn:EW; cbn [bind]; try discriminate.
  rewrite <- (ensureWritable_skel _ _ _ EW).
  destruct (write_at (store b1) (widx b1) d) as [s'|] eqn:W; cbn [mem bind]; [|discriminate].
  destruct (length d <=? writableBytes b1)%nat; [|discriminate].
  intros E. injection E as <-. unfold sk. cbn [ridx widx store]. now rewrite (write_at_length _ _ _ _ W).
Qed.

(* ---- append(const char*, size_t): ensureWritableBytes(len); copy; hasWritten(len) ---------------------- *)
Lemma tree_append b l d B e : C10_Proofs.Inv b l ->
  agrees (exec B append2_char_tree b (set_len (Zn (length d)) e)) (C10_Model.append d b).
Proof.
  intros HI. unfold append2_char_tree. run_tree.
  unfold append2_char_call0_ensureWritableBytes, append2_char_call1_hasWritten. gl. rewrite !Nat2Z.id.
  destruct (C10_Proofs.append_ok d b l HI) as (b' & E & _). rewrite E.
  pose proof (append_skel _ _ _ E) as SK.
  unfold C10_Model.append in E.
  destruct (ensureWritable (length d) b) as [b1| |] eqn:EW; cbn [bind] in E; try discriminate.
  run_tree. gl. rewrite Nat2Z.id.
  destruct (write_at (store b1) (widx b1) d) as [s'|] eqn:W; cbn [mem bind] in E; [|discriminate].
  unfold hasWritten_idx. destruct (length d <=? writableBytes b1)%nat; [|discriminate].
  cbn [agrees]. rewrite SK. unfold append_sk. rewrite <- (ensureWritable_skel _ _ _ EW). reflexivity.
Qed.

(* ---- retrieveUntil(end) / retrieveAsString(len): asserts, then retrieve(..) --------------------------- *)
Lemma tree_retrieveUntil b off B e : (ridx b <= widx b)%nat ->
  agrees (exec B retrieveUntil_tree b (set_end (B + Zn (ridx b) + off) e)) (retrieveUntil off b).
Proof.
  intros H. unfold retrieveUntil_tree. run_tree.
  pose proof (gen_pointer_asserts b B off e H) as (_ & _ & A & C). cbn zeta in A, C.
  change (buf_obs b B (set_end (B + Zn (ridx b) + off) e)) with (set_end (B + Zn (ridx b) + off) (buf_obs b B e)).
  unfold retrieveUntil. rewrite <- A.
  destruct (retrieveUntil_assert0 (set_end (B + Zn (ridx b) + off) (buf_obs b B e))); cbn [andb]; [|exact I].
  run_tree. change (buf_obs b B (set_end (B + Zn (ridx b) + off) e)) with (set_end (B + Zn (ridx b) + off) (buf_obs b B e)).
  destruct (retrieveUntil_assert1 (set_end (B + Zn (ridx b) + off) (buf_obs b B e))); [|exact I].
  run_tree. change (buf_obs b B (set_end (B + Zn (ridx b) + off) e)) with (set_end (B + Zn (ridx b) + off) (buf_obs b B e)).
  rewrite C. destruct (retrieve (Z.to_nat off) b); cbn [agrees]; auto.
Qed.

(* ---- readFd: n < 0: nothing; n <= writable: writerIndex_ += n; else writerIndex_ = size, append(extrabuf, n - writable)
   [n] = the result of readv, supplied through L (SHavoc) *)
Definition agrees_rd (o : outc) (r : res (buf * rfd)) : Prop :=
  match o, r with
  | Ret b _ v, Ok (b', rd) => sk b = sk b' /\ v = rf_n rd
  | Failed, Rejected => True
  | Failed, Fault => True
  | _, _ => False
  end.

Lemma tree_readFd b l k B e : C10_Proofs.Inv b l ->
  let nZ := match k with KData avail => Zn (length (firstn (readFd_capacity b) avail)) | KErr _ => (-1)%Z end in
  agrees_rd (exec B readFd_tree b (set_n nZ e)) (readFd k b).
Proof.
  intros HI nZ. pose proof (C10_Proofs.inv_sizes b l HI) as (S1 & S2 & S3 & S4).
  unfold readFd_tree. run_tree.
  unfold readFd_let_writable, readFd_set0_iov_len, readFd_set1_iov_len, readFd_let_iovcnt, readFd_if0, readFd_if1,
    readFd_set2_writerIndex, readFd_set3_writerIndex, readFd_call0_append, readFd_ret. gl.
  destruct k as [avail|err]; subst nZ; unfold readFd.
  - set (data := firstn (readFd_capacity b) avail).
    destruct (Z.ltb_spec (Zn (length data)) 0) as [|_]; [lia|].
    run_tree. gl.
    assert (CAP : (length data <= readFd_capacity b)%nat) by (unfold data; rewrite firstn_length; lia).
    destruct (Z.leb_spec (Zn (length data)) (Zn (writableBytes b))) as [LE|GT].
    + destruct (Nat.leb_spec (length data) (writableBytes b)); [|lia].
      run_tree. gl.
      destruct (write_at_some (store b) (widx b) data) as [s' W]; [unfold writableBytes in *; lia|].
      rewrite W. cbn [mem bind agrees_rd rf_n]. split; [|reflexivity].
      unfold sk. cbn [ridx widx store]. rewrite (write_at_length _ _ _ _ W). f_equal. f_equal. lia.
    + destruct (Nat.leb_spec (length data) (writableBytes b)); [lia|].
      run_tree. gl.
      destruct (write_at_some (store b) (widx b) (firstn (writableBytes b) data)) as [s' W].
      { rewrite firstn_length. unfold writableBytes in *. lia. }
      rewrite W. cbn [mem bind].
      assert (CNT : readFd_capacity b = (writableBytes b + kExtraBuf)%nat /\ readFd_iovcnt b = 2%nat).
      { unfold readFd_capacity, readFd_iovcnt in *. destruct (writableBytes b <? kExtraBuf)%nat; [split; reflexivity|lia]. }
      destruct CNT as [CAPE CNT]. rewrite CNT.
      assert (LS : length (skipn (writableBytes b) data) = (length data - writableBytes b)%nat) by apply skipn_length.
      destruct (Nat.leb_spec (length (skipn (writableBytes b) data)) kExtraBuf); [|lia]. cbn [andb Nat.eqb].
      rewrite Nat2Z.id.
      replace (Z.to_nat (Zn (length data) - Zn (writableBytes b))) with (length data - writableBytes b)%nat by lia.
      set (b1 := mkBuf (store b) (ridx b) (length (store b)) (up b)).
      set (b2 := mkBuf s' (ridx b) (length s') (up b)).
      assert (I1 : exists l1, C10_Proofs.Inv b1 l1).
      { destruct HI as (pre & post & Hs & Hp & Hw & Hc & Hl). exists (l ++ post), pre, [].
        unfold b1. cbn [store ridx widx up]. rewrite app_nil_r. repeat split; auto.
        rewrite Hs, !app_length. lia. }
      assert (I2 : exists l2, C10_Proofs.Inv b2 l2).
      { pose proof (write_at_length _ _ _ _ W) as LW.
        destruct HI as (pre & post & Hs & Hp & Hw & Hc & Hl).
        exists (skipn (ridx b) s'), (firstn (ridx b) s'), [].
        unfold b2. cbn [store ridx widx up]. rewrite app_nil_r, firstn_skipn. repeat split; auto.
        - rewrite firstn_length. lia.
        - rewrite skipn_length. lia.
        - lia. }
      destruct I1 as [l1 I1]. destruct I2 as [l2 I2].
      destruct (C10_Proofs.append_ok (repeat x00 (length data - writableBytes b)) b1 l1 I1) as (r1 & E1 & _).
      destruct (C10_Proofs.append_ok (skipn (writableBytes b) data) b2 l2 I2) as (r2 & E2 & _).
      rewrite E1, E2. cbn [bind agrees_rd rf_n]. split; [|reflexivity].
      rewrite (append_skel _ _ _ E1), (append_skel _ _ _ E2), repeat_length, LS.
      unfold b1, b2, sk. cbn [ridx widx store]. now rewrite (write_at_length _ _ _ _ W).
  - destruct (Z.ltb_spec (-1) 0) as [_|]; [|lia]. run_tree. gl. cbn [agrees_rd rf_n]. split; reflexivity.
Qed.

(* ---- shape of the bodies that move data (the SOther entries are not interpreted: their presence and place
   are compared syntactically) ------------------------------------------------------------------------------ *)
Definition nat_str (n : nat) : string :=
  match n with O => "0" | S O => "1" | S (S O) => "2" | S (S (S O)) => "3" | _ => "many" end%string.
Fixpoint shape1 (st : stmt) : list string :=
  let shapes := fix shapes (l : list stmt) : list string :=
    match l with [] => [] | x :: t => (shape1 x ++ shapes t)%list end in
  match st with
  | SOther w => [("other:" ++ w)%string]
  | SCall f a => [("call:" ++ f ++ "/" ++ nat_str (List.length a))%string]
  | SSet m _ => [("set:" ++ m)%string]
  | SAssert _ => ["assert"%string]
  | SLet x _ _ => [("let:" ++ x)%string]
  | SHavoc x => [("havoc:" ++ x)%string]
  | SRet _ => ["ret"%string]
  | SRetOther => ["return"%string]
  | SLetCall x f a => [("let:" ++ x ++ "=" ++ f ++ "/" ++ nat_str (List.length a))%string]
  | SSwapWith o m => [("swap:" ++ m ++ "<->" ++ o ++ "." ++ m)%string]
  | SIf _ th el => ("if{"%string :: shapes th ++ "}else{"%string :: shapes el ++ ["}"%string])%list
  end.
Fixpoint shape (l : list stmt) : list string :=
  match l with [] => [] | x :: t => (shape1 x ++ shape t)%list end.

Definition shapes_of (l : list (string * list stmt)) : list (string * list string) :=
  map (fun p => (fst p, shape (snd p))) l.

(* PINNED SHAPES (review F-2).  The shape of EVERY generated tree -- which statements, in which order, in which
   branch, every call with the number of its integer arguments, every local that is the bare result of a free call --
   as it stands in the source today.  This list is committed by hand: when Buffer.h / Buffer.cc legitimately change
   the structure of a member function the lemma below breaks and the list is RE-PINNED ON PURPOSE (copy the
   `Eval vm_compute in (shapes_of all_trees)` output) after reading the diff.  For the ten functions with an
   [exec] lemma above the pinned shape is redundant with the semantic tie except for the SOther entries; for the
   other trees (one-line wrappers, readIntN = peekIntN then retrieveIntN, peekIntN = assert before memcpy,
   find*(start) = asserts before the search, shrink, swap, the constructor's three asserts) it is the tie. *)
Local Open Scope string_scope.
Definition expected_shapes : list (string * list string) :=
  [("Buffer", ["assert"; "assert"; "assert"]); ("append1", ["call:append/1"]);
        ("append2_char", ["call:ensureWritableBytes/1"; "other:copy"; "call:hasWritten/1"]);
        ("append2_void", ["call:append/1"]);
        ("appendInt16", ["let:be16=hostToNetwork16/1"; "call:append/1"]);
        ("appendInt32", ["let:be32=hostToNetwork32/1"; "call:append/1"]);
        ("appendInt64", ["let:be64=hostToNetwork64/1"; "call:append/1"]); ("appendInt8", ["call:append/1"]);
        ("begin", ["return"]); ("beginWrite", ["return"]);
        ("ensureWritableBytes", ["if{"; "call:makeSpace/1"; "}else{"; "}"; "assert"]);
        ("findCRLF0", ["havoc:crlf"; "return"]); ("findCRLF1", ["assert"; "assert"; "havoc:crlf"; "return"]);
        ("findEOL0", ["havoc:eol"; "return"]); ("findEOL1", ["assert"; "assert"; "havoc:eol"; "return"]);
        ("hasWritten", ["assert"; "set:writerIndex"]); ("internalCapacity", ["return"]);
        ("makeSpace",
         ["if{"; "call:buffer.resize/1"; "}else{"; "assert"; "let:readable"; "other:copy"; "set:readerIndex";
          "set:writerIndex"; "assert"; "}"]); ("peek", ["return"]);
        ("peekInt16", ["assert"; "havoc:be16"; "other:memcpy"; "return"]);
        ("peekInt32", ["assert"; "havoc:be32"; "other:memcpy"; "return"]);
        ("peekInt64", ["assert"; "havoc:be64"; "other:memcpy"; "return"]);
        ("peekInt8", ["assert"; "havoc:x"; "ret"]);
        ("prepend", ["assert"; "set:readerIndex"; "havoc:d"; "other:copy"]);
        ("prependInt16", ["let:be16=hostToNetwork16/1"; "call:prepend/1"]);
        ("prependInt32", ["let:be32=hostToNetwork32/1"; "call:prepend/1"]);
        ("prependInt64", ["let:be64=hostToNetwork64/1"; "call:prepend/1"]);
        ("prependInt8", ["call:prepend/1"]); ("prependableBytes", ["ret"]);
        ("readFd",
         ["havoc:extrabuf"; "havoc:vec"; "let:writable"; "other:assign"; "set:iov_len"; "other:assign";
          "set:iov_len"; "let:iovcnt"; "let:n=readv/2"; "if{"; "other:__errno_location"; "}else{"; "if{";
          "set:writerIndex"; "}else{"; "set:writerIndex"; "call:append/1"; "}"; "}"; "ret"]);
        ("readInt16", ["call:peekInt16/0"; "havoc:result"; "call:retrieveInt16/0"; "ret"]);
        ("readInt32", ["call:peekInt32/0"; "havoc:result"; "call:retrieveInt32/0"; "ret"]);
        ("readInt64", ["call:peekInt64/0"; "havoc:result"; "call:retrieveInt64/0"; "ret"]);
        ("readInt8", ["call:peekInt8/0"; "havoc:result"; "call:retrieveInt8/0"; "ret"]);
        ("readableBytes", ["ret"]);
        ("retrieve", ["assert"; "if{"; "set:readerIndex"; "}else{"; "call:retrieveAll/0"; "}"]);
        ("retrieveAll", ["set:readerIndex"; "set:writerIndex"]);
        ("retrieveAllAsString", ["call:retrieveAsString/1"; "return"]);
        ("retrieveAsString", ["assert"; "havoc:result"; "call:retrieve/1"; "return"]);
        ("retrieveInt16", ["call:retrieve/1"]); ("retrieveInt32", ["call:retrieve/1"]);
        ("retrieveInt64", ["call:retrieve/1"]); ("retrieveInt8", ["call:retrieve/1"]);
        ("retrieveUntil", ["assert"; "assert"; "call:retrieve/1"]);
        ("shrink",
         ["havoc:other"; "call:other.ensureWritableBytes/1"; "call:toStringPiece/0"; "call:other.append/0";
          "call:swap/0"]);
        ("swap",
         ["call:buffer.swap/0"; "swap:readerIndex<->rhs.readerIndex"; "swap:writerIndex<->rhs.writerIndex"]);
        ("toStringPiece", ["return"]); ("unwrite", ["assert"; "set:writerIndex"]); (
        "writableBytes", ["ret"])].
Local Close Scope string_scope.

Lemma tree_shapes_all : shapes_of all_trees = expected_shapes.
Proof. vm_compute. reflexivity. Qed.

(* the integer arguments handed to sockets::readv: the descriptor, and the iovcnt computed just before (its value
   is tied to the model's readFd_iovcnt by gen_readFd); the local n is the BARE result of that call (SLetCall:
   an arithmetic expression around the call would make it SHavoc and break the pinned shape) *)
Lemma gen_readv_args b B e :
  let o := set_writable (Zn (writableBytes b)) (buf_obs b B e) in
  readFd_readv0_arg0 o = o_fd e /\
  readFd_readv0_arg2 (set_iovcnt (readFd_let_iovcnt o) o) = Zn (readFd_iovcnt b).
Proof.
  cbn zeta. pose proof (gen_readFd b 0 B e) as (_ & _ & IC & _). cbn zeta in IC.
  unfold readFd_readv0_arg0, readFd_readv0_arg2. gl. split; [reflexivity|].
  unfold readFd_let_iovcnt in *. revert IC. gl. intros IC. exact IC.
Qed.

(* ==== buffers share no state (seeded change C01_4: `static char extrabuf[65536]` in readFd) ===================
   The model is per Buffer object.  A process with several Buffers -- one per connection direction, on several io
   threads -- is the PRODUCT of their models provided the objects share no state.  That proviso is read off the
   clang AST of the current sources on every run:
     readFd_extrabuf_is_automatic : the spill area of Buffer::readFd is an automatic local (not static, not
                                    thread_local, not extern): one fresh array per call on the calling thread's stack;
     Buffer_shares_no_state       : class Buffer has no static data member other than the static const constants
                                    (kCheapPrepend, kInitialSize, kCRLF), no member function has a static / thread_local
                                    local, no member function refers to a non-const variable declared outside it.
   Quoted by Properties_C01 (inbound stream of a connection = the bytes of ITS descriptor). *)
Lemma C10_buffers_share_no_state :
  readFd_extrabuf_is_automatic = true /\ Buffer_shares_no_state = true.
Proof. split; reflexivity. Qed.

(* the product the obligation justifies: two Buffer systems (each a [state] with the outputs it has produced) driven
   by ANY interleaving of operations: each is its own model run on its own operations in their order *)
Section Product.
  Variables (S1 S2 O1 O2 : Type) (step1 : S1 -> O1 -> S1) (step2 : S2 -> O2 -> S2).
  Definition pair_step (s : S1 * S2) (o : O1 + O2) : S1 * S2 :=
    match o with inl a => (step1 (fst s) a, snd s) | inr b => (fst s, step2 (snd s) b) end.
  Definition pair_run (s : S1 * S2) (ops : list (O1 + O2)) : S1 * S2 := fold_left pair_step ops s.
  Definition lefts (ops : list (O1 + O2)) : list O1 := flat_map (fun o => match o with inl a => [a] | inr _ => [] end) ops.
  Definition rights (ops : list (O1 + O2)) : list O2 := flat_map (fun o => match o with inl _ => [] | inr b => [b] end) ops.
  Lemma pair_run_split : forall ops s,
    pair_run s ops = (fold_left step1 (lefts ops) (fst s), fold_left step2 (rights ops) (snd s)).
  Proof.
    induction ops as [|o t IH]; intros [s1 s2]; [reflexivity|].
    unfold pair_run in *. cbn [fold_left]. rewrite IH. destruct o; reflexivity.
  Qed.
End Product.

(* one Buffer system with its output trace; a refused / faulting op leaves it as it is *)
Definition bsys : Type := (state * list out)%type.
Definition bstep (s : bsys) (o : op) : bsys :=
  match step_c (fst s) o with Ok (st', r) => (st', (snd s ++ [r])%list) | _ => s end.
Definition brun (s : bsys) (ops : list op) : bsys := fold_left bstep ops s.

Lemma buffers_independent : forall (ops : list (op + op)) (s : bsys * bsys),
  pair_run _ _ _ _ bstep bstep s ops = (brun (fst s) (lefts _ _ ops), brun (snd s) (rights _ _ ops)).
Proof. intros. apply pair_run_split. Qed.
