(* C19_Sys: two RpcChannels talking to each other.  A client channel (C19_Model.step, no services)
   and a server channel (with a service table) joined by the two byte streams of one TCP connection:
   what one side hands to its connection (ESendRequest / ESendResponse events) is queued, in order,
   and reaches the other side as the label that serialising and parsing the RpcMessage yields
   (C19_Wire.arrives_as: the bytes are in the loop).  Executable; no proofs here (C19_SysProofs).

   System labels = everything that is scheduled independently:
     SCall l     a micro-step of CallMethod on some client thread (LFetch / LRegister / LSend)
     SReq        the oldest REQUEST frame in flight reaches the server's onRpcMessage
     SDone k m   the service (user code) completes deferred callback k with reply m
     SResp       the oldest RESPONSE frame in flight reaches the client's onRpcMessage
   A service that answers inside CallMethod is SReq immediately followed by SDone. *)
From Coq Require Import List ZArith Bool Arith.
From Coq.Strings Require Import Byte.
From Muduo Require Import Base_Bytes C19_Model C19_Wire.
Import ListNotations.
Local Open Scope Z_scope.

Section Sys.
  Variable wire_of : bytes -> bytes.           (* SerializeAsString of the user's message types *)
  Variable content_of : bytes -> payload.      (* ParseFromString of the user's message types *)

  Record sys := mkSys {
    cl : state;                (* the client's channel *)
    sv : state;                (* the server's channel *)
    c2s : list event;          (* frames written by the client, not yet read by the server (FIFO) *)
    s2c : list event           (* frames written by the server, not yet read by the client (FIFO) *)
  }.

  Definition sys_init (svcs : option (list (name * list name))) : sys := mkSys (init None) (init svcs) [] [].

  Inductive slabel := SCall (l : label) | SReq | SDone (k : tok) (m : bytes) | SResp.

  Definition is_frame (e : event) : bool :=
    match e with ESendRequest _ _ _ _ | ESendResponse _ _ => true | _ => false end.
  Definition frames (ev : list event) : list event := filter is_frame ev.

  (* what each side did in one system step: the label its channel took and the events of that step *)
  Record sstep := mkSS { ss_cl : option (label * list event); ss_sv : option (label * list event) }.

  Definition sys_step (y : sys) (l : slabel) : option (sys * sstep) :=
    match l with
    | SCall l0 =>
        match l0 with
        | LFetch _ _ | LRegister _ | LSend _ =>
            match step (cl y) l0 with
            | Some (c', ev) => Some (mkSys c' (sv y) (c2s y ++ frames ev) (s2c y), mkSS (Some (l0, ev)) None)
            | None => None
            end
        | _ => None
        end
    | SReq =>
        match c2s y with
        | e :: q =>
            match arrives_as wire_of content_of e with
            | Some (LRequest r) =>
                match step (sv y) (LRequest r) with
                | Some (s', ev) => Some (mkSys (cl y) s' q (s2c y ++ frames ev), mkSS None (Some (LRequest r, ev)))
                | None => None
                end
            | _ => None
            end
        | [] => None
        end
    | SDone k m =>
        match step (sv y) (LDone k m) with
        | Some (s', ev) => Some (mkSys (cl y) s' (c2s y) (s2c y ++ frames ev), mkSS None (Some (LDone k m, ev)))
        | None => None
        end
    | SResp =>
        match s2c y with
        | e :: q =>
            match arrives_as wire_of content_of e with
            | Some (LResponse i b) =>
                match step (cl y) (LResponse i b) with
                | Some (c', ev) => Some (mkSys c' (sv y) (c2s y) q, mkSS (Some (LResponse i b, ev)) None)
                | None => None
                end
            | _ => None
            end
        | [] => None
        end
    end.

  Definition strace := list (slabel * sstep).

  Fixpoint sys_exec (y : sys) (ls : list slabel) : option (sys * strace) :=
    match ls with
    | [] => Some (y, [])
    | l :: r =>
        match sys_step y l with
        | None => None
        | Some (y', st) =>
            match sys_exec y' r with
            | None => None
            | Some (y'', tr) => Some (y'', (l, st) :: tr)
            end
        end
    end.

  (* the history of each channel inside a system history *)
  Definition cproj (tr : strace) : trace :=
    flat_map (fun p => match ss_cl (snd p) with Some x => [x] | None => [] end) tr.
  Definition sproj (tr : strace) : trace :=
    flat_map (fun p => match ss_sv (snd p) with Some x => [x] | None => [] end) tr.

  Definition sfetch_tags (ls : list slabel) : list tag :=
    flat_map (fun l => match l with SCall (LFetch _ c) => [c_tag c] | _ => [] end) ls.

  (* ---- both ends calling AND serving over one connection, and each end's connection going DOWN ----
     RpcChannel is symmetric: with services_ set on the client side too, either end may call the other.
     Each end is a channel with its life cycle (C19_Model.cstep); [toa] / [tob] are the frames under way
     to end A / end B (requests of the peer's calls and responses of the peer's services, in the order
     they were written).  BDown w: end w's connection goes DOWN (each end notices at its own time; frames
     still queued towards it are never read). *)
  Inductive side := SA | SB.
  Definition other (w : side) : side := match w with SA => SB | SB => SA end.

  Record bsys := mkB { ea : chan; eb : chan; toa : list event; tob : list event }.

  Definition bend (y : bsys) (w : side) : chan := match w with SA => ea y | SB => eb y end.
  Definition binq (y : bsys) (w : side) : list event := match w with SA => toa y | SB => tob y end.

  (* end w becomes c', [out] is written towards the other end, end w's own input queue becomes q *)
  Definition bupd (y : bsys) (w : side) (c' : chan) (q : list event) (out : list event) : bsys :=
    match w with
    | SA => mkB c' (eb y) q (tob y ++ out)
    | SB => mkB (ea y) c' (toa y ++ out) q
    end.

  Definition binit (ownA ownB : bool) (svcsA svcsB : option (list (name * list name))) : bsys :=
    mkB (cinit ownA svcsA) (cinit ownB svcsB) [] [].

  Inductive blabel :=
  | BCall (w : side) (l : label)              (* a CallMethod micro-step of a thread at end w *)
  | BDeliver (w : side)                       (* the oldest frame under way to end w reaches its onRpcMessage *)
  | BDone (w : side) (k : tok) (m : bytes)    (* the service at end w completes callback k with reply m *)
  | BDown (w : side).                         (* end w's connection goes DOWN *)

  (* who acted, which label its channel took, what the step did *)
  Record bstep_rec := mkBS { bs_side : side; bs_label : clabel; bs_events : list event }.

  Definition bstep (y : bsys) (l : blabel) : option (bsys * bstep_rec) :=
    match l with
    | BCall w l0 =>
        match l0 with
        | LFetch _ _ | LRegister _ | LSend _ =>
            match cstep (bend y w) (CL l0) with
            | Some (c', ev) => Some (bupd y w c' (binq y w) (frames ev), mkBS w (CL l0) ev)
            | None => None
            end
        | _ => None
        end
    | BDeliver w =>
        match binq y w with
        | e :: q =>
            (* a REQUEST frame reaches onRpcMessage as a request, a RESPONSE frame as a response
               (C19_frames_arrive: always so for frames a channel writes) *)
            match e, arrives_as wire_of content_of e with
            | ESendRequest _ _ _ _, Some (LRequest r) =>
                match cstep (bend y w) (CL (LRequest r)) with
                | Some (c', ev) => Some (bupd y w c' q (frames ev), mkBS w (CL (LRequest r)) ev)
                | None => None
                end
            | ESendResponse _ _, Some (LResponse i b) =>
                match cstep (bend y w) (CL (LResponse i b)) with
                | Some (c', ev) => Some (bupd y w c' q (frames ev), mkBS w (CL (LResponse i b)) ev)
                | None => None
                end
            | _, _ => None
            end
        | [] => None
        end
    | BDone w k m =>
        match cstep (bend y w) (CL (LDone k m)) with
        | Some (c', ev) => Some (bupd y w c' (binq y w) (frames ev), mkBS w (CL (LDone k m)) ev)
        | None => None
        end
    | BDown w =>
        match cstep (bend y w) CDown with
        | Some (c', ev) => Some (bupd y w c' (binq y w) [], mkBS w CDown ev)
        | None => None
        end
    end.

  Definition btrace := list (blabel * bstep_rec).

  Fixpoint bexec (y : bsys) (ls : list blabel) : option (bsys * btrace) :=
    match ls with
    | [] => Some (y, [])
    | l :: r =>
        match bstep y l with
        | None => None
        | Some (y', st) =>
            match bexec y' r with
            | None => None
            | Some (y'', tr) => Some (y'', (l, st) :: tr)
            end
        end
    end.

  (* what end w did, in order *)
  Definition bproj (w : side) (tr : btrace) : ctrace :=
    flat_map (fun p => match bs_side (snd p), w with
                       | SA, SA | SB, SB => [(bs_label (snd p), bs_events (snd p))]
                       | _, _ => []
                       end) tr.

  Definition bfetch_tags (w : side) (ls : list blabel) : list tag :=
    flat_map (fun l => match l with
                       | BCall SA (LFetch _ c) => match w with SA => [c_tag c] | SB => [] end
                       | BCall SB (LFetch _ c) => match w with SB => [c_tag c] | SA => [] end
                       | _ => [] end) ls.

  (* both connections up, nothing under way, nothing pending, every CallMethod returned -- at both ends *)
  Definition bquiescent (y : bsys) : Prop :=
    toa y = [] /\ tob y = [] /\
    (forall w, up (bend y w) = true /\ pending (core (bend y w)) = [] /\
               forall t, tget t (threads (core (bend y w))) = TIdle).

  (* nothing in flight, every CallMethod has returned, every request handed to a service has been answered *)
  Definition quiescent (y : sys) : Prop :=
    c2s y = [] /\ s2c y = [] /\ pending (sv y) = [] /\ forall t, tget t (threads (cl y)) = TIdle.
End Sys.
