(* C19_Sys: two RpcChannels talking to each other.  A client channel (C19_Model.step, no services)
   and a server channel (with a service table) joined by the two byte streams of one TCP connection:
   what one side hands to its connection (ESendRequest / ESendResponse events) is queued, in order,
   and reaches the other side as the label that serialising and parsing the RpcMessage yields
   (C19_Wire.arrives_as: the bytes are in the loop).  Executable; no proofs here (C19_SysProofs).

   System labels = everything that is scheduled independently:
     SCall l     a micro-step of CallMethod on some client thread (LFetch / LRegister / LSend)
     SReq        the oldest REQUEST frame in flight reaches the server's onRpcMessage
     SDone k m   the service (user code) completes deferred callback k with reply m
     SResp       the oldest RESPONSE frame in flight reaches the client's onRpcMessage
   A service that answers inside CallMethod is SReq immediately followed by SDone. *)
From Coq Require Import List ZArith Bool Arith.
From Coq.Strings Require Import Byte.
From Muduo Require Import Base_Bytes C19_Model C19_Wire.
Import ListNotations.
Local Open Scope Z_scope.

Section Sys.
  Variable wire_of : bytes -> bytes.           (* SerializeAsString of the user's message types *)
  Variable content_of : bytes -> payload.      (* ParseFromString of the user's message types *)

  Record sys := mkSys {
    cl : state;                (* the client's channel *)
    sv : state;                (* the server's channel *)
    c2s : list event;          (* frames written by the client, not yet read by the server (FIFO) *)
    s2c : list event           (* frames written by the server, not yet read by the client (FIFO) *)
  }.

  Definition sys_init (svcs : option (list (name * list name))) : sys := mkSys (init None) (init svcs) [] [].

  Inductive slabel := SCall (l : label) | SReq | SDone (k : tok) (m : bytes) | SResp.

  Definition is_frame (e : event) : bool :=
    match e with ESendRequest _ _ _ _ | ESendResponse _ _ => true | _ => false end.
  Definition frames (ev : list event) : list event := filter is_frame ev.

  (* what each side did in one system step: the label its channel took and the events of that step *)
  Record sstep := mkSS { ss_cl : option (label * list event); ss_sv : option (label * list event) }.

  Definition sys_step (y : sys) (l : slabel) : option (sys * sstep) :=
    match l with
    | SCall l0 =>
        match l0 with
        | LFetch _ _ | LRegister _ | LSend _ =>
            match step (cl y) l0 with
            | Some (c', ev) => Some (mkSys c' (sv y) (c2s y ++ frames ev) (s2c y), mkSS (Some (l0, ev)) None)
            | None => None
            end
        | _ => None
        end
    | SReq =>
        match c2s y with
        | e :: q =>
            match arrives_as wire_of content_of e with
            | Some (LRequest r) =>
                match step (sv y) (LRequest r) with
                | Some (s', ev) => Some (mkSys (cl y) s' q (s2c y ++ frames ev), mkSS None (Some (LRequest r, ev)))
                | None => None
                end
            | _ => None
            end
        | [] => None
        end
    | SDone k m =>
        match step (sv y) (LDone k m) with
        | Some (s', ev) => Some (mkSys (cl y) s' (c2s y) (s2c y ++ frames ev), mkSS None (Some (LDone k m, ev)))
        | None => None
        end
    | SResp =>
        match s2c y with
        | e :: q =>
            match arrives_as wire_of content_of e with
            | Some (LResponse i b) =>
                match step (cl y) (LResponse i b) with
                | Some (c', ev) => Some (mkSys c' (sv y) (c2s y) q, mkSS (Some (LResponse i b, ev)) None)
                | None => None
                end
            | _ => None
            end
        | [] => None
        end
    end.

  Definition strace := list (slabel * sstep).

  Fixpoint sys_exec (y : sys) (ls : list slabel) : option (sys * strace) :=
    match ls with
    | [] => Some (y, [])
    | l :: r =>
        match sys_step y l with
        | None => None
        | Some (y', st) =>
            match sys_exec y' r with
            | None => None
            | Some (y'', tr) => Some (y'', (l, st) :: tr)
            end
        end
    end.

  (* the history of each channel inside a system history *)
  Definition cproj (tr : strace) : trace :=
    flat_map (fun p => match ss_cl (snd p) with Some x => [x] | None => [] end) tr.
  Definition sproj (tr : strace) : trace :=
    flat_map (fun p => match ss_sv (snd p) with Some x => [x] | None => [] end) tr.

  Definition sfetch_tags (ls : list slabel) : list tag :=
    flat_map (fun l => match l with SCall (LFetch _ c) => [c_tag c] | _ => [] end) ls.

  (* nothing in flight, every CallMethod has returned, every request handed to a service has been answered *)
  Definition quiescent (y : sys) : Prop :=
    c2s y = [] /\ s2c y = [] /\ pending (sv y) = [] /\ forall t, tget t (threads (cl y)) = TIdle.
End Sys.
