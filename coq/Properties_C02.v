(* Properties_C02: each connection gets exactly one UP, then messages, then exactly one DOWN;
   callbacks on the connection's own loop thread; destroyed once, descriptor closed once, never
   while registered; no leaks.
   Only statements, closed by [exact], with Print Assumptions and non-vacuity examples.

   Part 1 is about ONE connection: Conn_Model (shared with C01/C03/C13), tied to
   muduo/net/TcpConnection.cc by the single-connection differential driver.  [run c ops] executes
   an arbitrary list of ops: loop-thread API calls, foreign API calls cut into micro-steps, kernel
   events, single functor executions, and every close cause (EvReadEOF, EvHup, Shutdown/XShutdown
   followed by the peer's close, ForceClose, ForceCloseDelay + DelayFire, OwnerDestroy).
   Definitions (C02_Proofs / Conn_Proofs):
     cblog e    = the EvUp / EvMsg / EvDown events of e, in order (filter is_cbev);
     all_msgs l = every element of l is an EvMsg;
     up c       = st c = Connected \/ st c = Disconnecting;
     count f e  = length (filter f e);   unregs c ops = number of steps of the run in which
                  [registered] goes from true to false (Channel::remove). *)
From Coq Require Import List ZArith Lia Bool Arith NArith.
From Coq.Strings Require Import Byte.
From Muduo Require Import Conn_Model Conn_Proofs C02_Proofs.
Import ListNotations.

(* ---- UP exactly once, before everything else ------------------------------------------------ *)
Theorem C02_up_once_first : forall mark wc hw ops c e,
  run (init mark wc hw) ops = Ok (c, e) ->
  (st c = Connecting /\ cblog e = []) \/
  (st c <> Connecting /\ exists rest, cblog e = EvUp :: rest /\ ~ In EvUp rest /\ count is_up e = 1).
Proof. exact P02_up_once_first. Qed.
Print Assumptions C02_up_once_first.

(* ---- DOWN at most once, after the last message, exactly when the connection is closed -------- *)
Theorem C02_down_once_last : forall mark wc hw ops c e,
  run (init mark wc hw) ops = Ok (c, e) ->
  count is_down e <= 1 /\
  (st c = Disconnected <-> count is_down e = 1) /\
  (st c = Disconnected <-> exists msgs, all_msgs msgs /\ cblog e = EvUp :: msgs ++ [EvDown]) /\
  (st c = Connected \/ st c = Disconnecting <-> exists msgs, all_msgs msgs /\ cblog e = EvUp :: msgs) /\
  (st c = Connecting <-> cblog e = []).
Proof. exact P02_down_once_last. Qed.
Print Assumptions C02_down_once_last.

Theorem C02_cblog_def : forall e,
  cblog e = filter (fun ev => match ev with EvUp | EvDown | EvMsg _ => true | _ => false end) e.
Proof. reflexivity. Qed.
Print Assumptions C02_cblog_def.

Theorem C02_all_msgs_def : forall l, all_msgs l <-> forall ev, In ev l -> exists n, ev = EvMsg n.
Proof. exact P02_all_msgs_def. Qed.
Print Assumptions C02_all_msgs_def.

(* what connected() says inside each callback (the state is switched before the callback runs),
   and which steps can run it: UP only from connectEstablished on a fresh connection; a message
   only from a read event on a connection that is up; DOWN only on a connection that is up, and
   all interest is off when it runs *)
Theorem C02_callback_states : forall c o c' e, reach c -> step c o = Ok (c', e) ->
  (In EvUp e -> o = Establish /\ st c = Connecting /\ st c' = Connected /\ e = [EvUp]) /\
  (In EvDown e -> up c /\ st c' = Disconnected /\ writing c' = false /\ rd_chan c' = false /\ e = [EvDown]) /\
  (forall n, In (EvMsg n) e -> up c /\ st c' = st c /\ exists d, o = EvReadData d /\ e = [EvMsg n]).
Proof. exact P02_callback_states_reach. Qed.
Print Assumptions C02_callback_states.

(* whichever side closes: every close cause, when it takes effect on a connection that is up,
   delivers the DOWN in that very step (peer FIN, HUP/RST, the queued forced close, the owner's
   destruction); forceClose() and a firing forceCloseWithDelay timer queue the forced close *)
Theorem C02_every_close_cause_reports_down : forall c, reach c -> up c ->
  (rd_chan c = true -> exists c', step c EvReadEOF = Ok (c', [EvDown]) /\ st c' = Disconnected) /\
  (rd_chan c = true \/ writing c = true ->
     exists c', step c EvHup = Ok (c', [EvDown]) /\ st c' = Disconnected) /\
  (forall k rest, pending c = FForceClose :: rest ->
     exists c', step c (RunOne k) = Ok (c', [EvDown]) /\ st c' = Disconnected) /\
  (exists c', step c OwnerDestroy = Ok (c', [EvDown]) /\ st c' = Disconnected /\ registered c' = false /\
     writing c' = false /\ rd_chan c' = false) /\
  step c ForceClose = Ok (set_pending (set_st c Disconnecting) (pending c ++ [FForceClose]), []) /\
  (forall n, delayed c = S n -> step c DelayFire =
     Ok (set_aux (set_pending (set_st c Disconnecting) (pending c ++ [FForceClose])) (chk c) n, [])).
Proof. exact P02_close_causes_reach. Qed.
Print Assumptions C02_every_close_cause_reports_down.

(* ---- nothing after DOWN ---------------------------------------------------------------------- *)
Theorem C02_no_callback_after_down : forall c, reach c -> st c = Disconnected ->
  forall ops c' e, run c ops = Ok (c', e) -> cblog e = [] /\ st c' = Disconnected.
Proof. exact P02_no_callback_after_down_reach. Qed.
Print Assumptions C02_no_callback_after_down.

(* ---- unregistering: once, last, with nothing set -------------------------------------------- *)
(* the step that removes the channel from the poller is a connectDestroyed (the owner's direct
   call or its queued functor); afterwards the connection is Disconnected with no interest, its
   DOWN has been delivered (in that step if it was still owed), *)
Theorem C02_unregister_only_when_down : forall c o c' e, reach c -> step c o = Ok (c', e) ->
  registered c = true -> registered c' = false ->
  st c' = Disconnected /\ writing c' = false /\ rd_chan c' = false /\ downs c' = 1 /\
  (o = OwnerDestroy \/ exists k rest, o = RunOne k /\ pending c = FDestroy :: rest) /\
  ((up c /\ e = [EvDown]) \/ (st c = Disconnected /\ e = [])).
Proof. exact P02_unregister_reach. Qed.
Print Assumptions C02_unregister_only_when_down.

(* and from then on, whatever is still queued or requested (late functors of send / shutdown /
   forceClose / startRead / stopRead, timers, foreign calls), the channel is never registered
   again, never gets interest again and no callback runs: the descriptor can be closed *)
Theorem C02_unregistered_for_good : forall c, reach c -> st c = Disconnected -> registered c = false ->
  forall ops c' e, run c ops = Ok (c', e) ->
  st c' = Disconnected /\ registered c' = false /\ writing c' = false /\ rd_chan c' = false /\ cblog e = [].
Proof. exact P02_unregistered_for_good_reach. Qed.
Print Assumptions C02_unregistered_for_good.

Theorem C02_unregister_at_most_once : forall mark wc hw ops c e,
  run (init mark wc hw) ops = Ok (c, e) -> unregs (init mark wc hw) ops <= 1.
Proof. exact P02_unregister_at_most_once_init. Qed.
Print Assumptions C02_unregister_at_most_once.

Theorem C02_unregs_def : forall c o rest,
  unregs c [] = 0 /\
  unregs c (o :: rest) =
  match step c o with
  | Ok (c', _) => (if registered c && negb (registered c') then 1 else 0) + unregs c' rest
  | _ => 0
  end.
Proof. exact P02_unregs_def. Qed.
Print Assumptions C02_unregs_def.

(* ---- no assertion of the C++ is reachable ---------------------------------------------------- *)
(* [Fault] is what the model returns where the C++ would fail an assert: handleClose's
   assert(state_ == kConnected || state_ == kDisconnecting), Channel::remove's
   assert(isNoneEvent()), Poller::removeChannel's assert that the channel is known *)
Theorem C02_no_assert_reachable : forall mark wc hw ops, run (init mark wc hw) ops <> Fault.
Proof. exact P02_no_assert_reachable. Qed.
Print Assumptions C02_no_assert_reachable.

(* ---- non-vacuity ----------------------------------------------------------------------------- *)
(* a full life: UP, messages, a send with a backlog, shutdown requested from a foreign thread,
   the peer's FIN, late functors after DOWN (foreign send, startRead - the F-14 situation),
   the queued connectDestroyed, and more late requests after the channel is gone *)
Definition ex_life : list op :=
  [ Establish; EvReadData [x61]; Send [x62; x63] (Accept 1); EvReadData [x64; x65];
    FSendCheck 1; XShutdown; ForceCloseDelay; XStartRead; EvReadEOF; FSendEnq 1 [x66];
    RunOne AcceptAll; RunOne AcceptAll; RunOne AcceptAll; RunOne AcceptAll;
    ForceClose; XStopRead; RunOne AcceptAll; DelayFire ].

Example ex_life_run :
  exists c, run (init 1024%N true true) ex_life = Ok (c, [EvUp; EvMsg 1; EvMsg 3; EvDown; EvFin; EvGiveUp]) /\
    st c = Disconnected /\ registered c = false /\ rd_chan c = false /\ writing c = false /\
    unregs (init 1024%N true true) ex_life = 1.
Proof. vm_compute. eexists. repeat split. Qed.

(* the F-5 witness (now passing): shutdown requested, then the owner goes away *)
Example ex_f5 :
  exists c, run (init 1024%N true true) [Establish; Shutdown; OwnerDestroy] = Ok (c, [EvUp; EvFin; EvDown]) /\
    st c = Disconnected /\ registered c = false.
Proof. vm_compute. eexists. repeat split. Qed.

(* the F-14 witnesses (now passing) *)
Example ex_f14 :
  (exists c e, run (init 100%N true true) [Establish; XStartRead; EvReadEOF; RunOne AcceptAll; RunOne AcceptAll] = Ok (c, e) /\
     cblog e = [EvUp; EvDown] /\ registered c = false /\ rd_chan c = false) /\
  (exists c e, run (init 100%N true true) [Establish; EvReadEOF; XStopRead; RunOne AcceptAll; RunOne AcceptAll] = Ok (c, e) /\
     cblog e = [EvUp; EvDown] /\ registered c = false /\ rd_chan c = false).
Proof. split; vm_compute; eexists _, _; repeat split. Qed.

(* reachable states meeting the hypotheses of the theorems above *)
Example ex_reach_up :
  exists c, reach c /\ up c /\ rd_chan c = true /\ delayed c = 1 /\ exists rest, pending c = FForceClose :: rest.
Proof.
  destruct (run (init 4%N true true) [Establish; ForceCloseDelay; ForceClose]) as [[c e]| |] eqn:E;
    try (vm_compute in E; discriminate).
  exists c. assert (Hr : reach c) by (eapply run_reach; [apply reach_init|exact E]).
  vm_compute in E. injection E as <- _. split; [exact Hr|]. vm_compute. repeat split; eauto.
Qed.

Example ex_reach_unregistered :
  exists c, reach c /\ st c = Disconnected /\ registered c = false /\ pending c <> [].
Proof.
  destruct (run (init 4%N true true) [Establish; XStartRead; OwnerDestroy]) as [[c e]| |] eqn:E;
    try (vm_compute in E; discriminate).
  exists c. assert (Hr : reach c) by (eapply run_reach; [apply reach_init|exact E]).
  vm_compute in E. injection E as <- _. split; [exact Hr|]. vm_compute. repeat split; discriminate.
Qed.
