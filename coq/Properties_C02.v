(* Properties_C02: each connection gets exactly one UP, then messages, then exactly one DOWN;
   callbacks on the connection's own loop thread; destroyed once, descriptor closed once, never
   while registered; no leaks.
   Only statements, closed by [exact], with Print Assumptions and non-vacuity examples.

   Part 1 is about ONE connection: Conn_Model (shared with C01/C03/C13), tied to
   muduo/net/TcpConnection.cc by the single-connection differential driver.  [run c ops] executes
   an arbitrary list of ops: loop-thread API calls, foreign API calls cut into micro-steps, kernel
   events, single functor executions, and every close cause (EvReadEOF, EvHup, Shutdown/XShutdown
   followed by the peer's close, ForceClose, ForceCloseDelay + DelayFire, OwnerDestroy).
   Definitions (C02_Proofs / Conn_Proofs):
     cblog e    = the EvUp / EvMsg / EvDown events of e, in order (filter is_cbev);
     all_msgs l = every element of l is an EvMsg;
     up c       = st c = Connected \/ st c = Disconnecting;
     count f e  = length (filter f e);   unregs c ops = number of steps of the run in which
                  [registered] goes from true to false (Channel::remove). *)
From Coq Require Import List ZArith Lia Bool Arith NArith.
From Coq.Strings Require Import Byte.
From Muduo Require Import Conn_Model Conn_Proofs C02_Proofs.
Import ListNotations.

Module One.   (* part 1: one connection *)

(* ---- UP exactly once, before everything else ------------------------------------------------ *)
Theorem C02_up_once_first : forall mark wc hw ops c e,
  run (init mark wc hw) ops = Ok (c, e) ->
  (st c = Connecting /\ cblog e = []) \/
  (st c <> Connecting /\ exists rest, cblog e = EvUp :: rest /\ ~ In EvUp rest /\ count is_up e = 1).
Proof. exact P02_up_once_first. Qed.
Print Assumptions C02_up_once_first.

(* ---- DOWN at most once, after the last message, exactly when the connection is closed -------- *)
Theorem C02_down_once_last : forall mark wc hw ops c e,
  run (init mark wc hw) ops = Ok (c, e) ->
  count is_down e <= 1 /\
  (st c = Disconnected <-> count is_down e = 1) /\
  (st c = Disconnected <-> exists msgs, all_msgs msgs /\ cblog e = EvUp :: msgs ++ [EvDown]) /\
  (st c = Connected \/ st c = Disconnecting <-> exists msgs, all_msgs msgs /\ cblog e = EvUp :: msgs) /\
  (st c = Connecting <-> cblog e = []).
Proof. exact P02_down_once_last. Qed.
Print Assumptions C02_down_once_last.

Theorem C02_cblog_def : forall e,
  cblog e = filter (fun ev => match ev with EvUp | EvDown | EvMsg _ => true | _ => false end) e.
Proof. reflexivity. Qed.
Print Assumptions C02_cblog_def.

Theorem C02_all_msgs_def : forall l, all_msgs l <-> forall ev, In ev l -> exists n, ev = EvMsg n.
Proof. exact P02_all_msgs_def. Qed.
Print Assumptions C02_all_msgs_def.

(* what connected() says inside each callback (the state is switched before the callback runs),
   and which steps can run it: UP only from connectEstablished on a fresh connection; a message
   only from a read event on a connection that is up; DOWN only on a connection that is up, and
   all interest is off when it runs *)
Theorem C02_callback_states : forall c o c' e, reach c -> step c o = Ok (c', e) ->
  (In EvUp e -> o = Establish /\ st c = Connecting /\ st c' = Connected /\ e = [EvUp]) /\
  (In EvDown e -> up c /\ st c' = Disconnected /\ writing c' = false /\ rd_chan c' = false /\ e = [EvDown]) /\
  (forall n, In (EvMsg n) e -> up c /\ st c' = st c /\ exists d, o = EvReadData d /\ e = [EvMsg n]).
Proof. exact P02_callback_states_reach. Qed.
Print Assumptions C02_callback_states.

(* whichever side closes: every close cause, when it takes effect on a connection that is up,
   delivers the DOWN in that very step (peer FIN, HUP/RST, the queued forced close, the owner's
   destruction); forceClose() and a firing forceCloseWithDelay timer queue the forced close *)
Theorem C02_every_close_cause_reports_down : forall c, reach c -> up c ->
  (rd_chan c = true -> exists c', step c EvReadEOF = Ok (c', [EvDown]) /\ st c' = Disconnected) /\
  (rd_chan c = true \/ writing c = true ->
     exists c', step c EvHup = Ok (c', [EvDown]) /\ st c' = Disconnected) /\
  (forall k rest, pending c = FForceClose :: rest ->
     exists c', step c (RunOne k) = Ok (c', [EvDown]) /\ st c' = Disconnected) /\
  (exists c', step c OwnerDestroy = Ok (c', [EvDown]) /\ st c' = Disconnected /\ registered c' = false /\
     writing c' = false /\ rd_chan c' = false) /\
  step c ForceClose = Ok (set_pending (set_st c Disconnecting) (pending c ++ [FForceClose]), []) /\
  (forall n, delayed c = S n -> step c DelayFire =
     Ok (set_aux (set_pending (set_st c Disconnecting) (pending c ++ [FForceClose])) (chk c) n, [])).
Proof. exact P02_close_causes_reach. Qed.
Print Assumptions C02_every_close_cause_reports_down.

(* ---- nothing after DOWN ---------------------------------------------------------------------- *)
Theorem C02_no_callback_after_down : forall c, reach c -> st c = Disconnected ->
  forall ops c' e, run c ops = Ok (c', e) -> cblog e = [] /\ st c' = Disconnected.
Proof. exact P02_no_callback_after_down_reach. Qed.
Print Assumptions C02_no_callback_after_down.

(* ---- unregistering: once, last, with nothing set -------------------------------------------- *)
(* the step that removes the channel from the poller is a connectDestroyed (the owner's direct
   call or its queued functor); afterwards the connection is Disconnected with no interest, its
   DOWN has been delivered (in that step if it was still owed), *)
Theorem C02_unregister_only_when_down : forall c o c' e, reach c -> step c o = Ok (c', e) ->
  registered c = true -> registered c' = false ->
  st c' = Disconnected /\ writing c' = false /\ rd_chan c' = false /\ downs c' = 1 /\
  (o = OwnerDestroy \/ exists k rest, o = RunOne k /\ pending c = FDestroy :: rest) /\
  ((up c /\ e = [EvDown]) \/ (st c = Disconnected /\ e = [])).
Proof. exact P02_unregister_reach. Qed.
Print Assumptions C02_unregister_only_when_down.

(* and from then on, whatever is still queued or requested (late functors of send / shutdown /
   forceClose / startRead / stopRead, timers, foreign calls), the channel is never registered
   again, never gets interest again and no callback runs: the descriptor can be closed *)
Theorem C02_unregistered_for_good : forall c, reach c -> st c = Disconnected -> registered c = false ->
  forall ops c' e, run c ops = Ok (c', e) ->
  st c' = Disconnected /\ registered c' = false /\ writing c' = false /\ rd_chan c' = false /\ cblog e = [].
Proof. exact P02_unregistered_for_good_reach. Qed.
Print Assumptions C02_unregistered_for_good.

Theorem C02_unregister_at_most_once : forall mark wc hw ops c e,
  run (init mark wc hw) ops = Ok (c, e) -> unregs (init mark wc hw) ops <= 1.
Proof. exact P02_unregister_at_most_once_init. Qed.
Print Assumptions C02_unregister_at_most_once.

Theorem C02_unregs_def : forall c o rest,
  unregs c [] = 0 /\
  unregs c (o :: rest) =
  match step c o with
  | Ok (c', _) => (if registered c && negb (registered c') then 1 else 0) + unregs c' rest
  | _ => 0
  end.
Proof. exact P02_unregs_def. Qed.
Print Assumptions C02_unregs_def.

(* ---- no assertion of the C++ is reachable ---------------------------------------------------- *)
(* [Fault] is what the model returns where the C++ would fail an assert: handleClose's
   assert(state_ == kConnected || state_ == kDisconnecting), Channel::remove's
   assert(isNoneEvent()), Poller::removeChannel's assert that the channel is known *)
Theorem C02_no_assert_reachable : forall mark wc hw ops, run (init mark wc hw) ops <> Fault.
Proof. exact P02_no_assert_reachable. Qed.
Print Assumptions C02_no_assert_reachable.

(* ---- non-vacuity ----------------------------------------------------------------------------- *)
(* a full life: UP, messages, a send with a backlog, shutdown requested from a foreign thread,
   the peer's FIN, late functors after DOWN (foreign send, startRead - the F-14 situation),
   the queued connectDestroyed, and more late requests after the channel is gone *)
Definition ex_life : list op :=
  [ Establish; EvReadData [x61]; Send [x62; x63] (Accept 1); EvReadData [x64; x65];
    FSendCheck 1; XShutdown; ForceCloseDelay; XStartRead; EvReadEOF; FSendEnq 1 [x66];
    RunOne AcceptAll; RunOne AcceptAll; RunOne AcceptAll; RunOne AcceptAll;
    ForceClose; XStopRead; RunOne AcceptAll; DelayFire ].

Example ex_life_run :
  exists c, run (init 1024%N true true) ex_life = Ok (c, [EvUp; EvMsg 1; EvMsg 3; EvDown; EvFin; EvGiveUp]) /\
    st c = Disconnected /\ registered c = false /\ rd_chan c = false /\ writing c = false /\
    unregs (init 1024%N true true) ex_life = 1.
Proof. vm_compute. eexists. repeat split. Qed.

(* the F-5 witness (now passing): shutdown requested, then the owner goes away *)
Example ex_f5 :
  exists c, run (init 1024%N true true) [Establish; Shutdown; OwnerDestroy] = Ok (c, [EvUp; EvFin; EvDown]) /\
    st c = Disconnected /\ registered c = false.
Proof. vm_compute. eexists. repeat split. Qed.

(* the F-14 witnesses (now passing) *)
Example ex_f14 :
  (exists c e, run (init 100%N true true) [Establish; XStartRead; EvReadEOF; RunOne AcceptAll; RunOne AcceptAll] = Ok (c, e) /\
     cblog e = [EvUp; EvDown] /\ registered c = false /\ rd_chan c = false) /\
  (exists c e, run (init 100%N true true) [Establish; EvReadEOF; XStopRead; RunOne AcceptAll; RunOne AcceptAll] = Ok (c, e) /\
     cblog e = [EvUp; EvDown] /\ registered c = false /\ rd_chan c = false).
Proof. split; vm_compute; eexists _, _; repeat split. Qed.

(* reachable states meeting the hypotheses of the theorems above *)
Example ex_reach_up :
  exists c, reach c /\ up c /\ rd_chan c = true /\ delayed c = 1 /\ exists rest, pending c = FForceClose :: rest.
Proof.
  destruct (run (init 4%N true true) [Establish; ForceCloseDelay; ForceClose]) as [[c e]| |] eqn:E;
    try (vm_compute in E; discriminate).
  exists c. assert (Hr : reach c) by (eapply run_reach; [apply reach_init|exact E]).
  vm_compute in E. injection E as <- _. split; [exact Hr|]. vm_compute. repeat split; eauto.
Qed.

Example ex_reach_unregistered :
  exists c, reach c /\ st c = Disconnected /\ registered c = false /\ pending c <> [].
Proof.
  destruct (run (init 4%N true true) [Establish; XStartRead; OwnerDestroy]) as [[c e]| |] eqn:E;
    try (vm_compute in E; discriminate).
  exists c. assert (Hr : reach c) by (eapply run_reach; [apply reach_init|exact E]).
  vm_compute in E. injection E as <- _. split; [exact Hr|]. vm_compute. repeat split; discriminate.
Qed.

End One.

(* ============================================================================================
   Part 2: the OWNERS.  C02_Model: one TcpServer on an acceptor loop (0) with nio io loops,
   one TcpClient on loop 0, every connection they create, every loop's functor queue
   (pendingFunctors_ / the swapped-out batch / the functors of the batch that already ran),
   the shared_ptr holders of every connection (DERIVED: map entry + user references + foreign
   calls in progress + strong functors anywhere in a loop) and the EPollPoller registration of
   every channel.  [step strict s o]: one atomic step - an owner call on the acceptor loop, one
   functor of one loop's batch (Swap / Run / EndBatch), one poller event, one loop-thread API
   call, one micro-step (XBegin = take a reference + read state_, XStore = setState,
   XEnq = queueInLoop/runAfter + return) of an API call on a foreign thread, UGrab / UDrop of
   a user reference.  A connection is destroyed by [finish] exactly when [holders] is 0, on the
   thread of the step that dropped the last holder; [kill] is the only source of close(fd).
   [Fault] = an assert of the C++ fails or a destroyed object is used.
   [strict = true] adds the environment hypotheses (ops outside them are Rejected):
     H1  a foreign caller of send/shutdown/startRead/stopRead keeps its reference until its
         raw-this functor has run (XEnq _ true);
     H2  ~TcpServer is not run while a removeConnectionInLoop hop or a forceCloseInLoop functor
         is queued, and no peer close reaches a connection of a destroyed server before its
         queued connectDestroyed ran (TcpServer.cc "FIXME: unsafe");
     H3  the setState of a foreign shutdown()/forceClose()/forceCloseWithDelay() whose state test
         passed does not overwrite kDisconnected (no close came in between: finding F-19).  Weaker than
         Conn_Race.set_ok of the x-layer of Conn_Model, which also excludes two concurrent foreign
         shutdown() calls (C02_H3_exact / C02_H3_only_set_ok / C02_H3_beyond_set_ok);
     H4  ~TcpClient only when its connection has no holder besides the client and user
         references, and the user does not drop its last reference to a connection that
         outlived its client while it is still up (finding F-20);
     H5  (only for the poller before the fix of F-15, readd = true) no HUP is delivered to a
         channel whose interest is empty;
     H6  a TcpClient is destroyed on its loop thread (CliDestroy), not on a foreign thread
         (XBegin _ _ ADtor; XStore; XEnq) (finding F-13, recorded by C12/C08);
     H7  an io loop of the destroyed server does not leave loop() while a connectEstablished /
         connectDestroyed hand-off is still in its pendingFunctors_ (no_handoff).  ~TcpServer is a
         LOOP of runInLoop hand-offs (one SrvDestroy step per live entry of connections_, then one
         for "the members die": threadPool_ -> ~EventLoopThread: quit(), join()); EventLoop::loop()
         has no drain after its while loop, so a hand-off that reaches the queue after the loop's
         last swap is destroyed unrun with the EventLoop.  H7 is NOT something a user can establish
         for an io loop with two or more live connections: the wakeup() of the first hand-off lets
         the io thread swap a batch before the second hand-off is queued (w_pool_d: every op of
         ~TcpServer is accepted under H1-H8 from a state in which nothing is going on, and the exit
         is the Fault).  It is the negation of finding F-25; the theorems below that carry
         _partial say what holds when F-25 does not strike;
     H8  no user reference to, and no foreign call on, a live connection of an io loop is
         outstanding when that loop leaves loop(), and no foreign call enqueues on a loop that is
         gone (a TcpConnection must not outlive its EventLoop: residue R-3, the model does not
         represent the storage of an EventLoop).
   ~TcpServer in the model: SrvDestroy = one iteration of the destructor's loop (the first live entry of connections_
   is reset and its connectDestroyed runs inline / is queued; s_dying), and, when no entry is left, the death of the
   members (s_srv false, s_stop 1).  The pool's tear-down: s_stop = j >= 1 means io loops 1..j-1 are gone, io loop j
   has quit_ set; EndBatch of a quitting loop is its exit (its queue is dropped, the dropped
   functors' references die on that thread, the next loop is told to quit).  Not modelled: the
   base thread is blocked in join() meanwhile (the model lets it run: more schedules, not fewer).
   Each hypothesis is needed: the _refuted theorems below give the op list that fails without
   it, and corpus/C02/sys replays each of them on the real code.
   ============================================================================================ *)
From Muduo Require Import C02_Model C02_SysProofs C02_SysCount C02_GenTie Gen_C02 Conn_Race C02_Link C02_LinkSys.

(* ---- no assertion fails, no destroyed object is used: every op list accepted under H1-H8, every number of loops --- *)
Theorem C02_sys_no_assert_reachable_partial : forall nio readd ops, run true (init_sys nio readd) ops <> Fault.
Proof. exact S02_no_fault. Qed.
Print Assumptions C02_sys_no_assert_reachable_partial.

Theorem C02_sys_step_never_faults_partial : forall s o, sreach s -> step true s o <> Fault.
Proof. exact S02_step_no_fault. Qed.
Print Assumptions C02_sys_step_never_faults_partial.

(* ---- affinity: with or without the hypotheses, every UP / DOWN / message callback of a
   connection is emitted on the thread of the loop the connection was assigned to.
   What this PROVES: for callbacks run by a functor (connectEstablished, connectDestroyed,
   forceCloseInLoop, the removeConnection hop) the model's assertInLoopThread tests are real tests
   (thr = the loop whose queue held the functor) and these theorems + the no-fault theorem say that
   the functor always sits in the connection's own loop.  For callbacks that come from a poller
   event (messages, the DOWN of a peer close) the model DEFINES the thread to be k_loop k
   (C02_event_thread_tied below): there the statement is carried by the generated facts
   (the channel is built on / registered with / dispatched by the connection's loop) and by the
   lock-step driver, which compares the thread of every callback of the real code ------------- *)
Theorem C02_affinity : forall strict nio readd ops s obs, run strict (init_sys nio readd) ops = Ok (s, obs) ->
  forall thr c, In (OUp thr c) obs \/ In (ODown thr c) obs \/ In (OMsg thr c) obs ->
  exists k, getc s c = Some k /\ k_loop k = thr.
Proof. exact S02_affinity. Qed.
Print Assumptions C02_affinity.

Theorem C02_affinity_step : forall strict s o s' obs, step strict s o = Ok (s', obs) ->
  forall thr c, In (OUp thr c) obs \/ In (ODown thr c) obs \/ In (OMsg thr c) obs ->
  exists k, getc s' c = Some k /\ k_loop k = thr.
Proof. exact S02_affinity_step. Qed.
Print Assumptions C02_affinity_step.

(* the thread of a poller-event callback: by definition of ev_step it is k_loop of the connection; the four generated
   facts say why that is the thread of the code: newConnection builds the connection on the loop getNextLoop() returned and
   hands connectEstablished to that loop (accept: the loop recorded = the loop queued on), the connection's channel is
   constructed on that loop, a channel registers only with its loop's poller on that loop's thread, and a loop's thread
   dispatches exactly the channels its own poller reported *)
Theorem C02_event_thread_tied :
  server_conn_on_next_loop = true /\ conn_channel_on_conn_loop = true /\ channel_registers_with_its_loop = true /\
  loop_dispatches_own_poller = true /\
  (forall s s' o, accept s = Ok (s', o) ->
     exists k, getc s' (length (s_conns s)) = Some k /\ k_st k <> Disconnected /\
       ((k_loop k = 0 /\ o = [OUp 0 (length (s_conns s))]) \/
        (k_loop k <> 0 /\ o = [] /\ forall v, getl s (k_loop k) = Some v ->
           exists v', getl s' (k_loop k) = Some v' /\ q_pend v' = q_pend v ++ [TEstablish (length (s_conns s))]))) /\
  (forall strict s c e s' o, ev_step strict s c e = Ok (s', o) ->
     exists k, getc s c = Some k /\
     forall thr c', In (OUp thr c') o \/ In (ODown thr c') o \/ In (OMsg thr c') o -> c' = c /\ thr = k_loop k).
Proof.
  exact (conj tie_server_conn_on_next_loop (conj tie_conn_channel_on_conn_loop (conj tie_channel_registers_with_its_loop
        (conj tie_loop_dispatches_own_poller (conj accept_same_loop ev_step_thread))))).
Qed.
Print Assumptions C02_event_thread_tied.

(* ---- exactly one UP, at most one DOWN, per connection, over the whole system ------------------
   cntU c obs / cntD c obs = number of OUp _ c / ODown _ c in obs.  Every run: they equal the
   connection's ghost counters; under the hypotheses: UP at most once, DOWN only after UP and at
   most once, UP has happened iff the connection left kConnecting, DOWN iff it is Disconnected
   (without H3 the second DOWN is reachable: C02_down_once_foreign_refuted) ------------------ *)
Theorem C02_sys_up_down_once_partial : forall nio readd ops s obs, run true (init_sys nio readd) ops = Ok (s, obs) ->
  forall c k, getc s c = Some k ->
  cntU c obs = k_ups k /\ cntD c obs = k_downs k /\ cntU c obs <= 1 /\ cntD c obs <= cntU c obs /\
  (cntU c obs = 0 <-> k_st k = Connecting) /\ (cntD c obs = 1 <-> k_st k = Disconnected).
Proof. exact S02_up_down_once. Qed.
Print Assumptions C02_sys_up_down_once_partial.

Theorem C02_sys_callbacks_counted : forall strict nio readd ops s obs, run strict (init_sys nio readd) ops = Ok (s, obs) ->
  forall c, cntU c obs = upsof s c /\ cntD c obs = downsof s c.
Proof. exact S02_counted. Qed.
Print Assumptions C02_sys_callbacks_counted.

Theorem C02_cnt_def : forall c o,
  cntU c o = length (filter (fun x => match x with OUp _ c' => c' =? c | _ => false end) o) /\
  cntD c o = length (filter (fun x => match x with ODown _ c' => c' =? c | _ => false end) o).
Proof. intros c o. split; reflexivity. Qed.
Print Assumptions C02_cnt_def.

(* ---- (sreach = reached by ops accepted under H1-H8, hence _partial) destroyed at most once, close(fd) exactly then, and only when Disconnected, removed
   from its loop (Channel::remove ran, i.e. after the queued connectDestroyed) and not in the
   epoll set; while it lives it has a holder, and the holders are exactly the owner's entry,
   the user references, the foreign calls in progress and the strong functors --------------- *)
Theorem C02_destroyed_once_after_unregister_partial : forall s c k, sreach s -> getc s c = Some k ->
  k_dtors k <= 1 /\ k_closes k = k_dtors k /\ (k_dtors k = 1 <-> k_alive k = false) /\
  (k_alive k = false -> k_st k = Disconnected /\ k_added k = false /\ k_inset k = false /\ holders s c = 0) /\
  (k_alive k = true -> 1 <= holders s c) /\
  (k_alive k = true -> holders s c = (if k_mapped k then 1 else 0) + k_urefs k + count_calls c (s_calls s) + allN (holds c) s).
Proof. exact S02_destroyed_once. Qed.
Print Assumptions C02_destroyed_once_after_unregister_partial.

(* ---- no leak, in every quiescent state reached under H1-H8 (with server destruction as a close cause: the io loops
   wind down as in the code, and under H7 every hand-off runs before its loop leaves) ------------------------------ *)
Theorem C02_no_leak_partial : forall s, sreach s -> quiescent s -> forall c k, getc s c = Some k ->
  (k_alive k = true /\ k_mapped k = true /\ up_k k /\ owner_alive s c k) \/
  (k_alive k = false /\ k_dtors k = 1 /\ k_closes k = 1 /\ k_st k = Disconnected /\ k_added k = false /\ k_inset k = false).
Proof. exact S02_no_leak. Qed.
Print Assumptions C02_no_leak_partial.

Theorem C02_quiescent_def : forall s, quiescent s <->
  (forall l v, getl s l = Some v -> q_all v = []) /\ s_calls s = [] /\ (forall c k, getc s c = Some k -> k_urefs k = 0).
Proof. intros s. reflexivity. Qed.
Print Assumptions C02_quiescent_def.

(* ---- since the fix of F-15 a descriptor in the epoll set always has interest (H5 is vacuous) -- *)
Theorem C02_registered_has_interest_partial : forall s c k, sreach s -> s_readd s = false -> getc s c = Some k ->
  k_alive k = true -> k_inset k = true -> k_wr k = true \/ k_rd k = true.
Proof. exact S02_inset_has_interest. Qed.
Print Assumptions C02_registered_has_interest_partial.

(* ---- server destruction with io threads: when an io loop leaves loop() (the exit step of the pool's tear-down) every
   connection that was assigned to it has been destroyed - by C02_destroyed_once_after_unregister_partial Disconnected,
   removed from the poller, closed once, and by C02_sys_up_down_once_partial with exactly one DOWN after its UP ------- *)
Theorem C02_pool_exit_destroys_partial : forall s l s' obs, sreach s -> quitting s l = true -> step true s (EndBatch l) = Ok (s', obs) ->
  s_stop s' = S l /\ forall c k', getc s' c = Some k' -> k_loop k' = l -> k_alive k' = false.
Proof. exact S02_pool_exit_destroys. Qed.
Print Assumptions C02_pool_exit_destroys_partial.

Theorem C02_pool_def : forall s l, (quitting s l = (negb (l =? 0) && (l =? s_stop s))) /\ (gone s l = (negb (l =? 0) && (l <? s_stop s))) /\
  io_idle s = forallb q_idle (tl (s_loops s)) /\
  (forall t, no_handoff t = match t with TEstablish _ | TDestroy _ => false | _ => true end) /\
  (forall v, q_idle v = match q_batch v, q_spent v with [], [] => negb (q_drain v) | _, _ => false end).
Proof. intros s l. repeat split. Qed.
Print Assumptions C02_pool_def.

(* H7 is exactly what the hypotheses add to the exit of an io loop besides H8 *)
Theorem C02_H7_is_the_guard : forall s l v, getl s l = Some v -> q_batch v = [] -> q_drain v = true -> quitting s l = true ->
  (forallb no_handoff (q_pend v) = false -> step true s (EndBatch l) = Rejected) /\
  (forallb no_handoff (q_pend v) = true -> outlived s l = false -> step true s (EndBatch l) = step false s (EndBatch l)).
Proof. exact S02_H7_guard. Qed.
Print Assumptions C02_H7_is_the_guard.

(* ---- what fails outside the hypotheses (all replayed on the real code) ----------------------- *)
(* H7: finding F-25, ~TcpServer with io threads: a queued connectDestroyed is destroyed unrun with the EventLoop, ~TcpConnection
   runs while kConnected.  a: the io thread is in a write-complete callback when ~TcpServer runs, b: in front of the
   connectEstablished of a connection accepted just before, c: inside a drain of an empty batch; d (REVIEW_E-1): nothing is going
   on when ~TcpServer starts, two connections on one io loop: the first hand-off's wakeup() lets the io thread swap, the second
   hand-off lands behind the batch.  In d every op but the last is accepted under H1-H8 *)
Theorem C02_server_destroy_drops_queued_destroy_refuted :
  run false (init_sys 1 false) w_pool_a = Fault /\ run false (init_sys 1 false) w_pool_b = Fault /\
  run false (init_sys 1 false) w_pool_c = Fault /\ run false (init_sys 1 false) w_pool_d = Fault /\
  run true (init_sys 1 false) w_pool_a = Rejected /\ run true (init_sys 1 false) w_pool_b = Rejected /\
  run true (init_sys 1 false) w_pool_c = Rejected /\ run true (init_sys 1 false) w_pool_d = Rejected /\
  (exists s0 o0, run true (init_sys 1 false) (firstn 6 w_pool_d) = Ok (s0, o0) /\ io_idle s0 = true /\
     has_task is_remove s0 = false /\ has_task is_force s0 = false /\ s_calls s0 = []) /\
  (exists s o k v, run true (init_sys 1 false) (firstn 11 w_pool_d) = Ok (s, o) /\ o = [OUp 1 0; OUp 1 1; ODown 1 0] /\
     getc s 1 = Some k /\ k_st k = Connected /\ k_alive k = true /\ holders s 1 = 1 /\ getl s 1 = Some v /\
     q_pend v = [TDestroy 1] /\ q_batch v = [] /\ q_drain v = true /\ s_stop s = 1 /\
     step true s (EndBatch 1) = Rejected /\ step false s (EndBatch 1) = Fault) /\
  (exists s o, run true (init_sys 1 false)
     [Accept; Accept; Swap 1; Run 1 true true; Run 1 true true; EndBatch 1;
      SrvDestroy; SrvDestroy; SrvDestroy; Swap 1; Run 1 true true; Run 1 true true; EndBatch 1] = Ok (s, o) /\
     o = [OUp 1 0; OUp 1 1; ODown 1 0; ODown 1 1; ODtor 1 0 true; ODtor 1 1 true] /\ s_stop s = 2).
Proof. exact W_pool. Qed.
Print Assumptions C02_server_destroy_drops_queued_destroy_refuted.

Theorem C02_pool_witness_def :
  w_pool_a = [Accept; Swap 1; Run 1 true true; EndBatch 1; LSend 0 true true; Swap 1; SrvDestroy; SrvDestroy; Run 1 true true; EndBatch 1] /\
  w_pool_b = [Accept; Swap 1; SrvDestroy; SrvDestroy; Run 1 true true; EndBatch 1] /\
  w_pool_c = [Accept; Swap 1; Run 1 true true; EndBatch 1; Swap 1; SrvDestroy; SrvDestroy; EndBatch 1] /\
  w_pool_d = [Accept; Accept; Swap 1; Run 1 true true; Run 1 true true; EndBatch 1;
              SrvDestroy; Swap 1; Run 1 true true; SrvDestroy; SrvDestroy; EndBatch 1].
Proof. repeat split. Qed.
Print Assumptions C02_pool_witness_def.

(* H2: residue R-1, ~TcpServer with a hop or a forced close in flight: use of the freed server *)
Theorem C02_server_lifetime_refuted : run false (init_sys 1 false) w_server_lifetime = Fault /\
  run false (init_sys 1 false) w_server_lifetime2 = Fault /\
  run true (init_sys 1 false) w_server_lifetime = Rejected /\ run true (init_sys 1 false) w_server_lifetime2 = Rejected.
Proof. exact W_server_lifetime. Qed.
Print Assumptions C02_server_lifetime_refuted.

(* H1: residue R-2, a raw-this functor outlives the object *)
Theorem C02_raw_functor_refuted : run false (init_sys 0 false) w_raw_functor = Fault /\ run true (init_sys 0 false) w_raw_functor = Rejected.
Proof. exact W_raw_functor. Qed.
Print Assumptions C02_raw_functor_refuted.

(* H3: finding F-19, the second DOWN *)
Theorem C02_down_once_foreign_refuted : (exists s o, run false (init_sys 0 false) w_f19 = Ok (s, o) /\ count_down 0 o = 2) /\
  run true (init_sys 0 false) w_f19 = Rejected.
Proof. exact W_f19. Qed.
Print Assumptions C02_down_once_foreign_refuted.

(* H4: finding F-20, destroyed while kConnected *)
Theorem C02_client_unique_refuted : run false (init_sys 0 false) w_f20 = Fault /\ run true (init_sys 0 false) w_f20 = Rejected.
Proof. exact W_f20. Qed.
Print Assumptions C02_client_unique_refuted.

(* H5: finding F-15 (fixed): with the old poller the HUP reaches handleClose twice; with the current one the event is not deliverable *)
Theorem C02_hup_empty_interest_refuted : run false (init_sys 0 true) w_f15 = Fault /\ run true (init_sys 0 true) w_f15 = Rejected /\
  run false (init_sys 0 false) w_f15 = Rejected.
Proof. exact W_f15. Qed.
Print Assumptions C02_hup_empty_interest_refuted.

(* H6: finding F-13 (C12/C08), ~TcpClient on a foreign thread: the peer's close runs TcpClient::removeConnection on the freed
   client; when the loop runs the queued functors first the same ops end in an ordinary DOWN and destruction *)
Theorem C02_client_foreign_dtor_refuted : run false (init_sys 0 false) w_f13 = Fault /\ run true (init_sys 0 false) w_f13 = Rejected /\
  (exists s o, run false (init_sys 0 false) [CliConnect; XBegin 1 0 ADtor; XStore 1; XEnq 1 false; Swap 0; Run 0 true true; Run 0 true true; EndBatch 0;
                                            Swap 0; Run 0 true true; EndBatch 0] = Ok (s, o) /\
     o = [OUp 0 0; ODown 0 0; ODtor 0 0 true]).
Proof. exact W_f13. Qed.
Print Assumptions C02_client_foreign_dtor_refuted.

(* ============================================================================================
   Part 1 and part 2 are one development.  The view of a connection of the owners model is
   (state_, isWriting, isReading, reading_, registered).  L (C02_Link.lstep) is the life-cycle
   machine on views; lpath / conn_path are the reflexive-transitive closures below.
   ============================================================================================ *)
(* every step of the owners model moves every connection's view along a path of L and emits, for
   that connection, exactly the callbacks of the path *)
Theorem C02_sys_projects_to_L_partial : forall s o s' obs, sreach s -> step true s o = Ok (s', obs) ->
  forall c, lpath (viewof s c) (proj c obs) (viewof s' c).
Proof. exact S02_projects_to_L. Qed.
Print Assumptions C02_sys_projects_to_L_partial.

(* every L step from a valid view is one Conn_Model step: from a Conn_Model state that satisfies the
   invariant of Conn_Proofs and has this view, to a state with the next view, with the same callbacks *)
Theorem C02_L_realised_by_Conn : forall v o v' e, lvalid v -> lstep v o = Some (v', e) ->
  Conn_Proofs.Inv (wit v (wit_pending o)) /\ cview (wit v (wit_pending o)) = v /\
  exists cm' ev, Conn_Model.step (wit v (wit_pending o)) (wit_op o) = Ok (cm', ev) /\ cview cm' = v' /\ levs ev = e.
Proof. exact l_realised_view. Qed.
Print Assumptions C02_L_realised_by_Conn.

(* composed: one step, and a whole run from the initial state *)
Theorem C02_sys_projects_to_Conn_partial : forall s o s' obs, sreach s -> step true s o = Ok (s', obs) ->
  forall c, conn_path (viewof s c) (proj c obs) (viewof s' c).
Proof. exact S02_projects_to_Conn. Qed.
Print Assumptions C02_sys_projects_to_Conn_partial.

Theorem C02_sys_run_projects_to_Conn_partial : forall nio readd ops s obs, run true (init_sys nio readd) ops = Ok (s, obs) ->
  forall c, conn_path vinit (proj c obs) (viewof s c).
Proof. exact S02_run_projects_to_Conn. Qed.
Print Assumptions C02_sys_run_projects_to_Conn_partial.

Theorem C02_proj_def : forall c x, projx c x =
  match x with OUp _ c' => if c' =? c then [LUp] else [] | ODown _ c' => if c' =? c then [LDown] else []
             | OMsg _ c' => if c' =? c then [LMsg] else [] | ODtor _ _ _ => [] end.
Proof. exact projx_def. Qed.
Print Assumptions C02_proj_def.

(* H3 and Conn_Race.set_ok.  Under the hypotheses a foreign setState (XStore) is refused exactly when its state test had passed
   and the store would overwrite kDisconnected (the resurrection of F-19).  That is weaker than Conn_Race.set_ok of Conn_Model's
   x-layer ("the request's state test still passes" - compared with the CURRENT state, whoever changed it): set_ok implies that
   the step is accepted unchanged, and an accepted step that is not set_ok is a shutdown() whose store finds kDisconnecting
   (a second concurrent foreign shutdown(), or a forceClose() in between): benign, and inside the theorems of Part 2 *)
Theorem C02_H3_exact : forall s u a k,
  find_call u (s_calls s) = Some a -> a_stored a = false -> getc s (a_conn a) = Some k -> is_dtor (a_api a) = false ->
  (step true s (XStore u) = Rejected <-> (a_loaded a = true /\ k_st k = Disconnected)) /\
  (step true s (XStore u) <> Rejected -> step true s (XStore u) = step false s (XStore u)).
Proof. exact S02_H3_exact. Qed.
Print Assumptions C02_H3_exact.

Theorem C02_H3_only_set_ok : forall s u a k r cm reqs tm,
  find_call u (s_calls s) = Some a -> a_stored a = false -> getc s (a_conn a) = Some k -> creq_of (a_api a) = Some r ->
  st cm = k_st k -> Conn_Race.set_ok (mkX cm (mkReq u r (a_loaded a) false :: reqs) tm) (Conn_Model.XSet u) ->
  step true s (XStore u) = step false s (XStore u).
Proof. exact S02_H3_only_set_ok. Qed.
Print Assumptions C02_H3_only_set_ok.

Theorem C02_H3_beyond_set_ok : forall s u a k r s' obs,
  find_call u (s_calls s) = Some a -> a_stored a = false -> getc s (a_conn a) = Some k -> creq_of (a_api a) = Some r ->
  k_st k <> Connecting -> step true s (XStore u) = Ok (s', obs) ->
  forall cm reqs tm, st cm = k_st k ->
  Conn_Race.set_ok (mkX cm (mkReq u r (a_loaded a) false :: reqs) tm) (Conn_Model.XSet u) \/
  (a_loaded a = true /\ a_api a = AShutdown /\ k_st k = Disconnecting).
Proof. exact S02_H3_beyond_set_ok. Qed.
Print Assumptions C02_H3_beyond_set_ok.

(* two threads call shutdown() at the same time: accepted under the hypotheses (the second store finds kDisconnecting), one UP,
   no DOWN yet, the connection half-closed once *)
Example ex_two_foreign_shutdowns : exists s o k, run true (init_sys 0 false)
    [Accept; XBegin 1 0 AShutdown; XBegin 2 0 AShutdown; XStore 1; XStore 2; XEnq 1 true; XEnq 2 true;
     Swap 0; Run 0 true true; Run 0 true true; EndBatch 0] = Ok (s, o) /\
  o = [OUp 0 0] /\ getc s 0 = Some k /\ k_st k = Disconnecting /\ k_fin k = true /\ k_downs k = 0.
Proof. vm_compute. eexists _, _, _. repeat split. Qed.

(* ---- the generated facts the model builds in -------------------------------------------------- *)
Theorem C02_gen_tie :
  server_establish_runInLoop = true /\ server_remove_hop_runInLoop = true /\ server_destroy_queueInLoop = true /\
  server_dtor_runInLoop = true /\ client_remove_queueInLoop = true /\ detail_remove_queueInLoop = true /\
  client_establish_direct = true /\ client_unique_before_copy = true /\ client_dtor_forceClose = true /\
  socket_dtor_closes = true /\ channel_event_locks_tie = true /\ epoll_registers_empty_interest = false /\
  (* the pool's tear-down as C02_Model.step SrvDestroy / EndBatch build it in *)
  loop_drains_after_while = false /\ loop_drain_ends_iteration = true /\ loopthread_dtor_quits_then_joins = true /\
  server_dtor_waits_for_handoffs = false /\ server_owns_pool = true.
Proof.
  exact (conj tie_server_establish_runInLoop (conj tie_server_remove_hop_runInLoop (conj tie_server_destroy_queueInLoop
        (conj tie_server_dtor_runInLoop (conj tie_client_remove_queueInLoop (conj tie_detail_remove_queueInLoop
        (conj tie_client_establish_direct (conj tie_client_unique_before_copy (conj tie_client_dtor_forceClose
        (conj tie_socket_dtor_closes (conj tie_channel_event_locks_tie (conj tie_epoll_registers_empty_interest
        (conj tie_loop_drains_after_while (conj tie_loop_drain_ends_iteration (conj tie_loopthread_dtor_quits_then_joins
        (conj tie_server_dtor_waits_for_handoffs tie_server_owns_pool)))))))))))))))).
Qed.
Print Assumptions C02_gen_tie.

(* ---- non-vacuity: three connections on three loops, a server, a client, a foreign shutdown in
   its micro-steps, a user reference, server and client destruction; every op accepted under
   the hypotheses (~TcpServer = two SrvDestroy steps: one live entry, then the members; no io loop swaps in between, so both
   io loops take their hand-offs with their last drain and leave: s_stop = 3); the end state is quiescent (so C02_no_leak_partial applies to a reached state) ----- *)
Example ex_owners_run : exists s o, run true (init_sys 2 false) ex_sys_ops = Ok (s, o) /\
  o = [OUp 0 2; OUp 1 0; OMsg 1 0; ODown 1 0; ODtor 100 0 true; OUp 2 1; ODown 2 1; ODtor 2 1 true; ODown 0 2; ODtor 0 2 true] /\
  (forall l v, getl s l = Some v -> q_all v = []) /\ s_calls s = [] /\ s_stop s = 3.
Proof. exact ex_sys_run. Qed.

(* non-vacuity of the link: in the run above connection 0 goes UP, gets a message and goes DOWN, and these
   callbacks are the callbacks of a chain of Conn_Model steps ending in a Disconnected view that is no longer registered *)
Example ex_link : exists s o, run true (init_sys 2 false) ex_sys_ops = Ok (s, o) /\ proj 0 o = [LUp; LMsg; LDown] /\
  conn_path vinit [LUp; LMsg; LDown] (viewof s 0) /\ v_st (viewof s 0) = Disconnected /\ v_reg (viewof s 0) = false.
Proof. exact ex_link_run. Qed.
