(* C12_Model: executable model of muduo::net::Connector + the client side of muduo::net::TcpClient
   (and as much of its TcpConnection as TcpClient touches) as a sequential state machine driven
   by an adversarial environment (DESIGN 3.2): loop-thread API calls (atomic), foreign-thread API
   calls cut into their micro-steps (flag stores / snapshot under the client's mutex, then the
   enqueue), kernel answers (errno of ::connect, SO_ERROR, self-connect), poller events, timer
   expiry, the loop's pending-functor queue, the peer closing an established connection.
   Mirrors muduo/net/Connector.cc and muduo/net/TcpClient.cc branch by branch:
   an `assert` that fails / a call through a dangling pointer = Fault, API misuse or an event
   the poller cannot deliver = Rejected.  No proofs in this file. *)
From Coq Require Import List ZArith Bool Arith.
From Muduo Require Import Gen_Consts Gen_C12.
Import ListNotations.
Local Open Scope Z_scope.

Inductive kstate := KDisconnected | KConnecting | KConnected.           (* Connector::States *)
Inductive cstate := CConnecting | CConnected | CDisconnecting | CDisconnected.  (* TcpConnection::StateE *)
(* a socket created by Connector::connect, seen from the connector: Open (connector owns it),
   HandedOver (given to newConnectionCallback_, now owned by a TcpConnection), Closed n
   (::close called n times by the connector), HandedClosed n (closed n times by its connection) *)
Inductive sockst := Open | HandedOver | Closed (n : nat) | HandedClosed (n : nat).
Inductive closecb := CbClient | CbDetached.   (* TcpClient::removeConnection(this) / detail::removeConnection *)
Inductive tkind := TRetry | THack.            (* Connector::retry's timer (strong ref) / ~TcpClient's 1 s timer (strong ref) *)

Record cobj := mkC {
  cst : cstate; csock : nat; creg : bool;     (* state_, fd, channel still in the poller *)
  ccb : closecb; cfin : bool;                 (* closeCallback_, write side shut down *)
  calive : bool; cuser : nat;                 (* object exists; references held by user code *)
  cfresh : bool                               (* registered during the current loop iteration *)
}.

Inductive functor :=
| FStart | FStop | FResetChannel              (* Connector::startInLoop / stopInLoop / resetChannel, raw this *)
| FConnDestroyed (c : nat)                    (* TcpConnection::connectDestroyed, strong ref *)
| FForceClose (c : nat)                       (* TcpConnection::forceCloseInLoop, strong ref *)
| FSetCloseCb (c : nat)                       (* TcpConnection::setCloseCallback(detail::removeConnection), strong ref *)
| FShutdown (c : nat)                         (* TcpConnection::shutdownInLoop, raw this *)
| FAddHack (due : Z).                         (* TimerQueue::addTimerInLoop of the HACK timer (foreign ~TcpClient) *)

Inductive event :=
| EvAttempt (s : nat) (e : Z)   (* ::connect on socket s answered errno e *)
| EvArm (d : Z)                 (* retry timer armed d ms ahead *)
| EvClose (s : nat)             (* ::close(s) by the connector *)
| EvHandOver (s : nat)          (* newConnectionCallback_(s) *)
| EvUp (c : nat) | EvDown (c : nat)
| EvFin (c : nat)               (* ::shutdown(fd, SHUT_WR) of connection c *)
| EvConnClose (s : nat)         (* ~TcpConnection closes its descriptor *)
| EvHack (d : Z)                (* ~TcpClient's keep-alive timer entered the timer queue, d ms ahead *)
(* ghost markers of the API calls (not printed by the runners; the trace theorems speak about them) *)
| EvWant                        (* Connector::connect_ := true  (Connector::start / restart) *)
| EvStopReq                     (* Connector::connect_ := false (Connector::stop) *)
| EvCycle (d : Z).              (* a new connect cycle begins (startInLoop called by start() or by restart()); d = retryDelayMs_ then *)

Record st := mkSt {
  alive : bool;
  c_retry : bool;
  c_connect : bool;
  connection : option nat;
  dsnap : option (option nat * bool);
  xc : bool;
  xs : bool;
  xd : bool;
  k_dead : bool;
  k_connect : bool;
  k_state : kstate;
  k_chan : option (nat * bool);
  k_delay : Z;
  now : Z;
  timers : list (Z * tkind);
  pending : list functor;
  kq : list Z;
  socks : list sockst;
  conns : list cobj
}.

Definition set_alive (s : st) (v : bool) : st :=
  mkSt v (c_retry s) (c_connect s) (connection s) (dsnap s) (xc s) (xs s) (xd s) (k_dead s) (k_connect s) (k_state s) (k_chan s) (k_delay s) (now s) (timers s) (pending s) (kq s) (socks s) (conns s).
Definition set_c_retry (s : st) (v : bool) : st :=
  mkSt (alive s) v (c_connect s) (connection s) (dsnap s) (xc s) (xs s) (xd s) (k_dead s) (k_connect s) (k_state s) (k_chan s) (k_delay s) (now s) (timers s) (pending s) (kq s) (socks s) (conns s).
Definition set_c_connect (s : st) (v : bool) : st :=
  mkSt (alive s) (c_retry s) v (connection s) (dsnap s) (xc s) (xs s) (xd s) (k_dead s) (k_connect s) (k_state s) (k_chan s) (k_delay s) (now s) (timers s) (pending s) (kq s) (socks s) (conns s).
Definition set_connection (s : st) (v : option nat) : st :=
  mkSt (alive s) (c_retry s) (c_connect s) v (dsnap s) (xc s) (xs s) (xd s) (k_dead s) (k_connect s) (k_state s) (k_chan s) (k_delay s) (now s) (timers s) (pending s) (kq s) (socks s) (conns s).
Definition set_dsnap (s : st) (v : option (option nat * bool)) : st :=
  mkSt (alive s) (c_retry s) (c_connect s) (connection s) v (xc s) (xs s) (xd s) (k_dead s) (k_connect s) (k_state s) (k_chan s) (k_delay s) (now s) (timers s) (pending s) (kq s) (socks s) (conns s).
Definition set_xc (s : st) (v : bool) : st :=
  mkSt (alive s) (c_retry s) (c_connect s) (connection s) (dsnap s) v (xs s) (xd s) (k_dead s) (k_connect s) (k_state s) (k_chan s) (k_delay s) (now s) (timers s) (pending s) (kq s) (socks s) (conns s).
Definition set_xs (s : st) (v : bool) : st :=
  mkSt (alive s) (c_retry s) (c_connect s) (connection s) (dsnap s) (xc s) v (xd s) (k_dead s) (k_connect s) (k_state s) (k_chan s) (k_delay s) (now s) (timers s) (pending s) (kq s) (socks s) (conns s).
Definition set_xd (s : st) (v : bool) : st :=
  mkSt (alive s) (c_retry s) (c_connect s) (connection s) (dsnap s) (xc s) (xs s) v (k_dead s) (k_connect s) (k_state s) (k_chan s) (k_delay s) (now s) (timers s) (pending s) (kq s) (socks s) (conns s).
Definition set_k_dead (s : st) (v : bool) : st :=
  mkSt (alive s) (c_retry s) (c_connect s) (connection s) (dsnap s) (xc s) (xs s) (xd s) v (k_connect s) (k_state s) (k_chan s) (k_delay s) (now s) (timers s) (pending s) (kq s) (socks s) (conns s).
Definition set_k_connect (s : st) (v : bool) : st :=
  mkSt (alive s) (c_retry s) (c_connect s) (connection s) (dsnap s) (xc s) (xs s) (xd s) (k_dead s) v (k_state s) (k_chan s) (k_delay s) (now s) (timers s) (pending s) (kq s) (socks s) (conns s).
Definition set_k_state (s : st) (v : kstate) : st :=
  mkSt (alive s) (c_retry s) (c_connect s) (connection s) (dsnap s) (xc s) (xs s) (xd s) (k_dead s) (k_connect s) v (k_chan s) (k_delay s) (now s) (timers s) (pending s) (kq s) (socks s) (conns s).
Definition set_k_chan (s : st) (v : option (nat * bool)) : st :=
  mkSt (alive s) (c_retry s) (c_connect s) (connection s) (dsnap s) (xc s) (xs s) (xd s) (k_dead s) (k_connect s) (k_state s) v (k_delay s) (now s) (timers s) (pending s) (kq s) (socks s) (conns s).
Definition set_k_delay (s : st) (v : Z) : st :=
  mkSt (alive s) (c_retry s) (c_connect s) (connection s) (dsnap s) (xc s) (xs s) (xd s) (k_dead s) (k_connect s) (k_state s) (k_chan s) v (now s) (timers s) (pending s) (kq s) (socks s) (conns s).
Definition set_now (s : st) (v : Z) : st :=
  mkSt (alive s) (c_retry s) (c_connect s) (connection s) (dsnap s) (xc s) (xs s) (xd s) (k_dead s) (k_connect s) (k_state s) (k_chan s) (k_delay s) v (timers s) (pending s) (kq s) (socks s) (conns s).
Definition set_timers (s : st) (v : list (Z * tkind)) : st :=
  mkSt (alive s) (c_retry s) (c_connect s) (connection s) (dsnap s) (xc s) (xs s) (xd s) (k_dead s) (k_connect s) (k_state s) (k_chan s) (k_delay s) (now s) v (pending s) (kq s) (socks s) (conns s).
Definition set_pending (s : st) (v : list functor) : st :=
  mkSt (alive s) (c_retry s) (c_connect s) (connection s) (dsnap s) (xc s) (xs s) (xd s) (k_dead s) (k_connect s) (k_state s) (k_chan s) (k_delay s) (now s) (timers s) v (kq s) (socks s) (conns s).
Definition set_kq (s : st) (v : list Z) : st :=
  mkSt (alive s) (c_retry s) (c_connect s) (connection s) (dsnap s) (xc s) (xs s) (xd s) (k_dead s) (k_connect s) (k_state s) (k_chan s) (k_delay s) (now s) (timers s) (pending s) v (socks s) (conns s).
Definition set_socks (s : st) (v : list sockst) : st :=
  mkSt (alive s) (c_retry s) (c_connect s) (connection s) (dsnap s) (xc s) (xs s) (xd s) (k_dead s) (k_connect s) (k_state s) (k_chan s) (k_delay s) (now s) (timers s) (pending s) (kq s) v (conns s).
Definition set_conns (s : st) (v : list cobj) : st :=
  mkSt (alive s) (c_retry s) (c_connect s) (connection s) (dsnap s) (xc s) (xs s) (xd s) (k_dead s) (k_connect s) (k_state s) (k_chan s) (k_delay s) (now s) (timers s) (pending s) (kq s) (socks s) v.

Definition init : st :=
  mkSt true false true None None false false false
       false false KDisconnected None Connector_kInitRetryDelayMs
       0 [] [] [] [] [].

(* ---------------------------------------------------------------- small helpers *)
Definition M := option (st * list event).          (* None = Fault *)
Definition ret (s : st) : M := Some (s, []).
Definition bind (m : M) (f : st -> M) : M :=
  match m with
  | None => None
  | Some (s, e) => match f s with None => None | Some (s', e') => Some (s', e ++ e') end
  end.

Fixpoint upd {A} (l : list A) (i : nat) (f : A -> A) : list A :=
  match l, i with
  | [], _ => []
  | x :: r, O => f x :: r
  | x :: r, S j => x :: upd r j f
  end.

Definition kstate_eqb (a b : kstate) : bool :=
  match a, b with KDisconnected, KDisconnected | KConnecting, KConnecting | KConnected, KConnected => true | _, _ => false end.
Definition c_live (x : cstate) : bool := match x with CConnected | CDisconnecting => true | _ => false end.

Definition close_state (x : sockst) : sockst :=
  match x with Open => Closed 1 | Closed n => Closed (S n) | HandedOver => Closed 2 | HandedClosed n => HandedClosed (S n) end.
Definition conn_close_state (x : sockst) : sockst :=
  match x with HandedOver => HandedClosed 1 | HandedClosed n => HandedClosed (S n) | Open => Closed 2 | Closed n => Closed (S n) end.
Definition hand_state (x : sockst) : sockst :=
  match x with Open => HandedOver | y => y end.

Definition classify (e : Z) : Connector_action :=
  match find (fun p => fst p =? e) Connector_connect_cases with
  | Some (_, a) => a
  | None => Connector_connect_default
  end.

Definition setc (s : st) (c : nat) (f : cobj -> cobj) : st := set_conns s (upd (conns s) c f).
Definition c_set_st (x : cstate) (o : cobj) := mkC x (csock o) (creg o) (ccb o) (cfin o) (calive o) (cuser o) (cfresh o).
Definition c_set_reg (b : bool) (o : cobj) := mkC (cst o) (csock o) b (ccb o) (cfin o) (calive o) (cuser o) (cfresh o).
Definition c_set_cb (b : closecb) (o : cobj) := mkC (cst o) (csock o) (creg o) b (cfin o) (calive o) (cuser o) (cfresh o).
Definition c_set_fin (b : bool) (o : cobj) := mkC (cst o) (csock o) (creg o) (ccb o) b (calive o) (cuser o) (cfresh o).
Definition c_set_alive (b : bool) (o : cobj) := mkC (cst o) (csock o) (creg o) (ccb o) (cfin o) b (cuser o) (cfresh o).
Definition c_set_user (n : nat) (o : cobj) := mkC (cst o) (csock o) (creg o) (ccb o) (cfin o) (calive o) n (cfresh o).
Definition c_set_fresh (b : bool) (o : cobj) := mkC (cst o) (csock o) (creg o) (ccb o) (cfin o) (calive o) (cuser o) b.

Definition enq (s : st) (f : functor) : st := set_pending s (pending s ++ [f]).

(* ---------------------------------------------------------------- Connector.cc *)
Definition do_close (s : st) (i : nat) : M :=            (* sockets::close(sockfd) *)
  Some (set_socks s (upd (socks s) i close_state), [EvClose i]).

(* Connector::retry, Connector.cc:209-226 *)
Definition retry (s : st) (i : nat) : M :=
  bind (do_close s i) (fun s =>
  let s := set_k_state s KDisconnected in
  if k_connect s then
    let d := if Connector_retry_arms_before_update then k_delay s else Connector_retry_next (k_delay s) in
    Some (set_k_delay (set_timers s (timers s ++ [(now s + d, TRetry)])) (Connector_retry_next (k_delay s)),
          [EvArm d])
  else ret s).

(* Connector::connecting, Connector.cc:128-141 *)
Definition connecting (s : st) (i : nat) : M :=
  let s := set_k_state s KConnecting in
  match k_chan s with
  | Some _ => None                                   (* assert(!channel_) *)
  | None => ret (set_k_chan s (Some (i, true)))
  end.

(* Connector::connect, Connector.cc:78-117: the errno is the head of the kernel script *)
Definition connect_ (s : st) : M :=
  let i := length (socks s) in
  let s := set_socks s (socks s ++ [Open]) in
  let '(e, s) := match kq s with [] => (EINPROGRESS, s) | e :: r => (e, set_kq s r) end in
  bind (Some (s, [EvAttempt i e])) (fun s =>
  match classify e with
  | ActConnecting => connecting s i
  | ActRetry => retry s i
  | ActClose => do_close s i
  | ActLeak => ret s
  end).

(* Connector::startInLoop, Connector.cc:46-58 *)
Definition startInLoop (s : st) : M :=
  if negb (kstate_eqb (k_state s) KDisconnected) then None      (* assert(state_ == kDisconnected) *)
  else if k_connect s then connect_ s else ret s.

(* Connector::removeAndResetChannel, Connector.cc:143-151 *)
Definition removeAndResetChannel (s : st) : option (st * nat) :=
  match k_chan s with
  | Some (i, true) => Some (enq (set_k_chan s (Some (i, false))) FResetChannel, i)
  | _ => None                                        (* null channel_ / channel not in the poller *)
  end.

(* Connector::restart, Connector.cc:119-126 *)
Definition restart (s : st) : M :=
  let s := set_k_connect (set_k_delay (set_k_state s KDisconnected) Connector_kInitRetryDelayMs) true in
  bind (Some (s, [EvWant; EvCycle (k_delay s)])) startInLoop.

(* ---------------------------------------------------------------- TcpClient.cc *)
(* TcpClient::newConnection, TcpClient.cc:132-160 (incl. TcpConnection::connectEstablished) *)
Definition newConnection (s : st) (i : nat) : M :=
  if negb (alive s) then None                        (* callback bound to the raw, freed client *)
  else
    let c := length (conns s) in
    let s := set_socks s (upd (socks s) i hand_state) in
    let s := set_conns s (conns s ++ [mkC CConnected i true CbClient false true 0%nat true]) in
    Some (set_connection s (Some c), [EvHandOver i; EvUp c]).

(* TcpClient::removeConnection, TcpClient.cc:162-181 *)
Definition removeConnection (s : st) (c : nat) : M :=
  if negb (alive s) then None else
  match connection s with
  | Some c' =>
      if negb (c' =? c)%nat then None else           (* assert(connection_ == conn) *)
      let s := enq (set_connection s None) (FConnDestroyed c) in
      if c_retry s && c_connect s then restart s else ret s
  | None => None
  end.

(* TcpConnection::handleClose *)
Definition handleClose (s : st) (c : nat) : M :=
  match nth_error (conns s) c with
  | None => None
  | Some o =>
      let s := setc s c (c_set_st CDisconnected) in
      bind (Some (s, [EvDown c])) (fun s =>
      match ccb o with
      | CbClient => removeConnection s c
      | CbDetached => ret (enq s (FConnDestroyed c))
      end)
  end.

(* Connector::handleWrite, Connector.cc:158-194 *)
Definition handleWrite (s : st) (err : Z) (selfc : bool) : M :=
  if kstate_eqb (k_state s) KConnecting then
    match removeAndResetChannel s with
    | None => None
    | Some (s, i) =>
        if negb (err =? 0) then retry s i
        else if selfc then retry s i
        else
          let s := set_k_state s KConnected in
          if k_connect s then newConnection s i else do_close s i
    end
  else if kstate_eqb (k_state s) KDisconnected then ret s else None.   (* assert(state_ == kDisconnected) *)

(* Connector::handleError, Connector.cc:196-207 *)
Definition handleError (s : st) : M :=
  if kstate_eqb (k_state s) KConnecting then
    match removeAndResetChannel s with
    | None => None
    | Some (s, i) => retry s i
    end
  else ret s.

(* Connector::stopInLoop, Connector.cc:67-76 *)
Definition stopInLoop (s : st) : M :=
  if kstate_eqb (k_state s) KConnecting then
    match removeAndResetChannel (set_k_state s KDisconnected) with
    | None => None
    | Some (s, i) => retry s i
    end
  else ret s.

(* TcpConnection::shutdown() as called by TcpClient::disconnect; inline = on the loop thread *)
Definition conn_shutdown (s : st) (c : nat) (inline : bool) : M :=
  match nth_error (conns s) c with
  | None => None
  | Some o =>
      match cst o with
      | CConnected =>
          let s := setc s c (c_set_st CDisconnecting) in
          if inline then Some (setc s c (c_set_fin true), [EvFin c]) else ret (enq s (FShutdown c))
      | _ => ret s
      end
  end.

(* TcpConnection::forceClose() *)
Definition conn_forceClose (s : st) (c : nat) : st :=
  match nth_error (conns s) c with
  | Some o => if c_live (cst o) then enq (setc s c (c_set_st CDisconnecting)) (FForceClose c) else s
  | None => s
  end.

(* ---------------------------------------------------------------- reference counts, destruction *)
Definition holds (c : nat) (f : functor) : bool :=
  match f with FConnDestroyed d | FForceClose d | FSetCloseCb d => (d =? c)%nat | _ => false end.
Definition refs (s : st) (c : nat) : nat :=
  ((match connection s with Some d => if (d =? c)%nat then 1 else 0 | None => 0 end)
   + (match nth_error (conns s) c with Some o => cuser o | None => 0 end)
   + length (filter (holds c) (pending s))
   + (match dsnap s with Some (Some d, _) => if (d =? c)%nat then 1 else 0 | _ => 0 end))%nat.

(* ~TcpConnection of every object whose last reference is gone: assert(state_ == kDisconnected),
   ~Channel asserts !addedToLoop_, ~Socket closes the descriptor *)
Fixpoint gc_from (n : nat) (c : nat) (s : st) : M :=
  match n with
  | O => ret s
  | S n' =>
      match nth_error (conns s) c with
      | None => ret s
      | Some o =>
          if calive o && (refs s c =? 0)%nat then
            match cst o with
            | CDisconnected =>
                if creg o then None else
                let s := setc s c (c_set_alive false) in
                bind (Some (set_socks s (upd (socks s) (csock o) conn_close_state), [EvConnClose (csock o)]))
                     (gc_from n' (S c))
            | _ => None
            end
          else gc_from n' (S c) s
      end
  end.
Definition gc (s : st) : M := gc_from (length (conns s)) 0%nat s.

Definition is_addhack (f : functor) : bool := match f with FAddHack _ => true | _ => false end.
(* ~Connector once neither the client nor a timer holds it: assert(!channel_) *)
Definition settle (s : st) : M :=
  if negb (alive s) && negb (k_dead s) && (length (timers s) =? 0)%nat && negb (existsb is_addhack (pending s)) then
    match k_chan s with Some _ => None | None => ret (set_k_dead s true) end
  else ret s.

Definition finish (m : M) : M := bind (bind m gc) settle.

(* ---------------------------------------------------------------- the functor queue *)
Definition run_functor (s : st) (f : functor) : M :=
  match f with
  | FStart => if k_dead s then None else bind (Some (s, [EvCycle (k_delay s)])) startInLoop
  | FStop => if k_dead s then None else stopInLoop s
  | FResetChannel => if k_dead s then None else ret (set_k_chan s None)
  | FConnDestroyed c =>
      match nth_error (conns s) c with
      | None => None
      | Some o =>
          if c_live (cst o)
          then Some (setc s c (fun o => c_set_reg false (c_set_st CDisconnected o)), [EvDown c])
          else ret (setc s c (c_set_reg false))
      end
  | FForceClose c =>
      match nth_error (conns s) c with
      | None => None
      | Some o => if c_live (cst o) then handleClose s c else ret s
      end
  | FSetCloseCb c => ret (setc s c (c_set_cb CbDetached))
  | FShutdown c =>
      match nth_error (conns s) c with
      | None => None
      | Some o => if calive o then Some (setc s c (c_set_fin true), [EvFin c]) else None   (* raw this *)
      end
  | FAddHack due => Some (set_timers s (timers s ++ [(due, THack)]), [EvHack (due - now s)])
  end.

Definition run_one (s : st) : M :=
  match pending s with
  | [] => ret s
  | f :: r => finish (run_functor (set_pending s r) f)
  end.

Fixpoint run_n (n : nat) (s : st) : M :=
  match n with O => ret s | S n' => bind (run_one s) (run_n n') end.

(* ---------------------------------------------------------------- timers *)
Fixpoint min_due (l : list (Z * tkind)) : option Z :=
  match l with
  | [] => None
  | (d, _) :: r => match min_due r with None => Some d | Some m => Some (Z.min d m) end
  end.
Fixpoint insert_due (x : Z * tkind) (l : list (Z * tkind)) : list (Z * tkind) :=
  match l with
  | [] => [x]
  | y :: r => if fst x <? fst y then x :: l else y :: insert_due x r
  end.
Definition sort_due (l : list (Z * tkind)) : list (Z * tkind) := fold_right insert_due [] l.
Definition fire (s : st) (t : Z * tkind) : M :=
  match snd t with
  | TRetry => startInLoop s          (* the timer's bound shared_ptr keeps the connector alive *)
  | THack => ret s                   (* detail::removeConnector: empty *)
  end.
Fixpoint fire_all (l : list (Z * tkind)) (s : st) : M :=
  match l with [] => ret s | t :: r => bind (fire s t) (fire_all r) end.

(* ---------------------------------------------------------------- ops *)
Inductive op :=
| Connect | Disconnect | Stop | EnableRetry | Destroy            (* on the loop thread *)
| XConnectFlags | XConnectEnq                                     (* foreign connect(): stores, then enqueue *)
| XStopFlags | XStopEnq                                           (* foreign stop() *)
| XDisconnectFlag | XDisconnectRest                               (* foreign disconnect(): store; lock + shutdown() *)
| XDestroyRead | XDestroyRest                                     (* foreign ~TcpClient: snapshot under mutex_; the rest *)
| XDestroyInWrite                                                 (* POLLOUT, SO_ERROR 0: Connector::handleWrite has read connect_ == true and is inside
                                                                     TcpClient::newConnection, about to take mutex_, when a foreign thread runs ~TcpClient to its end *)
| ConnectResult (e : Z)                                           (* script the answer of the next ::connect *)
| EvWritable (err : Z) (selfc : bool)                             (* POLLOUT on the connector's channel; SO_ERROR; self-connect *)
| EvError                                                         (* POLLERR on the connector's channel *)
| TimerFire                                                       (* advance the clock to the earliest deadline; TimerQueue::handleRead *)
| RunPending | RunOne                                             (* one doPendingFunctors batch (ends the iteration) / one functor *)
| Down                                                            (* the peer closes the established connection (read returns 0) *)
| UserHold | UserRelease                                          (* user code copies / drops a TcpConnectionPtr *)
| LoopEnd.                                                        (* the loop has stopped for good and the EventLoop is destroyed (scope exit after
                                                                     loop() returned / quit()), after the TcpClient: EventLoop::~EventLoop *)

Inductive res := Ok (s : st) (ev : list event) | Rejected | Fault.

Definition user_api_ok (s : st) : bool :=
  alive s && negb (match dsnap s with Some _ => true | None => false end).

Definition is_some {A} (o : option A) : bool := match o with Some _ => true | None => false end.

(* latest connection the poller can report end-of-stream for *)
Fixpoint find_down (l : list cobj) (i : nat) (acc : option nat) : option nat :=
  match l with
  | [] => acc
  | o :: r => find_down r (S i) (if calive o && creg o && c_live (cst o) && negb (cfresh o) then Some i else acc)
  end.
Fixpoint find_user (l : list cobj) (i : nat) : option nat :=
  match l with
  | [] => None
  | o :: r => if (0 <? cuser o)%nat then Some i else find_user r (S i)
  end.

(* TcpClient::~TcpClient, TcpClient.cc:73-104, from the snapshot (conn, unique) *)
Definition destroy_rest (s : st) (snap : option nat * bool) (on_loop : bool) : M :=
  let '(conn, unique) := snap in
  let '(s, ev) :=
    match conn with
    | Some c =>
        let s := if on_loop then setc s c (c_set_cb CbDetached) else enq s (FSetCloseCb c) in
        (if unique then conn_forceClose s c else s, [])
    | None =>
        let s := enq (set_k_connect s false) FStop in               (* connector_->stop() *)
        if on_loop then (set_timers s (timers s ++ [(now s + 1000, THack)]), [EvStopReq; EvHack 1000])
        else (enq s (FAddHack (now s + 1000)), [EvStopReq])
    end in
  Some (set_dsnap (set_alive (set_connection s None) false) None, ev).

(* EventLoop::~EventLoop once the loop has stopped for good (EventLoop.cc:93-101 and the member destructors in reverse
   order of declaration, EventLoop.h:140-161): pendingFunctors_ is destroyed UNRUN (loop() has no drain after
   `while (!quit_)`), then timerQueue_: TimerQueue::~TimerQueue (TimerQueue.cc:104-114) deletes every Timer without running
   it.  What the functors and timer callbacks had bound dies with them:
   - the TcpConnectionPtr of connectDestroyed / forceCloseInLoop / setCloseCallback: where it was the last reference
     ~TcpConnection runs: assert(state_ == kDisconnected), ~Channel assert(!addedToLoop_), ~Socket closes (= `gc`, run by `finish`);
   - the ConnectorPtr of the retry timer / of ~TcpClient's 1 s timer: the client is gone (guard of the op), so this is the last
     owner: Connector::~Connector, assert(!channel_) (the check below; `settle`, run by `finish`, then marks it dead).
       (on reachable states a dead Connector has no channel, Kinv.k_kdead, so the check does not depend on k_dead)
   - functors bound to a raw pointer (startInLoop / stopInLoop / resetChannel, shutdownInLoop) just vanish. *)
Definition loop_end (s : st) : M :=
  let s := set_timers (set_pending s []) [] in
  match k_chan s with
  | Some _ => None                                   (* ~Connector: assert(!channel_) *)
  | None => ret s
  end.

Definition step_core (s : st) (o : op) : option M :=      (* outer None = Rejected *)
  match o with
  | Connect =>
      if negb (user_api_ok s) then None else
      Some (bind (Some (set_k_connect (set_c_connect s true) true, [EvWant; EvCycle (k_delay s)])) startInLoop)
  | XConnectFlags =>
      if negb (user_api_ok s) || xc s then None else
      Some (Some (set_xc (set_k_connect (set_c_connect s true) true) true, [EvWant]))
  | XConnectEnq =>
      if negb (user_api_ok s) || negb (xc s) then None else Some (ret (enq (set_xc s false) FStart))
  | Stop =>
      if negb (user_api_ok s) then None else
      Some (Some (enq (set_k_connect (set_c_connect s false) false) FStop, [EvStopReq]))
  | XStopFlags =>
      if negb (user_api_ok s) || xs s then None else
      Some (Some (set_xs (set_k_connect (set_c_connect s false) false) true, [EvStopReq]))
  | XStopEnq =>
      if negb (user_api_ok s) || negb (xs s) then None else Some (ret (enq (set_xs s false) FStop))
  | Disconnect =>
      if negb (user_api_ok s) then None else
      let s := set_c_connect s false in
      Some (match connection s with Some c => conn_shutdown s c true | None => ret s end)
  | XDisconnectFlag =>
      if negb (user_api_ok s) || xd s then None else Some (ret (set_xd (set_c_connect s false) true))
  | XDisconnectRest =>
      if negb (user_api_ok s) || negb (xd s) then None else
      let s := set_xd s false in
      Some (match connection s with Some c => conn_shutdown s c false | None => ret s end)
  | EnableRetry =>
      if negb (user_api_ok s) then None else Some (ret (set_c_retry s true))
  | Destroy =>
      if negb (user_api_ok s) || xc s || xs s || xd s then None else
      let snap := (connection s, match connection s with Some c => (refs s c =? 1)%nat | None => false end) in
      Some (destroy_rest s snap true)
  | XDestroyRead =>
      if negb (user_api_ok s) || xc s || xs s || xd s then None else
      (* the stall point is the first enqueue: in the no-connection path Connector::stop() has already stored connect_ = false *)
      let s' := match connection s with None => set_k_connect s false | Some _ => s end in
      Some (Some (set_dsnap s' (Some (connection s, match connection s with Some c => (refs s c =? 1)%nat | None => false end)),
                  match connection s with None => [EvStopReq] | Some _ => [] end))
  | XDestroyRest =>
      match dsnap s with
      | Some snap => Some (destroy_rest (set_dsnap s None) snap false)
      | None => None
      end
  | XDestroyInWrite =>
      if negb (user_api_ok s) || xc s || xs s || xd s then None else
      match k_chan s with
      | Some (_, true) =>
          if k_dead s || negb (kstate_eqb (k_state s) KConnecting) || negb (k_connect s) then None
          else Some None            (* newConnection continues on the freed TcpClient (FIXME: unsafe) *)
      | _ => None
      end
  | ConnectResult e => Some (ret (set_kq s (kq s ++ [e])))
  | EvWritable err selfc =>
      match k_chan s with
      | Some (_, true) => if k_dead s then None else Some (handleWrite s err selfc)
      | _ => None
      end
  | EvError =>
      match k_chan s with
      | Some (_, true) => if k_dead s then None else Some (handleError s)
      | _ => None
      end
  | TimerFire =>
      match min_due (timers s) with
      | None => None
      | Some t0 =>
          let now' := Z.max (now s) t0 in
          (* equal deadlines are run in the order of the Timer objects' addresses: the callbacks are startInLoop (all alike)
             and the empty removeConnector, so every order gives the same result; sort_due fixes one *)
          let expired := sort_due (filter (fun t => fst t <=? now') (timers s)) in
          let s := set_now (set_timers s (filter (fun t => now' <? fst t) (timers s))) now' in
          Some (fire_all expired s)
      end
  | RunPending =>
      Some (bind (run_n (length (pending s)) s) (fun s => ret (set_conns s (map (c_set_fresh false) (conns s)))))
  | RunOne => match pending s with [] => None | _ => Some (run_one s) end
  | Down =>
      match find_down (conns s) 0%nat None with
      | Some c => Some (handleClose s c)
      | None => None
      end
  | UserHold =>
      if negb (user_api_ok s) then None else
      match connection s, find_user (conns s) 0%nat with
      | Some c, None => Some (ret (setc s c (c_set_user 1%nat)))
      | _, _ => None
      end
  | UserRelease =>
      (* dropping the LAST reference of a connection that is still up destroys a kConnected TcpConnection: gc faults
         (assert in ~TcpConnection); the theorems exclude it by `release_ok` *)
      match find_user (conns s) 0%nat with
      | Some c =>
          match nth_error (conns s) c with
          | Some o => Some (ret (setc s c (c_set_user 0%nat)))
          | None => None
          end
      | None => None
      end
  | LoopEnd =>
      (* Rejected (API preconditions of EventLoop, see docs/C12.md): the EventLoop must outlive the TcpClient; user code must
         not keep a TcpConnectionPtr beyond its loop; the addTimerInLoop hand-off of a foreign ~TcpClient's runAfter is not
         in flight (it would leak the Timer and with it the Connector: no crash; foreign destruction is F-13 anyway) *)
      if alive s || is_some (find_user (conns s) 0%nat) || existsb is_addhack (pending s) then None
      else Some (loop_end s)
  end.

(* every op takes one millisecond of virtual time *)
Definition step (s : st) (o : op) : res :=
  match step_core s o with
  | None => Rejected
  | Some m =>
      match finish m with
      | None => Fault
      | Some (s', ev) => Ok (set_now s' (now s' + 1)) ev
      end
  end.

(* a history: rejected ops are skipped (they did not happen), a Fault ends it *)
Fixpoint run (s : st) (l : list op) : option (st * list event) :=
  match l with
  | [] => Some (s, [])
  | o :: r =>
      match step s o with
      | Ok s' ev => match run s' r with Some (s'', ev') => Some (s'', ev ++ ev') | None => None end
      | Rejected => run s r
      | Fault => None
      end
  end.

(* ---------------------------------------------------------------- the hypotheses of the theorems, as
   computable predicates on (state, next op); the generators of the check use the same functions.
   quiet: nothing of a connect cycle is left in the connector. *)
Definition is_retry_timer (t : Z * tkind) : bool := match snd t with TRetry => true | THack => false end.
Definition is_FStart (f : functor) : bool := match f with FStart => true | _ => false end.
Definition is_FStop (f : functor) : bool := match f with FStop => true | _ => false end.
Definition is_FReset (f : functor) : bool := match f with FResetChannel => true | _ => false end.
Definition is_kfunctor (f : functor) : bool := is_FStart f || is_FStop f || is_FReset f.   (* bound to the raw Connector* *)

Definition quiet (s : st) : bool :=
  kstate_eqb (k_state s) KDisconnected && negb (is_some (k_chan s)) && negb (existsb is_retry_timer (timers s))
  && negb (is_some (connection s)).
(* Idle (DESIGN C12): what `connect() only while no attempt or connection is in progress` has to mean for
   the code as it is: state kDisconnected, no channel, no connection, no other connect() in flight,
   no retry timer of an earlier cycle pending and the back-off delay at its initial value *)
Definition idle (s : st) : bool :=
  quiet s && negb (xc s) && negb (existsb is_FStart (pending s)) && (k_delay s =? Connector_kInitRetryDelayMs).
(* the precondition as the property text states it: no attempt (a connect cycle the user still wants)
   and no connection in progress *)
Definition text_idle (s : st) : bool :=
  negb (kstate_eqb (k_state s) KConnecting) && negb (is_some (connection s)) && negb (xc s)
  && negb (existsb is_FStart (pending s)) && negb (k_connect s && existsb is_retry_timer (timers s)).
(* environment contract of TimerFire: the loop is not stalled so long that a timer expires while a functor
   that has to run first is still queued: resetChannel always; once the client is gone, startInLoop /
   stopInLoop must not be outlived by the last timer that keeps the Connector alive *)
Definition timely (s : st) : bool :=
  negb (existsb is_FReset (pending s)) &&
  (alive s || negb (existsb is_kfunctor (pending s)) ||
   match min_due (timers s) with
   | None => true
   | Some t0 => existsb (fun t => Z.max (now s) t0 <? fst t) (timers s)
   end).
(* ~TcpClient with a connection releases the Connector at once: none of its raw-this functors may be queued *)
Definition destroy_ok (s : st) : bool :=
  negb (is_some (connection s)) || negb (existsb is_kfunctor (pending s)).

(* the user does not drop the last reference of a connection that is still up (possible only after ~TcpClient left the
   connection to a user reference): TcpConnection objects must go through connectDestroyed *)
Definition release_ok (s : st) : bool :=
  match find_user (conns s) 0%nat with
  | Some c =>
      match nth_error (conns s) c with
      | Some o => negb ((refs s c =? 1)%nat && negb (match cst o with CDisconnected => negb (creg o) | _ => false end))
      | None => true
      end
  | None => true
  end.

(* the loop outlives the cleanup: when the EventLoop is destroyed it owes the client nothing any more: the connector's
   channel has been reset (resetChannel / stopInLoop have run) and every connection object is destroyed or has been through
   connectDestroyed (forceCloseInLoop / connectDestroyed have run).  It holds in particular once the functor queue and the
   timer queue have drained (`drained`, theorem drained_outlives), and for a client destroyed while it was idle.
   NOTE (REVIEW_F F-5): on reachable states on which LoopEnd is not Rejected this is exactly "LoopEnd does not fault"
   (C12_LoopEnd.loop_outlives_exact): the clause is the negation of the fault condition, the crash-freedom theorems are trivial
   for this op; what is proved ABOUT it is drained_outlives, loop_end_no_leak, destroy_then_loop_end_safe. *)
Definition conn_done (o : cobj) : bool :=
  negb (calive o) || match cst o with CDisconnected => negb (creg o) | _ => false end.
Definition loop_outlives_cleanup (s : st) : bool :=
  negb (is_some (k_chan s)) && forallb conn_done (conns s).
Definition drained (s : st) : bool :=
  match pending s, timers s with [], [] => true | _, _ => false end.

Definition contract (s : st) (o : op) : bool :=
  match o with
  | Connect | XConnectFlags => idle s
  | TimerFire => timely s
  | Destroy => destroy_ok s
  | XDestroyRead | XDestroyRest | XDestroyInWrite => false        (* the theorems are about destruction on the loop thread *)
  | UserRelease => release_ok s
  | LoopEnd => loop_outlives_cleanup s
  | _ => true
  end.
(* `contract` without the hypothesis about the loop's life time (what the theorems assumed before REVIEW_E E-2) *)
Definition contract_any_loop_end (s : st) (o : op) : bool :=
  match o with LoopEnd => true | _ => contract s o end.
(* what the property text allows (used by the generator; the difference to `contract` are the findings) *)
Definition text_contract (s : st) (o : op) : bool :=
  match o with
  | Connect | XConnectFlags => text_idle s
  | TimerFire => timely s
  | _ => true
  end.
