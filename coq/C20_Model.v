(* C20_Model: executable model of muduo's calendar, UTC break-down, time-zone lookup,
   timestamp text and address text.  No proofs here (the model must run even when a
   proof breaks).

   * the Julian-day functions, weekDay, fillHMS, BreakTime, fromUtcTime and their
     constants are NOT written here: they are Gen_C20.*, regenerated from the C++ on
     every run by lib/gen_C20.py;
   * the independent specifications the theorems compare against (proleptic Gregorian
     day count by leap rule + month lengths + summation, POSIX seconds-since-epoch
     formula) are defined here;
   * Data::findLocalTime (both overloads), toLocalTime / fromLocalTime follow
     muduo/base/TimeZone.cc:318-491 branch by branch; std::upper_bound is modelled as the
     libstdc++ binary search (not as a linear scan), so the theorem that it finds the
     last transition <= t needs sortedness as a hypothesis, exactly like the C++;
   * printf is a platform function: the integer formatting that muduo's format strings
     request is modelled; its agreement with glibc is validated by the correspondence
     check.  Addresses and byte order: C20_NetModel.v; the TZif reader: C20_TzifModel.v. *)
From Coq Require Import List ZArith Bool Arith NArith.
From Coq.Strings Require Import Byte.
From Muduo Require Import Base_Bytes Gen_C20.
From Muduo Require Export C20_Calendar.
Import ListNotations.
Local Open Scope Z_scope.

(* ------------------------------------------------------------------ DateTime *)

Record DateTime := mkDT { year : Z; month : Z; day : Z; hour : Z; minute : Z; second : Z }.

Definition break_utc (t : Z) : DateTime :=
  let '(y, mo, d, h, mi, s) := Gen_C20.BreakTime t in mkDT y mo d h mi s.

Definition fromUtc (dt : DateTime) : Z :=
  Gen_C20.fromUtcTime (year dt) (month dt) (day dt) (hour dt) (minute dt) (second dt).

Definition valid_datetime (dt : DateTime) : bool :=
  valid_date (year dt) (month dt) (day dt) &&
  (0 <=? hour dt) && (hour dt <=? 23) && (0 <=? minute dt) && (minute dt <=? 59) &&
  (0 <=? second dt) && (second dt <=? 59).

(* first / one-past-last second of the supported range *)
Definition utc_first : Z := (jdn_first - Date_kJulianDayOf1970_01_01) * 86400.
Definition utc_end : Z := (jdn_last + 1 - Date_kJulianDayOf1970_01_01) * 86400.

(* ------------------------------------------------------------------ time zones *)

(* struct TimeZone::Data: transitions (utctime, localtimeIdx) in file order and the
   utcOffset of each LocalTime record.  Transition::localtime is utctime + offset of its
   own record (Data::addTransition), so it is a function of the other two. *)
Record transition := mkTr { tutc : Z; tidx : nat }.
Record tzdata := mkTz { trans : list transition; offs : list Z }.

Definition off_of (tb : tzdata) (k : nat) : Z := nth k (offs tb) 0.
Definition tloc (tb : tzdata) (tr : transition) : Z := tutc tr + off_of tb (tidx tr).

Definition tr0 : transition := mkTr 0 0.

(* libstdc++ std::__upper_bound: first position whose element is greater than key *)
Fixpoint ub_loop (fuel : nat) (key : Z) (f : nat -> Z) (first len : nat) : nat :=
  match fuel with
  | O => first
  | S fu =>
    match len with
    | O => first
    | _ =>
      let half := Nat.div2 len in
      let mid := (first + half)%nat in
      if key <? f mid then ub_loop fu key f first half
      else ub_loop fu key f (mid + 1)%nat (len - half - 1)%nat
    end
  end.

Definition upper_bound (key : Z) (l : list Z) : nat :=
  ub_loop (length l) key (fun i => nth i l 0) 0%nat (length l).

(* findLocalTime(int64_t utcTime): index of the selected LocalTime record *)
Definition find_utc (tb : tzdata) (t : Z) : nat :=
  match trans tb with
  | [] => 0%nat
  | first :: _ =>
    if t <? tutc first then 0%nat
    else
      let n := length (trans tb) in
      let i := upper_bound t (map tutc (trans tb)) in
      if (i <? n)%nat then tidx (nth (i - 1) (trans tb) tr0)
      else tidx (nth (n - 1) (trans tb) tr0)
  end.

(* findLocalTime(const DateTime&, bool postTransition) on the shifted-epoch local time L *)
Definition find_local (tb : tzdata) (L : Z) (post : bool) : nat :=
  match trans tb with
  | [] => 0%nat
  | first :: _ =>
    if L <? tloc tb first then 0%nat
    else
      let ts := trans tb in
      let n := length ts in
      let j := upper_bound L (map (tloc tb) ts) in
      if (j =? n)%nat then tidx (nth (n - 1) ts tr0)
      else
        let cur := nth j ts tr0 in
        let prior := nth (j - 1) ts tr0 in
        let prior_second := tutc cur - 1 + off_of tb (tidx prior) in
        if prior_second <? L then
          (* a skipped local time *)
          if post then tidx cur else tidx prior
        else
          let i := (j - 1)%nat in
          let cur' := nth i ts tr0 in
          let '(prior', prior_second') :=
            if (i =? 0)%nat then (prior, prior_second)
            else let p := nth (i - 1) ts tr0 in (p, tutc cur' - 1 + off_of tb (tidx p)) in
          if L <=? prior_second' then
            (* a repeated local time *)
            if post then tidx cur' else tidx prior'
          else tidx cur'
  end.

Definition toLocalTime (tb : tzdata) (t : Z) : DateTime * Z :=
  let off := off_of tb (find_utc tb t) in (break_utc (t + off), off).

Definition fromLocalSeconds (tb : tzdata) (L : Z) (post : bool) : Z :=
  L - off_of tb (find_local tb L post).

Definition fromLocalTime (tb : tzdata) (dt : DateTime) (post : bool) : Z :=
  fromLocalSeconds tb (fromUtc dt) post.

(* --- well-formedness of a table (decidable; everything the theorems need) ---
   * at least one LocalTime record and every localtimeIdx in range;
   * consecutive transitions u < u' with offsets before (o0), between (o1) and after (o2):
       u  + o1 <= u' + o2    the shifted-local sequence is sorted (upper_bound's precondition)
       u  + o0 <= u' + o1    the local image of the previous segment ends before ...
       u  + o0 <= u' + o2    ... the next transition's local images begin
     i.e. two transitions are farther apart than the offset changes around them. *)
Fixpoint wf_from (tb : tzdata) (o0 : Z) (l : list transition) : bool :=
  match l with
  | [] => true
  | a :: rest =>
    (tidx a <? length (offs tb))%nat &&
    match rest with
    | [] => true
    | b :: _ =>
      let o1 := off_of tb (tidx a) in
      let o2 := off_of tb (tidx b) in
      (tutc a <? tutc b) && (tutc a + o1 <=? tutc b + o2) &&
      (tutc a + o0 <=? tutc b + o1) && (tutc a + o0 <=? tutc b + o2)
    end && wf_from tb (off_of tb (tidx a)) rest
  end.

Definition wf (tb : tzdata) : bool :=
  (0 <? length (offs tb))%nat && wf_from tb (off_of tb 0) (trans tb).

(* the weaker condition that the lookup by UTC instant needs: utc non-decreasing *)
Fixpoint sorted_utc (l : list transition) : bool :=
  match l with
  | [] => true
  | a :: rest => match rest with [] => true | b :: _ => (tutc a <=? tutc b) end && sorted_utc rest
  end.

(* --- specification side: the segment an instant belongs to --- *)
(* the last transition with utctime <= t, if any *)
Definition last_le (tb : tzdata) (t : Z) : option transition :=
  let l := filter (fun tr => tutc tr <=? t) (trans tb) in
  match l with [] => None | _ => Some (last l tr0) end.

Definition spec_type (tb : tzdata) (t : Z) : nat :=
  match last_le tb t with None => 0%nat | Some tr => tidx tr end.

Definition offset_at (tb : tzdata) (t : Z) : Z := off_of tb (spec_type tb t).

(* ------------------------------------------------------------------ integer text *)

Definition ch_dot : byte := x2e.
Definition ch_colon : byte := x3a.
Definition ch_space : byte := x20.
Definition ch_minus : byte := x2d.
Definition ch_lbr : byte := x5b.
Definition ch_rbr : byte := x5d.

Definition digit (d : Z) : byte := byte_of_Z (48 + d).
Definition digit_val (b : byte) : Z := Z_of_byte b - 48.
Definition is_digit (b : byte) : bool := (48 <=? Z_of_byte b) && (Z_of_byte b <=? 57).

(* exactly k decimal digits of n mod 10^k, most significant first *)
Fixpoint pad (k : nat) (n : Z) : list byte :=
  match k with O => [] | S k' => pad k' (n / 10) ++ [digit (n mod 10)] end.

Definition parse_dec (l : list byte) : Z := fold_left (fun acc b => acc * 10 + digit_val b) l 0.

Fixpoint ndigits (fuel : nat) (n : Z) : nat :=
  match fuel with
  | O => 1%nat
  | S f => if n <? 10 then 1%nat else S (ndigits f (n / 10))
  end.

(* %u / %d of a non-negative value (at most 20 digits: 64-bit) *)
Definition dec (n : Z) : list byte := pad (ndigits 20 n) n.
(* %d / %ld *)
Definition sdec (n : Z) : list byte := if n <? 0 then ch_minus :: dec (- n) else dec n.
(* %0<w>d : zero padded to width w, the sign counts *)
Definition fmt0 (w : nat) (n : Z) : list byte :=
  if n <? 0 then ch_minus :: pad (Nat.max (w - 1) (ndigits 20 (- n))) (- n)
  else pad (Nat.max w (ndigits 20 n)) n.
(* %<w>d : space padded *)
Definition fmtsp (w : nat) (n : Z) : list byte :=
  let s := sdec n in repeat ch_space (w - length s) ++ s.

(* ------------------------------------------------------------------ Timestamp text *)

(* Timestamp::toString: "%ld.%06ld" of us / 10^6 and us % 10^6 (C division) *)
Definition ts_toString (us : Z) : list byte :=
  sdec (Z.quot us kMicroSecondsPerSecond) ++ [ch_dot] ++ fmt0 6 (Z.rem us kMicroSecondsPerSecond).

(* Timestamp::toFormattedString: "%4d%02d%02d %02d:%02d:%02d[.%06d]" over gmtime_r of the
   truncated seconds; gmtime_r is modelled by break_utc (proved equal to the POSIX formula,
   compared with glibc by the harness) *)
Definition ts_toFormatted (us : Z) (showMicro : bool) : list byte :=
  let dt := break_utc (Z.quot us kMicroSecondsPerSecond) in
  fmtsp 4 (year dt) ++ fmt0 2 (month dt) ++ fmt0 2 (day dt) ++ [ch_space] ++
  fmt0 2 (hour dt) ++ [ch_colon] ++ fmt0 2 (minute dt) ++ [ch_colon] ++ fmt0 2 (second dt) ++
  (if showMicro then [ch_dot] ++ fmt0 6 (Z.rem us kMicroSecondsPerSecond) else []).

(* split at the first occurrence of a separator *)
Fixpoint split_at (sep : byte) (l : list byte) : option (list byte * list byte) :=
  match l with
  | [] => None
  | b :: r => if Byte.eqb b sep then Some ([], r)
              else match split_at sep r with Some (x, y) => Some (b :: x, y) | None => None end
  end.

(* reader for toString's output (microseconds >= 0) *)
Definition ts_parse (l : list byte) : option Z :=
  match split_at ch_dot l with
  | Some (s, u) => Some (parse_dec s * kMicroSecondsPerSecond + parse_dec u)
  | None => None
  end.

(* reader for toFormattedString(true)'s fixed-column output *)
Definition ts_parseFormatted (l : list byte) : Z :=
  let f a n := parse_dec (firstn n (skipn a l)) in
  fromUtc (mkDT (f 0 4) (f 4 2) (f 6 2) (f 9 2) (f 12 2) (f 15 2))%nat * kMicroSecondsPerSecond
  + f 18%nat 6%nat.
