(* Link_LoopTimer (L2b): one EventLoop iteration (C09) over its TimerQueue (C06).

   C09's iteration takes "the timerfd has an unread expiration" as an input of the environment
   (kenv.k_texp) and models TimerQueue::handleRead only by its effect on that counter
   (timerRead_env: the read resets it).  C06 has the timer queue itself: the armed instant of the
   one-shot timerfd, the clock, timers_, and handleRead = [fire].  The two are joined by the
   kernel's timerfd contract, which is a DEFINITION here, not a hypothesis:

       the timerfd is readable   iff   it is armed for an instant x and x <= clock     ([due])

   [env_of w rd tq] is the environment C09's poll sees when the wake-up counter is w, the other
   descriptors are in condition rd and the timer queue is in state tq.  The read callback of the
   timer channel is TimerQueue::handleRead (TimerQueue.cc:102-103: timerfdChannel_.setReadCallback(
   std::bind(&TimerQueue::handleRead, this))), i.e. C06's [fire tq script]: [combined_iter].

   Names used from other owners' files (read-only):
     C06_Model : state(armed clk timers arm_at heap) init run fire result(Ok) event(ERun) hget o_seq
     C06_Proofs: armed_for_earliest reach_top        C06_Hist: progress rlog     C06_Live: fire_total
     Gen_C06   : TimerQueue_floor_val
     C09_Model : ep ep_step_current ep_full env_ready kenv(mkKenv k_wake k_texp k_rd) loop_iter loop_iter_env
                 loop_iter_full loop_iter_full_env run_functors functors_ok functors_queued functors_ops
                 callbacks_g cb(CbRead) POLLIN wake_add apply_effects res(Ok) bind spec_run
     C09_Proofs: reachEC         C09_ProofsLoop: loop_channels others_quiet pend_inv idle_blocks_iff_E
                 wakeup_drained_E effects_current run_functors_ok ep_step_reach *)
From Coq Require Import List Bool Arith NArith ZArith Lia Permutation FinFun.
Import ListNotations.
From Muduo Require Gen_C06 C06_Model C06_Proofs C06_Hist C06_Live C09_Model C09_Proofs C09_ProofsPoll C09_ProofsLoop.

Module T := Muduo.C06_Model.
Module TP := Muduo.C06_Proofs.
Module TH := Muduo.C06_Hist.
Module TL := Muduo.C06_Live.
Module P := Muduo.C09_Model.
Module PQ := Muduo.C09_Proofs.
Module PP := Muduo.C09_ProofsLoop.
Module PL := Muduo.C09_ProofsPoll.

Definition floor_val : Z := Gen_C06.TimerQueue_floor_val.

(* ---- the timerfd contract ------------------------------------------------------------------ *)
Definition due (tq : T.state) : Prop := exists x, T.armed tq = Some x /\ (x <= T.clk tq)%Z.
Definition dueb (tq : T.state) : bool :=
  match T.armed tq with Some x => (x <=? T.clk tq)%Z | None => false end.

Lemma dueb_due tq : dueb tq = true <-> due tq.
Proof.
  unfold dueb, due. destruct (T.armed tq) as [x|].
  - rewrite Z.leb_le. split; [intros H; exists x; auto|intros (y & [= <-] & H); exact H].
  - split; [discriminate|intros (y & E & _); discriminate].
Qed.

Lemma dueb_not_due tq : dueb tq = false <-> ~ due tq.
Proof. rewrite <- dueb_due. destruct (dueb tq); split; congruence. Qed.

Definition env_of (w : N) (rd : nat -> N) (tq : T.state) : P.kenv :=
  P.mkKenv w (if dueb tq then 1%N else 0%N) rd.

Lemma env_of_texp w rd tq : (0 < P.k_texp (env_of w rd tq))%N <-> due tq.
Proof. rewrite <- dueb_due. unfold env_of. cbn [P.k_texp]. destruct (dueb tq); split; intros; try lia; congruence. Qed.

Lemma env_of_texp0 w rd tq : P.k_texp (env_of w rd tq) = 0%N <-> ~ due tq.
Proof. rewrite <- dueb_not_due. unfold env_of. cbn [P.k_texp]. destruct (dueb tq); split; intros; try lia; congruence. Qed.

(* a timer queue reached by any history of C06's model (adds, cancels, expiries, functors,
   foreign micro-steps, clock ticks) *)
Definition tq_reach (tq : T.state) : Prop := exists c ops evs, T.run (T.init c) ops = T.Ok (tq, evs).

(* ========================================================================================== *)
(* 1. When does the next poll block                                                             *)
(* ========================================================================================== *)
(* C09_idle_blocks_iff and C06_armed_for_earliest together.  In a combined state - poller st
   reached by any history (interest map sp) with the loop's two channels registered, wake-up
   counter w, functor queue p (with C09's / C04's invariant: queue non-empty => w > 0), timer
   queue tq reached by any history:
   (1) the kernel has nothing to return IFF the wake-up counter is 0, the timerfd's armed instant
       has not passed, and no other registered channel with interest is ready;
   (2) then no functor is queued, and if a timer is registered the timerfd IS armed, for an
       instant later than now and no later than max(earliest deadline, last arming + floor):
       the block ends by then;
   (3) a registered timer whose deadline has passed (the floor since the last arming too) keeps
       the poll from blocking. *)
Theorem combined_blocks_iff st sp wc tc wfd tfd w rd (p : list nat) tq :
  PQ.reachEC st sp -> PP.loop_channels sp wc tc wfd tfd -> (p <> [] -> (0 < w)%N) -> tq_reach tq ->
  let e := env_of w rd tq in
  (P.ep_full st (P.env_ready wfd tfd e) = [] <-> (w = 0%N /\ ~ due tq /\ PP.others_quiet sp wc tc e)) /\
  (P.ep_full st (P.env_ready wfd tfd e) = [] ->
     p = [] /\
     forall d a r, T.timers tq = (d, a) :: r ->
       exists x, T.armed tq = Some x /\ (T.clk tq < x <= Z.max d (T.arm_at tq + floor_val))%Z) /\
  (forall d a, In (d, a) (T.timers tq) -> (d <= T.clk tq)%Z -> (T.arm_at tq + floor_val <= T.clk tq)%Z ->
     P.ep_full st (P.env_ready wfd tfd e) <> []).
Proof.
  intros HR HL Hp (c & ops & evs & Hrun) e.
  assert (Hpi : PP.pend_inv e p) by exact Hp.
  destruct (PP.idle_blocks_iff_E st sp wc tc wfd tfd e p HR HL Hpi) as [Hiff Hemp].
  assert (Hiff' : P.ep_full st (P.env_ready wfd tfd e) = [] <-> (w = 0%N /\ ~ due tq /\ PP.others_quiet sp wc tc e)).
  { rewrite Hiff. unfold e at 1 2. cbn [P.k_wake]. rewrite env_of_texp0. reflexivity. }
  split; [exact Hiff'|]. split.
  - intros Hb. split; [exact (Hemp Hb)|]. intros d a r Ht.
    destruct (TP.armed_for_earliest c ops tq evs Hrun d a r Ht) as (_ & x & Hx & Hle).
    exists x. split; [exact Hx|]. split; [|exact Hle].
    apply Hiff' in Hb as (_ & Hnd & _). destruct (Z.lt_ge_cases (T.clk tq) x) as [|Hge]; [assumption|].
    exfalso. apply Hnd. exists x. split; [exact Hx|lia].
  - intros d a Hin Hd Hfl Hb. apply Hiff' in Hb as (_ & Hnd & _).
    destruct (T.timers tq) as [|[d0 a0] r] eqn:Ht; [contradiction|].
    destruct (TP.armed_for_earliest c ops tq evs Hrun d0 a0 r Ht) as (Hmin & x & Hx & Hle).
    apply Hnd. exists x. split; [exact Hx|].
    specialize (Hmin (d, a)). rewrite Ht in Hmin. specialize (Hmin Hin). cbn [fst] in Hmin. unfold floor_val in *. lia.
Qed.

(* ========================================================================================== *)
(* 2. One combined iteration                                                                    *)
(* ========================================================================================== *)
Definition is_timer_read (tc : nat) (ck : nat * P.cb) : bool :=
  Nat.eqb (fst ck) tc && (match snd ck with P.CbRead => true | _ => false end).
Definition timer_fired (tc : nat) (log : list (nat * P.cb)) : bool := existsb (is_timer_read tc) log.

Lemma timer_fired_in tc log : timer_fired tc log = true <-> In (tc, P.CbRead) log.
Proof.
  unfold timer_fired. rewrite existsb_exists. split.
  - intros ([c k] & Hin & H). unfold is_timer_read in H. cbn [fst snd] in H.
    apply andb_true_iff in H as [H1 H2]. apply Nat.eqb_eq in H1. subst c. destruct k; try discriminate. exact Hin.
  - intros H. exists (tc, P.CbRead). split; [exact H|]. unfold is_timer_read. cbn. now rewrite Nat.eqb_refl.
Qed.

(* C09's whole iteration on the epoll back-end of the current tree, in the environment the
   components determine; if the timer channel's read callback ran, it was TimerQueue::handleRead
   on the timer queue (C06's fire, with the per-timer callback scripts [script]) *)
Definition combined_iter (h : P.handlers) (hq : nat -> P.cb -> list nat) (fb : P.fnbody) (runs : nat -> bool)
    (user : nat -> P.cb -> P.kenv -> P.kenv) (qw : bool -> bool -> bool -> bool) (wc tc wfd tfd : nat)
    (st : P.ep) (w : N) (rd : nat -> N) (p : list nat) (tq : T.state) (choice : list nat)
    (script : list (list T.cbop)) :=
  match P.loop_iter_full_env P.ep P.ep_step_current h hq fb runs (PP.effects_current wc tc user) qw wfd tfd
          st (env_of w rd tq) p choice with
  | P.Ok (st', e', p', (act, log, ran)) =>
      if timer_fired tc log then
        match T.fire tq script with
        | T.Ok (tq', ev) => Some (st', e', p', tq', (act, log, ran, ev))
        | _ => None
        end
      else Some (st', e', p', tq, (act, log, ran, []))
  | _ => None
  end.

Lemma loop_iter_env_inv S step h runs eff wfd tfd st e choice st' act log e' :
  P.loop_iter_env S step h runs eff wfd tfd st e choice = P.Ok (st', act, log, e') ->
  P.loop_iter S step h runs st (P.env_ready wfd tfd e) choice = P.Ok (st', act, log) /\
  e' = P.apply_effects eff log e.
Proof.
  unfold P.loop_iter_env. destruct (P.loop_iter S step h runs st (P.env_ready wfd tfd e) choice) as [[[a b] c]| |];
    cbn [P.bind]; try discriminate. intros [= -> -> -> <-]. auto.
Qed.

Lemma callbacks_internal runs act :
  (forall c r, In (c, r) act -> r = P.POLLIN /\ runs c = true) ->
  P.callbacks_g runs act = map (fun cr => (fst cr, P.CbRead)) act.
Proof.
  induction act as [|[c r] t IH]; intros H; [reflexivity|].
  unfold P.callbacks_g in *. cbn [flat_map map fst snd].
  destruct (H c r (or_introl eq_refl)) as [-> Hr]. rewrite Hr, PP.dispatch_pollin. cbn [map app].
  f_equal. apply IH. intros c' r' Hin. apply H. now right.
Qed.

Lemma nodup_app_l {A} (a b : list A) : NoDup (a ++ b) -> NoDup a.
Proof.
  induction a as [|x r IH]; intros H; [constructor|]. cbn [app] in H. inversion H as [|? ? Hn Hr]; subst.
  constructor; [intros Hx; apply Hn; apply in_or_app; now left|exact (IH Hr)].
Qed.

Lemma poll_nodup st sp ready choice st' act : PQ.reachEC st sp ->
  P.ep_step_current st (P.Poll ready choice) = P.Ok (st', act) -> NoDup (map fst act).
Proof.
  intros HR E. destruct (PQ.reachEC_refines st sp HR (P.Poll ready choice)) as [A _].
  destruct (A I) as (st2 & act2 & E2 & _ & _ & _ & ND & (rest & HP) & _).
  rewrite E in E2. injection E2 as <- <-.
  apply (Permutation_map fst) in HP. rewrite map_app in HP.
  eapply Permutation_NoDup in ND; [|exact HP]. exact (nodup_app_l _ _ ND).
Qed.

Lemma loop_iter_poll S step h runs st ready choice st1 act log :
  P.loop_iter S step h runs st ready choice = P.Ok (st1, act, log) ->
  exists st0, step st (P.Poll ready choice) = P.Ok (st0, act).
Proof.
  unfold P.loop_iter. destruct (step st (P.Poll ready choice)) as [[st0 act0]| |]; cbn [P.bind fst snd]; try discriminate.
  destruct (P.dispatch_batch S step h runs (map fst act0) st0 act0) as [[a b]| |]; cbn [P.bind fst snd]; try discriminate.
  intros [= _ <- _]. eauto.
Qed.

(* a list of callbacks without repetition in which only x queues anything *)
Lemma flat_map_absent {A B} (f : A -> list B) x log :
  (forall y, In y log -> y <> x -> f y = []) -> ~ In x log -> flat_map f log = [].
Proof.
  induction log as [|a r IH]; intros H Hn; [reflexivity|]. cbn [flat_map].
  rewrite (H a (or_introl eq_refl)) by (intros ->; apply Hn; now left). cbn [app].
  apply IH; [intros y Hy; apply H; now right|intros Hx; apply Hn; now right].
Qed.

Lemma flat_map_single {A B} (f : A -> list B) x log : NoDup log ->
  (forall y, In y log -> y <> x -> f y = []) -> In x log -> flat_map f log = f x.
Proof.
  induction 1 as [|a r Ha ND IH]; intros H Hin; [contradiction|]. cbn [flat_map].
  destruct Hin as [->|Hin].
  - rewrite (flat_map_absent f x r); [apply app_nil_r| |exact Ha]. intros y Hy. apply H. now right.
  - rewrite (H a (or_introl eq_refl)) by (intros ->; contradiction). cbn [app].
    apply IH; [intros y Hy; apply H; now right|exact Hin].
Qed.

(* PROGRESS.  The loop's own channels registered, every other channel quiet, and the poll does not
   block (the wake-up counter is non-zero or the timerfd's armed instant has passed).  Then the
   iteration succeeds and makes progress:
   - at least one callback runs; EventLoop::handleRead runs iff w > 0, TimerQueue::handleRead iff
     the timerfd is due;
   - every functor queued at poll time (and what the callbacks queued) runs in this iteration, in
     order; the wake-up counter is reset and afterwards counts only wake-ups for functors queued
     during this iteration (so a wake-up with nothing queued - stale - is consumed, not repeated);
   - if the timerfd was due, handleRead ran on the timer queue: with a timer registered it runs
     the earliest one, or the arming was stale (armed earlier than the earliest deadline) and the
     timerfd is re-armed for exactly max(earliest, now + floor) > now;
   - if the timerfd was not due the timer queue is untouched. *)
Theorem combined_core h hq fb runs user qw wc tc wfd tfd st sp w rd p tq choice script :
  PQ.reachEC st sp -> PP.loop_channels sp wc tc wfd tfd ->
  PP.others_quiet sp wc tc (env_of w rd tq) ->
  runs wc = true -> runs tc = true -> (forall k, h wc k = []) -> (forall k, h tc k = []) ->
  tq_reach tq ->
  (forall log, (forall ck, In ck log -> ck = (wc, P.CbRead) \/ ck = (tc, P.CbRead)) ->
     P.functors_ok fb sp (p ++ flat_map (fun ck => hq (fst ck) (snd ck)) log)) ->
  (0 < w)%N \/ due tq ->
  exists st' e' p' tq' act log ran ev,
    combined_iter h hq fb runs user qw wc tc wfd tfd st w rd p tq choice script
      = Some (st', e', p', tq', (act, log, ran, ev)) /\
    PQ.reachEC st' (P.spec_run sp (P.functors_ops fb ran)) /\
    log <> [] /\
    (In (wc, P.CbRead) log <-> (0 < w)%N) /\ (In (tc, P.CbRead) log <-> due tq) /\
    ran = p ++ flat_map (fun ck => hq (fst ck) (snd ck)) log /\
    p' = P.functors_queued fb ran /\
    P.k_wake e' = ((if qw true false true
                    then N.of_nat (length (flat_map (fun ck => hq (fst ck) (snd ck)) log)) else 0)
                   + (if qw true true true then N.of_nat (length p') else 0))%N /\
    (due tq ->
       T.fire tq script = T.Ok (tq', ev) /\
       forall d a r x, T.timers tq = (d, a) :: r -> T.armed tq = Some x ->
         ((d <= T.clk tq)%Z /\
            exists o t, T.hget a (T.heap tq) = Some o /\ In (T.ERun (T.o_seq o) d (T.clk tq) t) ev) \/
         ((T.clk tq < d)%Z /\ (x < d)%Z /\ TH.rlog ev = [] /\ T.timers tq' = T.timers tq /\
            T.clk tq' = T.clk tq /\ T.armed tq' = Some (Z.max d (T.clk tq + floor_val)))) /\
    (~ due tq -> tq' = tq /\ ev = []) /\
    NoDup log /\ (forall ck, In ck log -> ck = (wc, P.CbRead) \/ ck = (tc, P.CbRead)).
Proof.
  intros HR HL HQ Hrw Hrt Hhw Hht (c & ops & evs & Hrun) Hfun Hnb.
  set (e := env_of w rd tq) in *.
  destruct (PP.wakeup_drained_E h runs user wc tc wfd tfd st sp e choice HR HL HQ Hrw Hrt Hhw Hht)
    as (st1 & act & e1 & Hit & HR1 & Hact & Hlog & Hkw & _ & _ & _).
  set (log := P.callbacks_g runs act) in *.
  apply loop_iter_env_inv in Hit as [Hit He1].
  assert (Hint : forall ck, In ck log -> ck = (wc, P.CbRead) \/ ck = (tc, P.CbRead)).
  { intros ck Hin. apply Hlog in Hin as [[-> _]|[-> _]]; auto. }
  assert (Hnd_log : NoDup log).
  { destruct (loop_iter_poll _ _ _ _ _ _ _ _ _ _ Hit) as (st0 & Ep).
    pose proof (poll_nodup st sp _ choice st0 act HR Ep) as ND.
    unfold log. rewrite callbacks_internal.
    - rewrite <- (map_map fst (fun c => (c, P.CbRead))). apply Injective_map_NoDup; [|exact ND].
      intros a b [= ->]. reflexivity.
    - intros c0 r0 Hin. apply Hact in Hin as [(-> & _ & ->)|(-> & _ & ->)]; auto. }
  set (ran := p ++ flat_map (fun ck => hq (fst ck) (snd ck)) log).
  destruct (PP.run_functors_ok P.ep P.ep_step_current PQ.reachEC PP.ep_step_reach fb ran st1 sp HR1 (Hfun log Hint))
    as (st2 & Hrf & HR2).
  assert (Hfull : P.loop_iter_full_env P.ep P.ep_step_current h hq fb runs (PP.effects_current wc tc user) qw wfd tfd
                    st e p choice =
                  P.Ok (st2,
                        (if qw true true true then P.wake_add (length (P.functors_queued fb ran)) else fun x => x)
                          ((if qw true false true
                            then P.wake_add (length (flat_map (fun ck => hq (fst ck) (snd ck)) log)) else fun x => x)
                             (P.apply_effects (PP.effects_current wc tc user) log e)),
                        P.functors_queued fb ran, (act, log, ran))).
  { unfold P.loop_iter_full_env, P.loop_iter_full. rewrite Hit. cbn [P.bind fst snd]. fold ran. rewrite Hrf.
    cbn [P.bind fst snd]. destruct (qw true false true), (qw true true true); reflexivity. }
  assert (Hw_in : In (wc, P.CbRead) log <-> (0 < w)%N).
  { rewrite Hlog. unfold e. cbn [P.k_wake]. destruct HL as (Hne & _). split.
    - intros [[_ H]|[H _]]; [exact H|]. injection H as H. congruence.
    - intros H. left. auto. }
  assert (Ht_in : In (tc, P.CbRead) log <-> due tq).
  { rewrite Hlog. unfold e. rewrite env_of_texp. destruct HL as (Hne & _). split.
    - intros [[H _]|[_ H]]; [|exact H]. injection H as H. congruence.
    - intros H. right. auto. }
  assert (Hne : log <> []).
  { destruct Hnb as [H|H]; [apply Hw_in in H|apply Ht_in in H]; intros E; rewrite E in H; exact H. }
  assert (Hkw' : forall a b : bool,
            P.k_wake ((if b then P.wake_add (length (P.functors_queued fb ran)) else fun x => x)
                        ((if a then P.wake_add (length (flat_map (fun ck => hq (fst ck) (snd ck)) log)) else fun x => x)
                           (P.apply_effects (PP.effects_current wc tc user) log e))) =
            ((if a then N.of_nat (length (flat_map (fun ck => hq (fst ck) (snd ck)) log)) else 0)
             + (if b then N.of_nat (length (P.functors_queued fb ran)) else 0))%N).
  { intros a b. rewrite <- He1. destruct a, b; unfold P.wake_add; cbn [P.k_wake]; rewrite Hkw; lia. }
  unfold combined_iter. fold e. rewrite Hfull.
  destruct (timer_fired tc log) eqn:Etf.
  - assert (Hdue : due tq) by (apply Ht_in, timer_fired_in; exact Etf).
    destruct (TL.fire_total tq script (TP.reach_top c ops tq evs Hrun)) as ([tq' ev] & Hfire).
    rewrite Hfire. exists st2; eexists; exists (P.functors_queued fb ran), tq', act, log, ran, ev.
    split; [reflexivity|]. split; [exact HR2|]. split; [exact Hne|]. split; [exact Hw_in|]. split; [exact Ht_in|].
    split; [reflexivity|]. split; [reflexivity|]. split; [apply Hkw'|]. split.
    + intros _. split; [reflexivity|]. intros d a r x Htm Harm.
      destruct Hdue as (x' & Hx' & Hle). rewrite Harm in Hx'. injection Hx' as <-.
      destruct (TH.progress c ops tq evs script tq' ev d a r x Hrun Htm Harm Hle Hfire) as [_ Hpr].
      exact Hpr.
    + split; [intros Hnd; contradiction|split; [exact Hnd_log|exact Hint]].
  - assert (Hnd : ~ due tq).
    { intros Hd. apply Ht_in, timer_fired_in in Hd. congruence. }
    exists st2; eexists; exists (P.functors_queued fb ran), tq, act, log, ran, [].
    split; [reflexivity|]. split; [exact HR2|]. split; [exact Hne|]. split; [exact Hw_in|]. split; [exact Ht_in|].
    split; [reflexivity|]. split; [reflexivity|]. split; [apply Hkw'|]. split.
    + intros Hd. contradiction.
    + split; [intros _; auto|split; [exact Hnd_log|exact Hint]].
Qed.

Theorem combined_progress h hq fb runs user qw wc tc wfd tfd st sp w rd p tq choice script :
  PQ.reachEC st sp -> PP.loop_channels sp wc tc wfd tfd ->
  PP.others_quiet sp wc tc (env_of w rd tq) ->
  runs wc = true -> runs tc = true -> (forall k, h wc k = []) -> (forall k, h tc k = []) ->
  tq_reach tq ->
  (forall log, (forall ck, In ck log -> ck = (wc, P.CbRead) \/ ck = (tc, P.CbRead)) ->
     P.functors_ok fb sp (p ++ flat_map (fun ck => hq (fst ck) (snd ck)) log)) ->
  (0 < w)%N \/ due tq ->
  exists st' e' p' tq' act log ran ev,
    combined_iter h hq fb runs user qw wc tc wfd tfd st w rd p tq choice script
      = Some (st', e', p', tq', (act, log, ran, ev)) /\
    PQ.reachEC st' (P.spec_run sp (P.functors_ops fb ran)) /\
    log <> [] /\
    (In (wc, P.CbRead) log <-> (0 < w)%N) /\ (In (tc, P.CbRead) log <-> due tq) /\
    ran = p ++ flat_map (fun ck => hq (fst ck) (snd ck)) log /\
    p' = P.functors_queued fb ran /\
    P.k_wake e' = ((if qw true false true
                    then N.of_nat (length (flat_map (fun ck => hq (fst ck) (snd ck)) log)) else 0)
                   + (if qw true true true then N.of_nat (length p') else 0))%N /\
    (due tq ->
       T.fire tq script = T.Ok (tq', ev) /\
       forall d a r x, T.timers tq = (d, a) :: r -> T.armed tq = Some x ->
         ((d <= T.clk tq)%Z /\
            exists o t, T.hget a (T.heap tq) = Some o /\ In (T.ERun (T.o_seq o) d (T.clk tq) t) ev) \/
         ((T.clk tq < d)%Z /\ (x < d)%Z /\ TH.rlog ev = [] /\ T.timers tq' = T.timers tq /\
            T.clk tq' = T.clk tq /\ T.armed tq' = Some (Z.max d (T.clk tq + floor_val)))) /\
    (~ due tq -> tq' = tq /\ ev = []).
Proof.
  intros HR HL HQ Hrw Hrt Hhw Hht Htq Hfun Hnb.
  destruct (combined_core h hq fb runs user qw wc tc wfd tfd st sp w rd p tq choice script
              HR HL HQ Hrw Hrt Hhw Hht Htq Hfun Hnb)
    as (st' & e' & p' & tq' & act & log & ran & ev & H1 & H2 & H3 & H4 & H5 & H6 & H7 & H8 & H9 & H10 & _).
  exists st', e', p', tq', act, log, ran, ev. repeat (split; [assumption|]). assumption.
Qed.

(* THE TWO VIEWS OF pendingFunctors_ CONNECTED.  C09 names functors by ids (p, hq, fb); C06's timer
   queue carries the same queue as [T.pending tq] (timer functors PAdd / PCancel and user functors
   PUser) and the timer callbacks of an expiry as [script].  [fun_of] says which C06 functor a C09
   id stands for.  Hypotheses that tie the two descriptions of ONE iteration together:
     Hcoh : the queue at poll time is the same queue       T.pending tq = map fun_of p
     Hscr : if the timerfd is due, what the callback scripts of this expiry queue (C06) is what C09
            lists for the timer channel's read callback   pending after fire = pending ++ map fun_of (hq tc CbRead)
     Hwq  : EventLoop::handleRead queues nothing           hq wc CbRead = []
   Then the batch C09's doPendingFunctors runs is exactly C06's queue after the expiry - the
   functors queued before the poll followed by those the timer callbacks queued (none if the timerfd
   was not due) - and with an empty queue and a timerfd that is not due the iteration does nothing
   but consume the wake-up (the stale wake-up case). *)
Theorem combined_progress_connected h hq fb runs user qw wc tc wfd tfd st sp w rd p tq choice script
    (fun_of : nat -> T.pfun) :
  PQ.reachEC st sp -> PP.loop_channels sp wc tc wfd tfd ->
  PP.others_quiet sp wc tc (env_of w rd tq) ->
  runs wc = true -> runs tc = true -> (forall k, h wc k = []) -> (forall k, h tc k = []) ->
  tq_reach tq ->
  (forall log, (forall ck, In ck log -> ck = (wc, P.CbRead) \/ ck = (tc, P.CbRead)) ->
     P.functors_ok fb sp (p ++ flat_map (fun ck => hq (fst ck) (snd ck)) log)) ->
  (0 < w)%N \/ due tq ->
  hq wc P.CbRead = [] ->
  T.pending tq = map fun_of p ->
  (due tq -> forall tq' ev, T.fire tq script = T.Ok (tq', ev) ->
     T.pending tq' = T.pending tq ++ map fun_of (hq tc P.CbRead)) ->
  exists st' e' p' tq' act log ran ev,
    combined_iter h hq fb runs user qw wc tc wfd tfd st w rd p tq choice script
      = Some (st', e', p', tq', (act, log, ran, ev)) /\
    PQ.reachEC st' (P.spec_run sp (P.functors_ops fb ran)) /\
    ran = p ++ (if dueb tq then hq tc P.CbRead else []) /\
    T.pending tq' = map fun_of ran /\
    p' = P.functors_queued fb ran /\
    P.k_wake e' = ((if qw true false true
                    then N.of_nat (length (if dueb tq then hq tc P.CbRead else [])) else 0)
                   + (if qw true true true then N.of_nat (length p') else 0))%N /\
    (p = [] -> ~ due tq ->
       log = [(wc, P.CbRead)] /\ ran = [] /\ p' = [] /\ P.k_wake e' = 0%N /\ tq' = tq /\ ev = []).
Proof.
  intros HR HL HQ Hrw Hrt Hhw Hht Htq Hfun Hnb Hwq Hcoh Hscr.
  destruct (combined_core h hq fb runs user qw wc tc wfd tfd st sp w rd p tq choice script
              HR HL HQ Hrw Hrt Hhw Hht Htq Hfun Hnb)
    as (st' & e' & p' & tq' & act & log & ran & ev & H1 & HRe & Hne & Hw_in & Ht_in & Hran & Hp' & Hkw & Hdue & Hnd & ND & Hint).
  assert (Hq : flat_map (fun ck => hq (fst ck) (snd ck)) log = (if dueb tq then hq tc P.CbRead else [])).
  { assert (Hoth : forall y, In y log -> y <> (tc, P.CbRead) -> hq (fst y) (snd y) = []).
    { intros y Hy Hne'. destruct (Hint y Hy) as [->| ->]; [exact Hwq|contradiction]. }
    destruct (dueb tq) eqn:Ed.
    - apply (flat_map_single (fun ck => hq (fst ck) (snd ck)) (tc, P.CbRead) log ND Hoth).
      apply Ht_in, dueb_due. exact Ed.
    - apply (flat_map_absent (fun ck => hq (fst ck) (snd ck)) (tc, P.CbRead) log Hoth).
      intros Hin. apply Ht_in, dueb_due in Hin. congruence. }
  rewrite Hq in Hran, Hkw.
  exists st', e', p', tq', act, log, ran, ev. split; [exact H1|]. split; [exact HRe|]. split; [exact Hran|]. split.
  - destruct (dueb tq) eqn:Ed.
    + destruct (Hdue (proj1 (dueb_due tq) Ed)) as [Hf _]. rewrite (Hscr (proj1 (dueb_due tq) Ed) _ _ Hf), Hcoh, Hran, map_app. reflexivity.
    + destruct (Hnd (proj1 (dueb_not_due tq) Ed)) as [-> _]. rewrite Hcoh, Hran, app_nil_r. reflexivity.
  - split; [exact Hp'|]. split; [exact Hkw|].
    intros Hp0 Hnd'. apply dueb_not_due in Hnd' as Ed. rewrite Ed in Hran, Hkw. subst p. cbn [app] in Hran. subst ran.
    assert (Hw : (0 < w)%N) by (destruct Hnb as [H|H]; [exact H|apply dueb_not_due in Ed; contradiction]).
    assert (Hlog : log = [(wc, P.CbRead)]).
    { destruct log as [|a r]; [contradiction|].
      assert (Ha : a = (wc, P.CbRead)).
      { destruct (Hint a (or_introl eq_refl)) as [->| ->]; [reflexivity|].
        exfalso. apply dueb_not_due in Ed. apply Ed, Ht_in. now left. }
      subst a. destruct r as [|b r]; [reflexivity|]. exfalso.
      assert (Hb : b = (wc, P.CbRead)).
      { destruct (Hint b (or_intror (or_introl eq_refl))) as [->| ->]; [reflexivity|].
        exfalso. apply dueb_not_due in Ed. apply Ed, Ht_in. right; now left. }
      subst b. inversion ND as [|? ? Hni _]. apply Hni. now left. }
    unfold P.functors_queued in Hp'. cbn [flat_map] in Hp'. subst p'. cbn [length] in Hkw.
    destruct (Hnd (proj1 (dueb_not_due tq) Ed)) as [-> ->].
    repeat split; try reflexivity; try assumption.
    rewrite Hkw. destruct (qw true false true), (qw true true true); reflexivity.
Qed.


(* what C09 assumes of the timer callback's effect on the environment (k_texp := 0) is what C06's
   handleRead does first: readTimerfd consumes the expiration *)
Lemma consume_not_due tq : ~ due (T.consume tq) \/ ~ due tq.
Proof.
  unfold T.consume. destruct (T.armed tq) as [x|] eqn:E.
  - destruct (Z.leb_spec x (T.clk tq)) as [Hle|Hgt].
    + left. intros (y & Hy & _). cbn in Hy. discriminate.
    + right. intros (y & Hy & Hle). rewrite E in Hy. injection Hy as <-. lia.
  - right. intros (y & Hy & _). rewrite E in Hy. discriminate.
Qed.

Lemma consume_clears tq : due tq -> T.armed (T.consume tq) = None.
Proof.
  intros (x & Hx & Hle). unfold T.consume. rewrite Hx. destruct (Z.leb_spec x (T.clk tq)); [reflexivity|lia].
Qed.

(* and at the end of handleRead, with a timer still registered, the timerfd is armed for a later
   instant: C09's "k_texp = 0 after the iteration" holds of the real timer queue *)
Theorem fire_leaves_not_due tq script tq' ev : tq_reach tq -> T.fire tq script = T.Ok (tq', ev) ->
  T.timers tq' <> [] -> ~ due tq'.
Proof.
  intros (c & ops & evs & Hrun) Hf Hne.
  destruct (TH.fire_runs_due c ops tq evs script tq' ev Hrun Hf) as (_ & _ & _ & Hre).
  destruct (T.timers tq') as [|[d a] r] eqn:Ht; [contradiction|].
  destruct (Hre d a r Ht) as [Harm _]. intros (x & Hx & Hle). rewrite Harm in Hx. injection Hx as <-.
  pose proof TP.gen_floor_val_pos. lia.
Qed.

(* the same for the poll(2) back-end *)
Theorem combined_blocks_iff_poll st sp wc tc wfd tfd w rd (p : list nat) tq choice :
  PL.reachPC st sp -> PP.loop_channels sp wc tc wfd tfd -> (p <> [] -> (0 < w)%N) -> tq_reach tq ->
  let e := env_of w rd tq in
  let blocks := P.pp_step_current st (P.Poll (P.env_ready wfd tfd e) choice) = P.Ok (st, []) in
  (blocks <-> (w = 0%N /\ ~ due tq /\ PP.others_quiet sp wc tc e)) /\
  (blocks ->
     p = [] /\
     forall d a r, T.timers tq = (d, a) :: r ->
       exists x, T.armed tq = Some x /\ (T.clk tq < x <= Z.max d (T.arm_at tq + floor_val))%Z) /\
  (forall d a, In (d, a) (T.timers tq) -> (d <= T.clk tq)%Z -> (T.arm_at tq + floor_val <= T.clk tq)%Z ->
     ~ blocks).
Proof.
  intros HR HL Hp (c & ops & evs & Hrun) e blocks.
  assert (Hpi : PP.pend_inv e p) by exact Hp.
  destruct (PP.idle_blocks_iff_P st sp wc tc wfd tfd e p choice HR HL Hpi) as [Hiff Hemp].
  assert (Hiff' : blocks <-> (w = 0%N /\ ~ due tq /\ PP.others_quiet sp wc tc e)).
  { unfold blocks. rewrite Hiff. unfold e at 1 2. cbn [P.k_wake]. rewrite env_of_texp0. reflexivity. }
  split; [exact Hiff'|]. split.
  - intros Hb. split; [exact (Hemp Hb)|]. intros d a r Ht.
    destruct (TP.armed_for_earliest c ops tq evs Hrun d a r Ht) as (_ & x & Hx & Hle).
    exists x. split; [exact Hx|]. split; [|exact Hle].
    apply Hiff' in Hb as (_ & Hnd & _). destruct (Z.lt_ge_cases (T.clk tq) x) as [|Hge]; [assumption|].
    exfalso. apply Hnd. exists x. split; [exact Hx|lia].
  - intros d a Hin Hd Hfl Hb. apply Hiff' in Hb as (_ & Hnd & _).
    destruct (T.timers tq) as [|[d0 a0] r] eqn:Ht; [contradiction|].
    destruct (TP.armed_for_earliest c ops tq evs Hrun d0 a0 r Ht) as (Hmin & x & Hx & Hle).
    apply Hnd. exists x. split; [exact Hx|].
    specialize (Hmin (d, a)). rewrite Ht in Hmin. specialize (Hmin Hin). cbn [fst] in Hmin. unfold floor_val in *. lia.
Qed.

(* whatever else is registered and ready: a poll that has something to return returns at least
   one channel (epoll_wait returns min(ready, capacity) >= 1 entries), so an iteration that does
   not block dispatches at least one channel *)
Lemma pick_nonempty {A} k choice (l : list A) : l <> [] -> P.pick (S k) choice l <> [].
Proof.
  intros Hl. cbn [P.pick].
  destruct (PQ.take_nth_some A (Nat.modulo (hd 0 choice) (length l)) l) as (x & l' & ->).
  - apply Nat.mod_upper_bound. destruct l; [contradiction|discriminate].
  - discriminate.
Qed.

Theorem poll_returns_something st sp ready choice :
  PQ.reachEC st sp -> P.ep_full st ready <> [] ->
  exists st' act, P.ep_step_current st (P.Poll ready choice) = P.Ok (st', act) /\ act <> [].
Proof.
  intros HR Hf.
  destruct (PP.ep_step_reach st sp (P.Poll ready choice) HR I) as (st' & act & E & _).
  exists st', act. split; [exact E|].
  unfold P.ep_step_current, P.ep_step, P.ep_poll in E.
  destruct (forallb _ _); [|discriminate]. injection E as _ <-.
  pose proof (PQ.ie_capmin st sp (PQ.reachEC_inv st sp HR)) as Hcap. pose proof PQ.init_cap_pos as Hpos.
  destruct (Nat.min (length (P.ep_full st ready)) (P.e_cap st)) as [|k] eqn:Em.
  - destruct (P.ep_full st ready); [contradiction|]. cbn [length] in Em. lia.
  - apply pick_nonempty. exact Hf.
Qed.
