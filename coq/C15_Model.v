(* C15_Model: muduo::ThreadPool (muduo/base/ThreadPool.cc) as a monitor over the generic semantics
   of Conc_Model, plus the thread-local control that is not a critical section.  No proofs here.

   Shared state guarded by mutex_:  queue_ (task identities, oldest first), running_.
   Conditions: notEmpty_ (0), notFull_ (1).  Params: nw = threads_.size() after start(nw)
   (0 = no pool threads: run() executes inline), maxq = maxQueueSize_ (0 = unbounded).

   Critical sections (one [pool_body] each, evaluated at the top of the wait loop, see Conc_Model):
     run(task), threads_ non-empty:   while (isFull() && running_) notFull_.wait();
                                      if (!running_) return;  queue_.push_back(task); notEmpty_.notify();
     take():                          while (queue_.empty() && running_) notEmpty_.wait();
                                      if (!queue_.empty()) { task = front(); pop_front();
                                                             if (maxQueueSize_ > 0) notFull_.notify(); }
                                      return task;                 // possibly empty, also after stop
     stop(), first block:             running_ = false; notEmpty_.notifyAll(); notFull_.notifyAll();
     queueSize():                     return queue_.size();
   Steps outside the mutex (labels of [pstep]):
     LLoad t   worker t evaluates `while (running_)` in runInThread: an UNGUARDED atomic read
     LExec t   worker t calls the task it took (`if (task) task();`)
     LNext t   client t starts its next call: run(k) inline when nw = 0, else enters the section;
               stop(); queueSize()
     LJoin t   stop() in client t joins the next worker (enabled when that worker has returned from
               runInThread), and returns after the last one; joining a worker that has been joined
               before is the assertion failure of Thread::join (a second stop()): the client faults
     LInit t   worker t evaluates `if (threadInitCallback_) threadInitCallback_();` at the top of runInThread
   start(nw) itself (running_ = true, thread creation) precedes the initial state. *)
From Coq Require Import List Arith Bool.
From Muduo Require Import Conc_Model.
Import ListNotations.

Definition notEmpty : cond := 0.   (* notEmpty_ *)
Definition notFull : cond := 1.    (* notFull_ *)

Definition task := nat.

Record pool := mkPool { queue : list task; running : bool }.

Inductive pop := PRun (k : task) | PTake | PStop | PSize.
Inductive pres := RAccepted | RRejected | RTask (k : option task) | RUnit | RSize (n : nat).

(* bool ThreadPool::isFull() const { return maxQueueSize_ > 0 && queue_.size() >= maxQueueSize_; } *)
Definition isFull (maxq : nat) (q : list task) : bool := (0 <? maxq) && (maxq <=? length q).
(* the loop condition of take() and of run() *)
Definition take_waits (q : list task) (r : bool) : bool := (match q with [] => true | _ => false end) && r.
Definition run_waits (maxq : nat) (q : list task) (r : bool) : bool := isFull maxq q && r.

Definition pool_body (maxq : nat) (o : pop) (s : pool) : outcome pool pres :=
  match o with
  | PRun k =>
      if run_waits maxq (queue s) (running s) then Block notFull
      else if negb (running s) then Ret s RRejected []                         (* if (!running_) return; *)
      else Ret (mkPool (queue s ++ [k]) (running s)) RAccepted [Notify notEmpty]
  | PTake =>
      if take_waits (queue s) (running s) then Block notEmpty
      else match queue s with
           | [] => Ret s (RTask None) []
           | k :: q' => Ret (mkPool q' (running s)) (RTask (Some k))
                          (if 0 <? maxq then [Notify notFull] else [])
           end
  | PStop => Ret (mkPool (queue s) false) RUnit [NotifyAll notEmpty; NotifyAll notFull]
  | PSize => Ret s (RSize (length (queue s))) []
  end.

(* client classification for the notification disciplines *)
Definition pool_blocker (c : cond) (o : pop) : bool :=
  match o with PTake => Nat.eqb c notEmpty | PRun _ => Nat.eqb c notFull | _ => false end.

(* ---------------------------------------------------------------- thread-local control *)
Inductive uop := URun (k : task) | UStop | USize.      (* a client's program *)

Inductive pc :=
| WLoop                               (* worker: about to evaluate `while (running_)` *)
| WTake                               (* worker: inside take() *)
| WGot (k : task)                     (* worker: take() returned task k, not yet called *)
| WDone                               (* worker: runInThread has returned *)
| CIdle (ops : list uop)              (* client: between two calls; ops = what is left *)
| CCall (ops : list uop)              (* client: inside run() / queueSize() *)
| CStopping (ops : list uop)          (* client: inside the first block of stop() *)
| CJoin (i : nat) (ops : list uop)    (* client: stop() about to join worker i *)
| WInit                               (* worker: about to evaluate `if (threadInitCallback_) threadInitCallback_();` *)
| CFault (ops : list uop).            (* client: aborted by the assertion in Thread::join (second join of a thread);
                                         absorbing; ops = what it never got to *)

Inductive event :=
| EvAccept (t : nat) (k : task)       (* run(k) appended k to queue_ *)
| EvReject (t : nat) (k : task)       (* run(k) left at `if (!running_) return` *)
| EvTake (t : nat) (k : task)         (* take() in worker t popped k *)
| EvStart (t : nat) (k : task)        (* worker t calls task k *)
| EvInline (t : nat) (k : task)       (* client t runs k inline (threads_.empty()) *)
| EvStopSec (t : nat)                 (* the first block of stop() ran *)
| EvStopRet (t : nat)                 (* stop() returned in t *)
| EvInit (t : nat)                    (* worker t passed the thread-init callback *)
| EvJoin (t i : nat)                  (* stop() in t joined worker i *)
| EvFault (t i : nat).                (* stop() in t tried to join worker i a second time: assert(!joined_) *)

Record psys := mkP { mon : sys pool pop pres; pcs : list pc; evs : list event }.

Inductive plabel := LMon (l : label) | LLoad (t : nat) | LExec (t : nat) | LNext (t : nat) | LJoin (t : nat) | LInit (t : nat).

(* the call thread t is inside, with its result, if evaluating the body now returns *)
Definition ret_of (maxq : nat) (m : sys pool pop pres) (t : nat) : option (pop * pres) :=
  match nth_error (threads m) t with
  | Some th => match prog th with
               | o :: _ => match pool_body maxq o (shared m) with
                           | Ret _ r _ => Some (o, r)
                           | Block _ => None
                           end
               | [] => None
               end
  | None => None
  end.

Definition after_ret (p : pc) (r : pres) : pc :=
  match p, r with
  | WTake, RTask (Some k) => WGot k
  | WTake, _ => WLoop
  | CCall ops, _ => CIdle ops
  | CStopping ops, _ => CJoin 0 ops
  | p, _ => p
  end.

Definition ev_of (t : nat) (o : pop) (r : pres) : list event :=
  match o, r with
  | PRun k, RAccepted => [EvAccept t k]
  | PRun k, _ => [EvReject t k]
  | PTake, RTask (Some k) => [EvTake t k]
  | PStop, _ => [EvStopSec t]
  | _, _ => []
  end.

Definition pc_at (s : psys) (t : nat) : option pc := nth_error (pcs s) t.

Definition mon_step (maxq : nat) (s : psys) (l : label) : option psys :=
  match step (pool_body maxq) (mon s) l with
  | None => None
  | Some m' =>
      match l with
      | LBody t _ =>
          match ret_of maxq (mon s) t with
          | Some (o, r) => Some (mkP m' (upd t (after_ret (nth t (pcs s) WDone) r) (pcs s)) (evs s ++ ev_of t o r))
          | None => Some (mkP m' (pcs s) (evs s))
          end
      | _ => Some (mkP m' (pcs s) (evs s))
      end
  end.

Definition call (t : nat) (o : pop) (p : pc) (s : psys) : option psys :=
  match set_prog t [o] (mon s) with
  | Some m' => Some (mkP m' (upd t p (pcs s)) (evs s))
  | None => None
  end.

Definition is_done (p : option pc) : bool := match p with Some WDone => true | _ => false end.
(* muduo::Thread::joined_ of worker i, read off the log *)
Definition joined (i : nat) (e : list event) : bool :=
  existsb (fun x => match x with EvJoin _ j => Nat.eqb j i | _ => false end) e.

Definition pstep (nw maxq : nat) (s : psys) (l : plabel) : option psys :=
  match l with
  | LMon l => mon_step maxq s l
  | LLoad t =>
      match pc_at s t with
      | Some WLoop =>
          if running (shared (mon s)) then call t PTake WTake s
          else Some (mkP (mon s) (upd t WDone (pcs s)) (evs s))
      | _ => None
      end
  | LExec t =>
      match pc_at s t with
      | Some (WGot k) => Some (mkP (mon s) (upd t WLoop (pcs s)) (evs s ++ [EvStart t k]))
      | _ => None
      end
  | LNext t =>
      match pc_at s t with
      | Some (CIdle (URun k :: ops)) =>
          if Nat.eqb nw 0 then Some (mkP (mon s) (upd t (CIdle ops) (pcs s)) (evs s ++ [EvInline t k]))
          else call t (PRun k) (CCall ops) s
      | Some (CIdle (USize :: ops)) => call t PSize (CCall ops) s
      | Some (CIdle (UStop :: ops)) => call t PStop (CStopping ops) s
      | _ => None
      end
  | LJoin t =>
      match pc_at s t with
      | Some (CJoin i ops) =>
          if i <? nw then
            (* Thread::join: assert(started_); assert(!joined_); joined_ = true; pthread_join *)
            (if joined i (evs s) then Some (mkP (mon s) (upd t (CFault ops) (pcs s)) (evs s ++ [EvFault t i]))
             else if is_done (pc_at s i) then Some (mkP (mon s) (upd t (CJoin (S i) ops) (pcs s)) (evs s ++ [EvJoin t i]))
             else None)
          else Some (mkP (mon s) (upd t (CIdle ops) (pcs s)) (evs s ++ [EvStopRet t]))
      | _ => None
      end
  | LInit t =>
      match pc_at s t with
      | Some WInit => Some (mkP (mon s) (upd t WLoop (pcs s)) (evs s ++ [EvInit t]))
      | _ => None
      end
  end.

(* threads 0..nw-1 are the workers, nw.. the clients with programs [progs] *)
Definition pinit (nw : nat) (progs : list (list uop)) : psys :=
  mkP (init_sys (mkPool [] true) (repeat [] nw ++ map (fun _ => []) progs))
      (repeat WInit nw ++ map CIdle progs) [].

Inductive preach (nw maxq : nat) (s0 : psys) : psys -> Prop :=
| preach_refl : preach nw maxq s0 s0
| preach_step : forall s l s', preach nw maxq s0 s -> pstep nw maxq s l = Some s' -> preach nw maxq s0 s'.

Fixpoint prun (nw maxq : nat) (s : psys) (ls : list plabel) : option psys :=
  match ls with
  | [] => Some s
  | l :: r => match pstep nw maxq s l with Some s' => prun nw maxq s' r | None => None end
  end.

Definition p_is_spurious (l : plabel) : bool := match l with LMon (LSpurious _) => true | _ => false end.

Definition pnspur (ls : list plabel) : nat := length (filter p_is_spurious ls).
Definition pnonspur (ls : list plabel) : nat := length (filter (fun l => negb (p_is_spurious l)) ls).

(* nothing but spurious wake-ups can happen *)
Definition pquiescent (nw maxq : nat) (s : psys) : Prop :=
  forall l s', pstep nw maxq s l = Some s' -> p_is_spurious l = true.

(* ---------------------------------------------------------------- observations on the event log *)
Definition accepted (e : list event) : list task := flat_map (fun x => match x with EvAccept _ k => [k] | _ => [] end) e.
Definition rejected (e : list event) : list task := flat_map (fun x => match x with EvReject _ k => [k] | _ => [] end) e.
Definition taken (e : list event) : list task := flat_map (fun x => match x with EvTake _ k => [k] | _ => [] end) e.
Definition started (e : list event) : list task := flat_map (fun x => match x with EvStart _ k => [k] | _ => [] end) e.
Definition inlined (e : list event) : list task := flat_map (fun x => match x with EvInline _ k => [k] | _ => [] end) e.
Definition taken_by (t : nat) (e : list event) : list task :=
  flat_map (fun x => match x with EvTake u k => if Nat.eqb u t then [k] else [] | _ => [] end) e.
Definition started_by (t : nat) (e : list event) : list task :=
  flat_map (fun x => match x with EvStart u k => if Nat.eqb u t then [k] else [] | _ => [] end) e.

(* the task a worker holds between take() and the call *)
Definition inhand1 (p : pc) : list task := match p with WGot k => [k] | _ => [] end.
Definition inhand (ps : list pc) : list task := flat_map inhand1 ps.
Definition inhand_at (s : psys) (t : nat) : list task := match pc_at s t with Some p => inhand1 p | None => [] end.

Definition inits (e : list event) : list nat := flat_map (fun x => match x with EvInit t => [t] | _ => [] end) e.
(* what client t's run() calls came to, in order: accepted, rejected or run inline *)
Definition decided_by (t : nat) (e : list event) : list task :=
  flat_map (fun x => match x with
                     | EvAccept u k | EvReject u k | EvInline u k => if Nat.eqb u t then [k] else []
                     | _ => []
                     end) e.
Definition stops_of (ops : list uop) : nat := length (filter (fun o => match o with UStop => true | _ => false end) ops).
Definition total_stops (progs : list (list uop)) : nat := fold_right (fun p a => stops_of p + a) 0 progs.
Definition is_fault (x : event) : bool := match x with EvFault _ _ => true | _ => false end.
Definition is_stopsec (x : event) : bool := match x with EvStopSec _ => true | _ => false end.
Definition is_stopret (x : event) : bool := match x with EvStopRet _ => true | _ => false end.
(* what was logged after the first event satisfying P *)
Fixpoint after (P : event -> bool) (e : list event) : list event :=
  match e with [] => [] | x :: r => if P x then r else after P r end.

Definition not_accept (x : event) : Prop := match x with EvAccept _ _ => False | _ => True end.
Definition after_stop_ok (x : event) : Prop :=
  match x with EvStart _ _ | EvTake _ _ | EvAccept _ _ => False | _ => True end.

(* run(k) calls of a program, of what a client still has to do, of all programs *)
Definition runs_of (ops : list uop) : list task := flat_map (fun o => match o with URun k => [k] | _ => [] end) ops.
Definition submitted (progs : list (list uop)) : list task := flat_map runs_of progs.
Definition pc_ops (p : pc) : list uop :=
  match p with CIdle ops | CCall ops | CStopping ops | CJoin _ ops | CFault ops => ops | _ => [] end.
Definition prog_runs (th : thread pop) : list task :=
  flat_map (fun o => match o with PRun k => [k] | _ => [] end) (prog th).
(* run(k) calls not yet decided: in progress or still to come *)
Definition pending (s : psys) : list task :=
  flat_map (fun x => prog_runs (snd x) ++ runs_of (pc_ops (fst x))) (combine (pcs s) (threads (mon s))).

(* ---------------------------------------------------------------- ranking function *)
Definition uw (o : uop) : nat := match o with URun _ => 2 | _ => 1 end.
Definition pw (o : pop) : nat := match o with PRun _ => 2 | PTake => 0 | _ => 1 end.
Definition wsum {A} (w : A -> nat) (l : list A) : nat := fold_right (fun x a => w x + a) 0 l.
Notation view := (pc * thread pop)%type (only parsing).
Definition views (s : psys) : list view := combine (pcs s) (threads (mon s)).
Definition work1 (v : view) : nat := wsum uw (pc_ops (fst v)) + wsum pw (prog (snd v)).
Definition srank (x : status) : nat := match x with Idle => 6 | InCS => 5 | Waiting _ => 4 | Signalled => 6 end.
Definition prank (nw : nat) (r : bool) (v : view) : nat :=
  match fst v with
  | WLoop => if r then 7 else 1
  | WTake => srank (st (snd v))
  | WGot _ => 8
  | WInit => 9
  | WDone => 0
  | CFault _ => 0
  | CIdle [] => 0
  | CIdle (_ :: _) => 7
  | CCall _ | CStopping _ => srank (st (snd v))
  | CJoin i _ => 10 + (nw - i)
  end.
Definition pwork (s : psys) : nat :=
  wsum work1 (views s) + length (queue (shared (mon s))) + (if running (shared (mon s)) then 1 else 0).
Definition pmeasure (nw : nat) (s : psys) : nat :=
  (length (pcs s) * (10 + nw) + 1) * pwork s + wsum (prank nw (running (shared (mon s)))) (views s).

(* an enabled step that is not a spurious wake-up, if there is one *)
Definition pcan_move (nw maxq : nat) (s : psys) (t : nat) : option plabel :=
  match pstep nw maxq s (LMon (LAcquire t)), pstep nw maxq s (LMon (LBody t [])),
        pstep nw maxq s (LMon (LReacquire t)) with
  | Some _, _, _ => Some (LMon (LAcquire t))
  | _, Some _, _ => Some (LMon (LBody t []))
  | _, _, Some _ => Some (LMon (LReacquire t))
  | None, None, None =>
      match pstep nw maxq s (LLoad t), pstep nw maxq s (LExec t), pstep nw maxq s (LNext t), pstep nw maxq s (LJoin t),
            pstep nw maxq s (LInit t) with
      | Some _, _, _, _, _ => Some (LLoad t)
      | _, Some _, _, _, _ => Some (LExec t)
      | _, _, Some _, _, _ => Some (LNext t)
      | _, _, _, Some _, _ => Some (LJoin t)
      | _, _, _, _, Some _ => Some (LInit t)
      | None, None, None, None, None => None
      end
  end.
Definition psome_move (nw maxq : nat) (s : psys) : option plabel :=
  fold_right (fun t acc => match pcan_move nw maxq s t with Some l => Some l | None => acc end) None
             (seq 0 (length (pcs s))).
