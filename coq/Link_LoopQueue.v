(* Link_LoopQueue (L2a): the functor-queue behaviour of ONE C09 loop iteration
   (C09_Model.loop_iter_full_env: swap, run in order, functors queued during the batch wake the
   loop) is a schedule of C04_Model's micro-step transition system: the loop thread's steps L3..L7
   of DESIGN B.2 (poll return, handleRead of the wake-up channel, callback, swap, batch) with no
   foreign thread moving in between; a task queued from another thread between two iterations
   (C09's XQueue) is the foreign thread's two micro-steps (MQueue, MWakeTest) while the loop thread
   sits in poll.  And C09's run invariant pend_inv (queue non-empty => wake-up counter non-zero at
   every poll) is C04's NoStall invariant read at the poll.

   Names used from other owners' files (read-only):
     C04_Model : shape(wake) scripts act(AQueue) mop(MQueue,MWakeTest) ev(ESub,EWake,EExecQ) shared(mkG ..)
                 lpc(..) st(mkSt ..) label(TLoop,TRead,TF) step run exec_mop expand expand_all poll_ready
                 execq upd set_flags will_drain midwake code_ctx head_is_wake
     C04_Proofs: NoStall
     C09_Model : res(Ok) bind kenv(k_wake..) apply_effects wake_add fnbody functors_queued run_functors
                 run_ops loop_iter loop_iter_full loop_iter_full_env ext(XQueue) apply_ext
     C09_ProofsLoop: pend_inv *)
From Coq Require Import List Bool Arith NArith ZArith Lia.
Import ListNotations.
From Muduo Require C04_Model C04_Proofs C09_Model C09_ProofsLoop.

Module L := Muduo.C04_Model.
Module LP := Muduo.C04_Proofs.
Module P := Muduo.C09_Model.
Module PP := Muduo.C09_ProofsLoop.

(* ========================================================================================== *)
(* 1. C09 side: the queue / wake-up projection of one iteration                                 *)
(* ========================================================================================== *)
(* (functors run, functors left pending, wake-up counter afterwards) as a function of: the wake-up
   guard qw of queueInLoop, what each functor queues (fb), the wake-up counter w1 after the
   callbacks' effects, the queue at poll time, and what the callbacks of the batch queued (hqs) *)
Definition q_iter (qw : bool -> bool -> bool -> bool) (fb : P.fnbody) (w1 : N)
  (pending hqs : list nat) : list nat * list nat * N :=
  let ran := pending ++ hqs in
  let pend' := P.functors_queued fb ran in
  (ran, pend',
   (w1 + (if qw true false true then N.of_nat (length hqs) else 0)
       + (if qw true true true then N.of_nat (length pend') else 0))%N).

Lemma run_functors_queued S step fb : forall ids st st' q,
  P.run_functors S step fb st ids = P.Ok (st', q) -> q = P.functors_queued fb ids.
Proof.
  induction ids as [|i t IH]; intros st st' q H; cbn [P.run_functors] in H.
  - injection H as _ <-. reflexivity.
  - destruct (P.run_ops S step st (fst (fb i))) as [st1| |]; cbn [P.bind] in H; try discriminate.
    destruct (P.run_functors S step fb st1 t) as [[st2 q2]| |] eqn:E; cbn [P.bind fst snd] in H; try discriminate.
    injection H as _ <-. unfold P.functors_queued. cbn [flat_map]. f_equal. exact (IH _ _ _ E).
Qed.

Theorem c09_iteration_queue_view S step h hq fb runs eff qw wfd tfd st e pending choice st' e' pend' act log ran :
  P.loop_iter_full_env S step h hq fb runs eff qw wfd tfd st e pending choice
    = P.Ok (st', e', pend', (act, log, ran)) ->
  (ran, pend', P.k_wake e') =
  q_iter qw fb (P.k_wake (P.apply_effects eff log e)) pending (flat_map (fun ck => hq (fst ck) (snd ck)) log).
Proof.
  unfold P.loop_iter_full_env, P.loop_iter_full. intros H.
  destruct (P.loop_iter S step h runs st (P.env_ready wfd tfd e) choice) as [[[st1 act1] log1]| |];
    cbn [P.bind fst snd] in H; try discriminate.
  destruct (P.run_functors S step fb st1 (pending ++ flat_map (fun ck => hq (fst ck) (snd ck)) log1))
    as [[st2 q2]| |] eqn:E; cbn [P.bind fst snd] in H; try discriminate.
  injection H as <- <- <- <- <- <-. apply run_functors_queued in E. subst q2.
  unfold q_iter. f_equal.
  destruct (qw true false true), (qw true true true); unfold P.wake_add; cbn [P.k_wake]; lia.
Qed.

(* ========================================================================================== *)
(* 2. C04 side: the loop thread alone, from the poll to the end of the batch                    *)
(* ========================================================================================== *)
Definition loop_only (labs : list L.label) : Prop :=
  Forall (fun l => l = L.TLoop \/ l = L.TRead) labs.

Lemma run_app sh scr labs1 : forall labs2 s,
  L.run sh scr s (labs1 ++ labs2) =
  match L.run sh scr s labs1 with Some s' => L.run sh scr s' labs2 | None => None end.
Proof.
  induction labs1 as [|l r IH]; intros labs2 s; [reflexivity|].
  cbn [app L.run]. destruct (L.step sh scr s l); [apply IH|reflexivity].
Qed.

Lemma loop_only_app a b : loop_only a -> loop_only b -> loop_only (a ++ b).
Proof. apply Forall_app_intro || (intros; apply Forall_app; auto). Qed.

Lemma loop_only_repeat n : loop_only (repeat L.TLoop n).
Proof. induction n; constructor; auto. Qed.

(* the history a sequence of queueInLoop calls of thread [who] leaves *)
Definition qlog (w : bool) (who : nat) (ts : list nat) : list L.ev :=
  flat_map (fun t => L.ESub who t :: (if w then [L.EWake who] else [])) ts.

Lemma execq_qlog w who ts : L.execq (qlog w who ts) = [].
Proof. induction ts as [|t r IH]; [reflexivity|]. cbn. destruct w; cbn; exact IH. Qed.

Lemma execq_app a b : L.execq (a ++ b) = L.execq a ++ L.execq b.
Proof. unfold L.execq. apply flat_map_app. Qed.

Lemma expand_queues ts : L.expand_all true (map L.AQueue ts) = map L.MQueue ts.
Proof. induction ts as [|t r IH]; [reflexivity|]. cbn. f_equal. exact IH. Qed.

(* a piece of loop-thread code that only queues: two micro-steps per task *)
Lemma run_qcode sh scr ts : forall g pc rest ln fc, L.code_ctx pc = true ->
  let w := L.wake sh true (L.calling g) (L.looping g) in
  L.run sh scr (L.mkSt g pc (map L.MQueue ts ++ rest) ln fc) (repeat L.TLoop (2 * length ts)) =
  Some (L.mkSt (L.mkG (L.pending g ++ ts) (L.evfd g + (if w then length ts else 0)) (L.evq g) (L.quit g)
                      (L.calling g) (L.looping g) (L.log g ++ qlog w 0 ts)) pc rest ln fc).
Proof.
  induction ts as [|t r IH]; intros g pc rest ln fc Hc w.
  - cbn. destruct g; cbn. rewrite !app_nil_r, Nat.add_0_r. destruct w; reflexivity.
  - replace (2 * length (t :: r)) with (S (S (2 * length r))) by (cbn [length]; lia).
    cbn [repeat map app L.run].
    assert (E1 : L.step sh scr (L.mkSt g pc (L.MQueue t :: map L.MQueue r ++ rest) ln fc) L.TLoop =
                 Some (L.mkSt (L.mkG (L.pending g ++ [t]) (L.evfd g) (L.evq g) (L.quit g) (L.calling g) (L.looping g)
                                     (L.log g ++ [L.ESub 0 t])) pc (L.MWakeTest :: map L.MQueue r ++ rest) ln fc)).
    { destruct pc; try discriminate; reflexivity. }
    rewrite E1.
    set (g1 := L.mkG (L.pending g ++ [t]) (L.evfd g) (L.evq g) (L.quit g) (L.calling g) (L.looping g)
                     (L.log g ++ [L.ESub 0 t])).
    assert (E2 : L.step sh scr (L.mkSt g1 pc (L.MWakeTest :: map L.MQueue r ++ rest) ln fc) L.TLoop =
                 Some (L.mkSt (if w then L.mkG (L.pending g1) (S (L.evfd g1)) (L.evq g1) (L.quit g1) (L.calling g1)
                                                (L.looping g1) (L.log g1 ++ [L.EWake 0]) else g1)
                              pc (map L.MQueue r ++ rest) ln fc)).
    { destruct pc; try discriminate; cbn [L.step L.sg L.pc L.lcode L.exec_mop L.calling L.looping g1];
        fold w; destruct w; reflexivity. }
    rewrite E2. subst g1. fold w.
    destruct w eqn:Ew.
    + rewrite IH by exact Hc. cbn [L.pending L.evfd L.evq L.quit L.calling L.looping L.log].
      fold w. rewrite Ew. cbn [qlog flat_map]. rewrite <- !app_assoc. cbn [app length].
      do 2 f_equal. f_equal. lia.
    + rewrite IH by exact Hc. cbn [L.pending L.evfd L.evq L.quit L.calling L.looping L.log].
      fold w. rewrite Ew. cbn [qlog flat_map]. rewrite <- !app_assoc. cbn [app length].
      do 2 f_equal. f_equal. lia.
Qed.
