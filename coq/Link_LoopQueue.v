(* Link_LoopQueue (L2a): the functor-queue behaviour of ONE C09 loop iteration
   (C09_Model.loop_iter_full_env: swap, run in order, functors queued during the batch wake the
   loop) is a schedule of C04_Model's micro-step transition system: the loop thread's steps L3..L7
   of DESIGN B.2 (poll return, handleRead of the wake-up channel, callback, swap, batch) with no
   foreign thread moving in between; a task queued from another thread between two iterations
   (C09's XQueue) is the foreign thread's two micro-steps (MQueue, MWakeTest) while the loop thread
   sits in poll.  And C09's run invariant pend_inv (queue non-empty => wake-up counter non-zero at
   every poll) is C04's NoStall invariant read at the poll.

   Names used from other owners' files (read-only):
     C04_Model : shape(wake) scripts act(AQueue) mop(MQueue,MWakeTest) ev(ESub,EWake,EExecQ) shared(mkG ..)
                 lpc(..) st(mkSt ..) label(TLoop,TRead,TF) step run exec_mop expand expand_all poll_ready
                 execq upd set_flags will_drain midwake code_ctx head_is_wake
     C04_Proofs: NoStall
     C09_Model : res(Ok) bind kenv(k_wake..) apply_effects wake_add fnbody functors_queued run_functors
                 run_ops loop_iter loop_iter_full loop_iter_full_env ext(XQueue) apply_ext
     C09_ProofsLoop: pend_inv *)
From Coq Require Import List Bool Arith NArith ZArith Lia.
Import ListNotations.
From Muduo Require C04_Model C04_Proofs C09_Model C09_ProofsLoop.

Module L := Muduo.C04_Model.
Module LP := Muduo.C04_Proofs.
Module P := Muduo.C09_Model.
Module PP := Muduo.C09_ProofsLoop.

(* ========================================================================================== *)
(* 1. C09 side: the queue / wake-up projection of one iteration                                 *)
(* ========================================================================================== *)
(* (functors run, functors left pending, wake-up counter afterwards) as a function of: the wake-up
   guard qw of queueInLoop, what each functor queues (fb), the wake-up counter w1 after the
   callbacks' effects, the queue at poll time, and what the callbacks of the batch queued (hqs) *)
Definition q_iter (qw : bool -> bool -> bool -> bool) (fb : P.fnbody) (w1 : N)
  (pending hqs : list nat) : list nat * list nat * N :=
  let ran := pending ++ hqs in
  let pend' := P.functors_queued fb ran in
  (ran, pend',
   (w1 + (if qw true false true then N.of_nat (length hqs) else 0)
       + (if qw true true true then N.of_nat (length pend') else 0))%N).

Lemma run_functors_queued S step fb : forall ids st st' q,
  P.run_functors S step fb st ids = P.Ok (st', q) -> q = P.functors_queued fb ids.
Proof.
  induction ids as [|i t IH]; intros st st' q H; cbn [P.run_functors] in H.
  - injection H as _ <-. reflexivity.
  - destruct (P.run_ops S step st (fst (fb i))) as [st1| |]; cbn [P.bind] in H; try discriminate.
    destruct (P.run_functors S step fb st1 t) as [[st2 q2]| |] eqn:E; cbn [P.bind fst snd] in H; try discriminate.
    injection H as _ <-. unfold P.functors_queued. cbn [flat_map]. f_equal. exact (IH _ _ _ E).
Qed.

Theorem c09_iteration_queue_view S step h hq fb runs eff qw wfd tfd st e pending choice st' e' pend' act log ran :
  P.loop_iter_full_env S step h hq fb runs eff qw wfd tfd st e pending choice
    = P.Ok (st', e', pend', (act, log, ran)) ->
  (ran, pend', P.k_wake e') =
  q_iter qw fb (P.k_wake (P.apply_effects eff log e)) pending (flat_map (fun ck => hq (fst ck) (snd ck)) log).
Proof.
  unfold P.loop_iter_full_env, P.loop_iter_full. intros H.
  destruct (P.loop_iter S step h runs st (P.env_ready wfd tfd e) choice) as [[[st1 act1] log1]| |];
    cbn [P.bind fst snd] in H; try discriminate.
  destruct (P.run_functors S step fb st1 (pending ++ flat_map (fun ck => hq (fst ck) (snd ck)) log1))
    as [[st2 q2]| |] eqn:E; cbn [P.bind fst snd] in H; try discriminate.
  injection H as <- <- <- <- <- <-. apply run_functors_queued in E. subst q2.
  unfold q_iter. f_equal.
  destruct (qw true false true), (qw true true true); unfold P.wake_add; cbn [P.k_wake]; lia.
Qed.

(* ========================================================================================== *)
(* 2. C04 side: the loop thread alone, from the poll to the end of the batch                    *)
(* ========================================================================================== *)
Definition loop_only (labs : list L.label) : Prop :=
  Forall (fun l => l = L.TLoop \/ l = L.TRead) labs.

Lemma run_app sh scr labs1 : forall labs2 s,
  L.run sh scr s (labs1 ++ labs2) =
  match L.run sh scr s labs1 with Some s' => L.run sh scr s' labs2 | None => None end.
Proof.
  induction labs1 as [|l r IH]; intros labs2 s; [reflexivity|].
  cbn [app L.run]. destruct (L.step sh scr s l); [apply IH|reflexivity].
Qed.

Lemma loop_only_app a b : loop_only a -> loop_only b -> loop_only (a ++ b).
Proof. apply Forall_app_intro || (intros; apply Forall_app; auto). Qed.

Lemma loop_only_repeat n : loop_only (repeat L.TLoop n).
Proof. induction n; constructor; auto. Qed.

Ltac lo := unfold loop_only; repeat (apply Forall_cons; [auto|]); apply Forall_nil.

(* the history a sequence of queueInLoop calls of thread [who] leaves *)
Definition qlog (w : bool) (who : nat) (ts : list nat) : list L.ev :=
  flat_map (fun t => L.ESub who t :: (if w then [L.EWake who] else [])) ts.

Lemma execq_qlog w who ts : L.execq (qlog w who ts) = [].
Proof. induction ts as [|t r IH]; [reflexivity|]. cbn. destruct w; cbn; exact IH. Qed.

Lemma execq_app a b : L.execq (a ++ b) = L.execq a ++ L.execq b.
Proof. unfold L.execq. apply flat_map_app. Qed.

Lemma expand_queues ts : L.expand_all true (map L.AQueue ts) = map L.MQueue ts.
Proof. induction ts as [|t r IH]; [reflexivity|]. cbn. f_equal. exact IH. Qed.

(* a piece of loop-thread code that only queues: two micro-steps per task *)
Lemma run_qcode sh scr ts : forall g pc rest ln fc, L.code_ctx pc = true ->
  let w := L.wake sh true (L.calling g) (L.looping g) in
  L.run sh scr (L.mkSt g pc (map L.MQueue ts ++ rest) ln fc) (repeat L.TLoop (2 * length ts)) =
  Some (L.mkSt (L.mkG (L.pending g ++ ts) (L.evfd g + (if w then length ts else 0)) (L.evq g) (L.quit g)
                      (L.calling g) (L.looping g) (L.log g ++ qlog w 0 ts)) pc rest ln fc).
Proof.
  induction ts as [|t r IH]; intros g pc rest ln fc Hc w.
  - subst w. destruct g as [p0 e0 q0 qt0 c0 l0 lg0]; cbn. destruct (L.wake sh true c0 l0); rewrite !app_nil_r, Nat.add_0_r; reflexivity.
  - replace (2 * length (t :: r)) with (S (S (2 * length r))) by (cbn [length]; lia).
    cbn [repeat map app L.run].
    assert (E1 : L.step sh scr (L.mkSt g pc (L.MQueue t :: map L.MQueue r ++ rest) ln fc) L.TLoop =
                 Some (L.mkSt (L.mkG (L.pending g ++ [t]) (L.evfd g) (L.evq g) (L.quit g) (L.calling g) (L.looping g)
                                     (L.log g ++ [L.ESub 0 t])) pc (L.MWakeTest :: map L.MQueue r ++ rest) ln fc)).
    { destruct pc as [| | |wk| |b| |]; try discriminate; [|destruct wk|destruct b]; reflexivity. }
    rewrite E1.
    set (g1 := L.mkG (L.pending g ++ [t]) (L.evfd g) (L.evq g) (L.quit g) (L.calling g) (L.looping g)
                     (L.log g ++ [L.ESub 0 t])).
    assert (E2 : L.step sh scr (L.mkSt g1 pc (L.MWakeTest :: map L.MQueue r ++ rest) ln fc) L.TLoop =
                 Some (L.mkSt (if w then L.mkG (L.pending g1) (S (L.evfd g1)) (L.evq g1) (L.quit g1) (L.calling g1)
                                                (L.looping g1) (L.log g1 ++ [L.EWake 0]) else g1)
                              pc (map L.MQueue r ++ rest) ln fc)).
    { destruct pc as [| | |wk| |b| |]; try discriminate; [|destruct wk|destruct b];
        cbn [L.step L.sg L.pc L.lcode L.exec_mop L.calling L.looping g1];
        fold w; destruct w; reflexivity. }
    rewrite E2. subst g1. fold w.
    destruct w eqn:Ew.
    + rewrite IH by exact Hc. cbn [L.pending L.evfd L.evq L.quit L.calling L.looping L.log].
      fold w. rewrite Ew. cbn [qlog flat_map length]. rewrite <- !app_assoc. cbn [app].
      replace (S (L.evfd g) + length r) with (L.evfd g + S (length r)) by lia. reflexivity.
    + rewrite IH by exact Hc. cbn [L.pending L.evfd L.evq L.quit L.calling L.looping L.log].
      fold w. rewrite Ew. cbn [qlog flat_map length]. rewrite <- !app_assoc. cbn [app]. reflexivity.
Qed.

(* scripts that only queue: script n = [queueInLoop (q n)_1; queueInLoop (q n)_2; ...] *)
Definition pure_q (scr : L.scripts) (q : nat -> list nat) : Prop := forall n, scr n = map L.AQueue (q n).

(* the history the batch b leaves: each functor is started (EExecQ) and queues what q says *)
Definition blog (w : bool) (q : nat -> list nat) (b : list nat) : list L.ev :=
  flat_map (fun t => L.EExecQ t :: qlog w 0 (q t)) b.

Lemma execq_blog w q b : L.execq (blog w q b) = b.
Proof.
  induction b as [|t r IH]; [reflexivity|]. unfold blog. cbn [flat_map].
  rewrite execq_app. fold (blog w q r). rewrite IH.
  change (L.execq (L.EExecQ t :: qlog w 0 (q t))) with (t :: L.execq (qlog w 0 (q t))).
  rewrite execq_qlog. reflexivity.
Qed.

Lemma run_batch sh scr q : pure_q scr q -> forall b g ln fc,
  let w := L.wake sh true (L.calling g) (L.looping g) in
  exists labs, loop_only labs /\
    L.run sh scr (L.mkSt g (L.LRun b) [] ln fc) labs =
    Some (L.mkSt (L.mkG (L.pending g ++ flat_map q b) (L.evfd g + (if w then length (flat_map q b) else 0))
                        (L.evq g) (L.quit g) (L.calling g) (L.looping g) (L.log g ++ blog w q b))
                 (L.LRun []) [] ln fc).
Proof.
  intros Hq. induction b as [|t b IH]; intros g ln fc w.
  - exists []. split; [constructor|]. subst w. destruct g as [p0 e0 q0 qt0 c0 l0 lg0]; cbn.
    destruct (L.wake sh true c0 l0); rewrite !app_nil_r, Nat.add_0_r; reflexivity.
  - set (g1 := L.mkG (L.pending g) (L.evfd g) (L.evq g) (L.quit g) (L.calling g) (L.looping g)
                     (L.log g ++ [L.EExecQ t])).
    assert (E1 : L.step sh scr (L.mkSt g (L.LRun (t :: b)) [] ln fc) L.TLoop =
                 Some (L.mkSt g1 (L.LRun b) (map L.MQueue (q t) ++ []) ln fc)).
    { cbn [L.step L.sg L.pc L.lcode]. rewrite (Hq t), expand_queues, app_nil_r. reflexivity. }
    pose proof (run_qcode sh scr (q t) g1 (L.LRun b) [] ln fc eq_refl) as E2. cbn zeta in E2.
    set (g2 := L.mkG (L.pending g1 ++ q t)
                     (L.evfd g1 + (if L.wake sh true (L.calling g1) (L.looping g1) then length (q t) else 0))
                     (L.evq g1) (L.quit g1) (L.calling g1) (L.looping g1)
                     (L.log g1 ++ qlog (L.wake sh true (L.calling g1) (L.looping g1)) 0 (q t))) in *.
    destruct (IH g2 ln fc) as (labs & Hl & E3).
    exists (L.TLoop :: repeat L.TLoop (2 * length (q t)) ++ labs). split.
    + constructor; [auto|]. apply loop_only_app; [apply loop_only_repeat|exact Hl].
    + cbn [L.run]. rewrite E1, run_app, E2, E3. subst g2 g1.
      cbn [L.pending L.evfd L.evq L.quit L.calling L.looping L.log]. fold w.
      cbn [flat_map]. unfold blog. cbn [flat_map]. rewrite app_length.
      destruct w; rewrite <- !app_assoc; cbn [app]; do 3 f_equal; lia.
Qed.

Lemma step_poll_event sh scr g c0 ln fc k r : L.evq g = k :: r ->
  L.step sh scr (L.mkSt g L.LPoll c0 ln fc) L.TLoop =
  Some (L.mkSt (L.mkG (L.pending g) (L.evfd g) r (L.quit g) (L.calling g) (L.looping g) (L.log g))
               (L.LHandle (0 <? L.evfd g)) (L.expand_all true (scr k)) ln fc).
Proof.
  intros E. cbn [L.step L.sg L.pc L.lcode]. unfold L.poll_ready. rewrite E. rewrite orb_true_r. reflexivity.
Qed.

Lemma step_poll_wake sh scr g c0 ln fc : L.evq g = [] -> 0 < L.evfd g ->
  L.step sh scr (L.mkSt g L.LPoll c0 ln fc) L.TLoop = Some (L.mkSt g (L.LHandle true) [] ln fc).
Proof.
  intros E H. cbn [L.step L.sg L.pc L.lcode]. unfold L.poll_ready. rewrite E.
  destruct (Nat.ltb_spec 0 (L.evfd g)); [reflexivity|lia].
Qed.

(* THE LOOP THREAD'S ITERATION, steps L3..L7 of DESIGN B.2 with no foreign thread in between:
   poll returns (an event k is ready and/or the wake-up descriptor is readable), handleRead drains
   the wake-up descriptor, the callback of k queues hqs, callingPendingFunctors_ := true, the queue
   is swapped out, the batch [ran] = queue at poll time ++ hqs runs in order, each functor queueing
   what q says (and waking as the guard says), callingPendingFunctors_ := false. *)
Theorem c04_iteration sh scr q : pure_q scr q -> forall g c0 ln fc,
  L.calling g = false -> L.looping g = true -> L.poll_ready g = true ->
  let hqs := match L.evq g with k :: _ => q k | [] => [] end in
  let w1 := L.wake sh true false true in
  let w2 := L.wake sh true true true in
  let ran := L.pending g ++ hqs in
  let pend' := flat_map q ran in
  exists labs, loop_only labs /\
    L.run sh scr (L.mkSt g L.LPoll c0 ln fc) labs =
    Some (L.mkSt (L.mkG pend' ((if w1 then length hqs else 0) + (if w2 then length pend' else 0))
                        (tl (L.evq g)) (L.quit g) false true
                        (L.log g ++ qlog w1 0 hqs ++ blog w2 q ran))
                 L.LTest [] ln fc).
Proof.
  intros Hq g c0 ln fc Hc Hl Hp hqs w1 w2 ran pend'.
  destruct g as [p0 e0 q0 qt0 cl0 lo0 lg0]. cbn [L.calling L.looping L.evq L.pending L.quit L.log] in *. subst cl0 lo0.
  (* phase 1: poll return, handleRead, callback: reach LHandle false with empty code *)
  assert (Ph1 : exists labs1, loop_only labs1 /\
            L.run sh scr (L.mkSt (L.mkG p0 e0 q0 qt0 false true lg0) L.LPoll c0 ln fc) labs1 =
            Some (L.mkSt (L.mkG (p0 ++ hqs) (if w1 then length hqs else 0) (tl q0) qt0 false true
                                (lg0 ++ qlog w1 0 hqs)) (L.LHandle false) [] ln fc)).
  { destruct q0 as [|k r].
    - (* only the wake-up descriptor is readable *)
      unfold L.poll_ready in Hp. cbn [L.evfd L.evq negb orb] in Hp. rewrite orb_false_r in Hp.
      apply Nat.ltb_lt in Hp.
      exists [L.TLoop; L.TRead]. split; [lo|].
      cbn [L.run]. rewrite step_poll_wake by (cbn; auto). cbn [L.step L.sg L.pc L.lcode L.lnext L.fcode
        L.pending L.evq L.quit L.calling L.looping L.log].
      subst hqs. cbn [tl length qlog flat_map]. rewrite !app_nil_r. destruct w1; reflexivity.
    - pose proof (run_qcode sh scr (q k)) as RQ.
      destruct (Nat.ltb_spec 0 e0) as [Hpos|Hz].
      + exists (L.TLoop :: L.TRead :: repeat L.TLoop (2 * length (q k))). split.
        { constructor; [auto|]. constructor; [auto|]. apply loop_only_repeat. }
        cbn [L.run]. rewrite (step_poll_event sh scr (L.mkG p0 e0 (k :: r) qt0 false true lg0) c0 ln fc k r eq_refl).
        cbn [L.evfd L.pending L.quit L.calling L.looping L.log].
        destruct (Nat.ltb_spec 0 e0) as [_|]; [|lia].
        cbn [L.step L.sg L.pc L.lcode L.lnext L.fcode L.pending L.evq L.quit L.calling L.looping L.log].
        rewrite (Hq k), expand_queues, <- (app_nil_r (map L.MQueue (q k))).
        rewrite RQ by reflexivity. cbn [L.pending L.evfd L.evq L.quit L.calling L.looping L.log].
        subst hqs. cbn [tl]. fold w1. reflexivity.
      + assert (e0 = 0) by lia. subst e0.
        exists (L.TLoop :: repeat L.TLoop (2 * length (q k))). split.
        { constructor; [auto|]. apply loop_only_repeat. }
        cbn [L.run]. rewrite (step_poll_event sh scr (L.mkG p0 0 (k :: r) qt0 false true lg0) c0 ln fc k r eq_refl).
        cbn [L.evfd L.pending L.quit L.calling L.looping L.log Nat.ltb Nat.leb].
        rewrite (Hq k), expand_queues, <- (app_nil_r (map L.MQueue (q k))).
        rewrite RQ by reflexivity. cbn [L.pending L.evfd L.evq L.quit L.calling L.looping L.log].
        subst hqs. cbn [tl]. fold w1. reflexivity. }
  destruct Ph1 as (labs1 & Hl1 & E1).
  (* phase 2: callingPendingFunctors_ = true; swap; batch; callingPendingFunctors_ = false *)
  set (g3 := L.mkG [] (if w1 then length hqs else 0) (tl q0) qt0 true true (lg0 ++ qlog w1 0 hqs)).
  destruct (run_batch sh scr q Hq ran g3 ln fc) as (labs3 & Hl3 & E3).
  exists (labs1 ++ [L.TLoop; L.TLoop] ++ labs3 ++ [L.TLoop]). split.
  { apply loop_only_app; [exact Hl1|]. apply loop_only_app; [lo|].
    apply loop_only_app; [exact Hl3|lo]. }
  rewrite run_app, E1. rewrite run_app. cbn [L.run L.step L.sg L.pc L.lcode L.lnext L.fcode L.set_flags
    L.pending L.evfd L.evq L.quit L.calling L.looping L.log].
  fold ran. fold g3. rewrite run_app, E3. subst g3.
  cbn [L.run L.step L.sg L.pc L.lcode L.lnext L.fcode L.set_flags
       L.pending L.evfd L.evq L.quit L.calling L.looping L.log app].
  fold w2. fold pend'. rewrite <- app_assoc. reflexivity.
Qed.

(* ========================================================================================== *)
(* 3. The link                                                                                  *)
(* ========================================================================================== *)
(* what is related: a C04 state whose loop thread is about to poll (steady state of loop():
   not draining, looping) and the (environment, queue) pair C09's run carries from one iteration
   to the next: same wake-up counter, same queue *)
Record Rq (s : L.st) (e : P.kenv) (p : list nat) : Prop := {
  rq_pc : L.pc s = L.LPoll;
  rq_calling : L.calling (L.sg s) = false;
  rq_looping : L.looping (L.sg s) = true;
  rq_wake : N.of_nat (L.evfd (L.sg s)) = P.k_wake e;
  rq_pending : L.pending (L.sg s) = p }.

Lemma functors_queued_q fb q ids : (forall i, In i ids -> snd (fb i) = q i) -> P.functors_queued fb ids = flat_map q ids.
Proof.
  unfold P.functors_queued. induction ids as [|i r IH]; intros H; [reflexivity|].
  cbn [flat_map]. rewrite (H i (or_introl eq_refl)), IH; [reflexivity|]. intros j Hj. apply H. now right.
Qed.

(* L2a, HEADLINE.  Whatever back-end, channels, callbacks and Channel-API calls are involved: the
   queue behaviour C09 attributes to one iteration is what the loop thread of C04's transition
   system does between its poll and the end of its batch when no foreign thread moves - same batch
   in the same order, same left-over queue, same wake-up counter.  Hypotheses: the wake-up guard is
   the same function (qw = wake sh); functors and callbacks only queue (pure_q; what functor i
   queues is q i on both sides); the batch's callbacks queue what the event C04 dispatches queues;
   C04's poll has a reason to return; handleRead drains the wake-up descriptor. *)
Theorem c09_iteration_is_c04_schedule S step h hq fb runs eff wfd tfd sh scr q s st e pending choice
    st' e' pend' act log ran :
  P.loop_iter_full_env S step h hq fb runs eff (L.wake sh) wfd tfd st e pending choice
    = P.Ok (st', e', pend', (act, log, ran)) ->
  Rq s e pending ->
  pure_q scr q -> (forall i, In i ran -> snd (fb i) = q i) ->
  flat_map (fun ck => hq (fst ck) (snd ck)) log = (match L.evq (L.sg s) with k :: _ => q k | [] => [] end) ->
  L.poll_ready (L.sg s) = true ->
  P.k_wake (P.apply_effects eff log e) = 0%N ->
  exists labs s', loop_only labs /\ L.run sh scr s labs = Some s' /\
    L.pc s' = L.LTest /\ L.lcode s' = [] /\
    L.calling (L.sg s') = false /\ L.looping (L.sg s') = true /\
    L.fcode s' = L.fcode s /\ L.lnext s' = L.lnext s /\ L.quit (L.sg s') = L.quit (L.sg s) /\
    L.evq (L.sg s') = tl (L.evq (L.sg s)) /\
    N.of_nat (L.evfd (L.sg s')) = P.k_wake e' /\
    L.pending (L.sg s') = pend' /\
    L.execq (L.log (L.sg s')) = L.execq (L.log (L.sg s)) ++ ran.
Proof.
  intros Hit [Hpc Hcal Hloop Hw Hp] Hq Hfb Hhq Hready Hdr.
  apply c09_iteration_queue_view in Hit. rewrite Hdr, Hhq in Hit. unfold q_iter in Hit.
  assert (Hran : ran = pending ++ match L.evq (L.sg s) with k :: _ => q k | [] => [] end) by congruence.
  rewrite Hran in Hfb. rewrite (functors_queued_q fb q _ Hfb) in Hit.
  destruct s as [g pc lc ln fc]. cbn [L.sg L.pc L.lcode L.lnext L.fcode] in *. subst pc pending.
  destruct (c04_iteration sh scr q Hq g lc ln fc Hcal Hloop Hready) as (labs & Hlo & Hrun).
  cbn zeta in Hrun. eexists labs, _. split; [exact Hlo|]. split; [exact Hrun|].
  cbn [L.sg L.pc L.lcode L.lnext L.fcode L.pending L.evfd L.evq L.quit L.calling L.looping L.log].
  injection Hit as -> -> ->.
  repeat split.
  - destruct (L.wake sh true false true), (L.wake sh true true true); lia.
  - rewrite !execq_app, execq_qlog, execq_blog. reflexivity.
Qed.

(* after the batch the loop thread tests quit_ and polls again: the relation is re-established *)
Lemma c04_test_to_poll sh scr s e p :
  L.pc s = L.LTest -> L.quit (L.sg s) = false -> L.calling (L.sg s) = false -> L.looping (L.sg s) = true ->
  N.of_nat (L.evfd (L.sg s)) = P.k_wake e -> L.pending (L.sg s) = p ->
  exists s', L.step sh scr s L.TLoop = Some s' /\ Rq s' e p /\ L.sg s' = L.sg s /\ L.fcode s' = L.fcode s.
Proof.
  intros Hpc Hq Hc Hl Hw Hp. destruct s as [g pc lc ln fc]. cbn [L.sg L.pc] in *. subst pc.
  cbn [L.step L.sg L.pc L.lcode]. rewrite Hq. eexists. split; [reflexivity|].
  split; [constructor; cbn [L.sg L.pc]; auto|split; reflexivity].
Qed.

Lemma nth_error_upd {A} (l : list A) : forall i x y, nth_error l i = Some y -> nth_error (L.upd l i x) i = Some x.
Proof.
  induction l as [|a r IH]; intros [|i] x y H; cbn in *; try discriminate; [reflexivity|].
  exact (IH i x y H).
Qed.

(* C09's external event "a task is queued from another thread between two iterations" is the
   foreign thread's two micro-steps while the loop thread is in poll: the append (one critical
   section) and the guarded wakeup(); same queue, same wake-up counter afterwards *)
Theorem c09_xqueue_is_c04_foreign sh scr s e p i j rest :
  Rq s e p -> nth_error (L.fcode s) j = Some (L.MQueue i :: rest) ->
  exists s', L.run sh scr s [L.TF j; L.TF j] = Some s' /\
    Rq s' (fst (P.apply_ext (L.wake sh) (e, p) (P.XQueue i))) (snd (P.apply_ext (L.wake sh) (e, p) (P.XQueue i))) /\
    nth_error (L.fcode s') j = Some rest /\
    L.execq (L.log (L.sg s')) = L.execq (L.log (L.sg s)).
Proof.
  intros [Hpc Hcal Hloop Hw Hp] Hn. destruct s as [g pc lc ln fc]. cbn [L.sg L.pc L.fcode] in *. subst pc.
  set (g1 := L.mkG (L.pending g ++ [i]) (L.evfd g) (L.evq g) (L.quit g) (L.calling g) (L.looping g)
                   (L.log g ++ [L.ESub (S j) i])).
  set (fc1 := L.upd fc j (L.MWakeTest :: rest)).
  assert (E1 : L.step sh scr (L.mkSt g L.LPoll lc ln fc) (L.TF j) = Some (L.mkSt g1 L.LPoll lc ln fc1)).
  { cbn [L.step L.sg L.pc L.lcode L.lnext L.fcode]. rewrite Hn. reflexivity. }
  assert (Hn1 : nth_error fc1 j = Some (L.MWakeTest :: rest)) by (eapply nth_error_upd; exact Hn).
  set (g2 := if L.wake sh false false true
             then L.mkG (L.pending g1) (S (L.evfd g1)) (L.evq g1) (L.quit g1) (L.calling g1) (L.looping g1)
                        (L.log g1 ++ [L.EWake (S j)])
             else g1).
  assert (E2 : L.step sh scr (L.mkSt g1 L.LPoll lc ln fc1) (L.TF j) = Some (L.mkSt g2 L.LPoll lc ln (L.upd fc1 j rest))).
  { cbn [L.step L.sg L.pc L.lcode L.lnext L.fcode]. rewrite Hn1. cbn [L.exec_mop].
    subst g2 g1. cbn [L.calling L.looping]. rewrite Hcal, Hloop.
    destruct (L.wake sh false false true); reflexivity. }
  exists (L.mkSt g2 L.LPoll lc ln (L.upd fc1 j rest)). split; [cbn [L.run]; rewrite E1, E2; reflexivity|].
  cbn [P.apply_ext fst snd L.sg L.fcode].
  split; [|split; [eapply nth_error_upd; exact Hn1|]].
  - subst g2 g1. destruct (L.wake sh false false true); constructor;
      cbn [L.sg L.pc L.pending L.evfd L.calling L.looping P.wake_add P.k_wake]; try assumption; try congruence; lia.
  - subst g2 g1. destruct (L.wake sh false false true); cbn [L.log]; rewrite !execq_app; cbn; rewrite !app_nil_r; reflexivity.
Qed.

(* C09's run invariant [pend_inv e p] (a non-empty queue comes with a non-zero wake-up counter at
   every poll) is C04's invariant [NoStall] read at the poll when no thread is between its append
   and its wake-up *)
Theorem pend_inv_is_nostall sh s e p : Rq s e p -> L.midwake sh s = false ->
  (LP.NoStall sh s <-> PP.pend_inv e p).
Proof.
  intros [Hpc Hcal Hloop Hw Hp] Hm. unfold LP.NoStall, PP.pend_inv. rewrite Hpc, Hm, Hp. cbn [L.will_drain].
  split.
  - intros [H|[H|[H|H]]] Hne; try discriminate; [contradiction|lia].
  - intros H. destruct p as [|x r]; [left; reflexivity|]. right; left.
    assert (0 < P.k_wake e)%N by (apply H; discriminate). lia.
Qed.

(* hence C09_queued_task_wakes' invariant holds at every poll of every schedule of C04's
   transition system (any number of foreign threads, any programs), by C04_no_stall *)
Corollary c04_reach_pend_inv sh scr prefix later progs s e p :
  L.wake_ok sh = true -> LP.reach sh scr (L.init prefix later progs) s ->
  Rq s e p -> L.midwake sh s = false -> PP.pend_inv e p.
Proof.
  intros W Hr HR Hm. apply (pend_inv_is_nostall sh s e p HR Hm).
  unfold L.wake_ok in W. apply andb_true_iff in W as [W1 W2].
  eapply LP.no_stall_reach; eauto.
Qed.

(* the queue view with q_iter spelled out *)
Corollary c09_iteration_queue_view_spelled S step h hq fb runs eff qw wfd tfd st e pending choice st' e' pend' act log ran :
  P.loop_iter_full_env S step h hq fb runs eff qw wfd tfd st e pending choice
    = P.Ok (st', e', pend', (act, log, ran)) ->
  ran = pending ++ flat_map (fun ck => hq (fst ck) (snd ck)) log /\
  pend' = P.functors_queued fb ran /\
  P.k_wake e' = (P.k_wake (P.apply_effects eff log e)
                 + (if qw true false true
                    then N.of_nat (length (flat_map (fun ck => hq (fst ck) (snd ck)) log)) else 0)
                 + (if qw true true true then N.of_nat (length pend') else 0))%N.
Proof.
  intros H. apply c09_iteration_queue_view in H. unfold q_iter in H. injection H as -> -> ->. auto.
Qed.
