(* C15_Proofs: invariants of the ThreadPool model C15_Model, for every number of workers and
   clients, all client programs, every maximum queue size and every schedule (induction over
   C15_Model.preach), reusing the notification disciplines and the ranking of Conc_Proofs. *)
From Coq Require Import List Arith Bool Lia.
From Coq Require Import ZArith.
From Muduo Require Import Conc_Model Conc_Proofs C15_Model Gen_C15.
Import ListNotations.

Definition call_of (uo : uop) (ops : list uop) : pop * pc :=
  match uo with
  | URun k => (PRun k, CCall ops)
  | USize => (PSize, CCall ops)
  | UStop => (PStop, CStopping ops)
  end.

Section Pool.
  Variables nw maxq : nat.
  Notation B := (pool_body maxq).
  Notation msys := (sys pool pop pres).
  Notation pstep := (pstep nw maxq).

  (* ================================================================ the steps, one constructor each *)
  Inductive pstepR (s : psys) : plabel -> psys -> Prop :=
  | R_acquire : forall t th o rest,
      nth_error (threads (mon s)) t = Some th -> st th = Idle -> prog th = o :: rest -> owner (mon s) = None ->
      pstepR s (LMon (LAcquire t))
        (mkP (mkSys (shared (mon s)) (Some t) (Some t) (upd t (mkThread (o :: rest) InCS) (threads (mon s))) (hist (mon s)))
             (pcs s) (evs s))
  | R_block : forall t picks th o rest c,
      nth_error (threads (mon s)) t = Some th -> st th = InCS -> prog th = o :: rest -> B o (shared (mon s)) = Block c ->
      pstepR s (LMon (LBody t picks))
        (mkP (mkSys (shared (mon s)) None None (upd t (mkThread (o :: rest) (Waiting c)) (threads (mon s))) (hist (mon s)))
             (pcs s) (evs s))
  | R_spurious : forall t th c,
      nth_error (threads (mon s)) t = Some th -> st th = Waiting c ->
      pstepR s (LMon (LSpurious t))
        (mkP (mkSys (shared (mon s)) (owner (mon s)) (holder (mon s)) (upd t (signalled_of th) (threads (mon s))) (hist (mon s)))
             (pcs s) (evs s))
  | R_reacquire : forall t th,
      nth_error (threads (mon s)) t = Some th -> st th = Signalled -> owner (mon s) = None ->
      pstepR s (LMon (LReacquire t))
        (mkP (mkSys (shared (mon s)) (Some t) (Some t) (upd t (mkThread (prog th) InCS) (threads (mon s))) (hist (mon s)))
             (pcs s) (evs s))
  | R_ret : forall t picks th o rest s1 r sg,
      nth_error (threads (mon s)) t = Some th -> st th = InCS -> prog th = o :: rest -> B o (shared (mon s)) = Ret s1 r sg ->
      pstepR s (LMon (LBody t picks))
        (mkP (mkSys s1 None None (apply_signals sg picks (upd t (mkThread rest Idle) (threads (mon s)))) (hist (mon s) ++ [(t, o, r)]))
             (upd t (after_ret (nth t (pcs s) WDone) r) (pcs s)) (evs s ++ ev_of t o r))
  | R_load_true : forall t m',
      pc_at s t = Some WLoop -> running (shared (mon s)) = true -> set_prog t [PTake] (mon s) = Some m' ->
      pstepR s (LLoad t) (mkP m' (upd t WTake (pcs s)) (evs s))
  | R_load_false : forall t,
      pc_at s t = Some WLoop -> running (shared (mon s)) = false ->
      pstepR s (LLoad t) (mkP (mon s) (upd t WDone (pcs s)) (evs s))
  | R_exec : forall t k,
      pc_at s t = Some (WGot k) ->
      pstepR s (LExec t) (mkP (mon s) (upd t WLoop (pcs s)) (evs s ++ [EvStart t k]))
  | R_inline : forall t k ops,
      pc_at s t = Some (CIdle (URun k :: ops)) -> nw = 0 ->
      pstepR s (LNext t) (mkP (mon s) (upd t (CIdle ops) (pcs s)) (evs s ++ [EvInline t k]))
  | R_call : forall t uo ops m',
      pc_at s t = Some (CIdle (uo :: ops)) -> (forall k, uo = URun k -> nw <> 0) ->
      set_prog t [fst (call_of uo ops)] (mon s) = Some m' ->
      pstepR s (LNext t) (mkP m' (upd t (snd (call_of uo ops)) (pcs s)) (evs s))
  | R_join : forall t i ops,
      pc_at s t = Some (CJoin i ops) -> i < nw -> pc_at s i = Some WDone -> joined i (evs s) = false ->
      pstepR s (LJoin t) (mkP (mon s) (upd t (CJoin (S i) ops) (pcs s)) (evs s ++ [EvJoin t i]))
  | R_stopret : forall t i ops,
      pc_at s t = Some (CJoin i ops) -> nw <= i ->
      pstepR s (LJoin t) (mkP (mon s) (upd t (CIdle ops) (pcs s)) (evs s ++ [EvStopRet t]))
  | R_init : forall t,
      pc_at s t = Some WInit ->
      pstepR s (LInit t) (mkP (mon s) (upd t WLoop (pcs s)) (evs s ++ [EvInit t]))
  | R_fault : forall t i ops,
      pc_at s t = Some (CJoin i ops) -> i < nw -> joined i (evs s) = true ->
      pstepR s (LJoin t) (mkP (mon s) (upd t (CFault ops) (pcs s)) (evs s ++ [EvFault t i])).

  Lemma pstep_sound : forall s l s', pstep s l = Some s' -> pstepR s l s'.
  Proof.
    intros s l s' H. destruct l as [cl|t|t|t|t|t]; cbn [C15_Model.pstep] in H.
    - unfold mon_step in H. destruct (step B (mon s) cl) as [m'|] eqn:E; [|discriminate].
      destruct cl as [t|t picks|t|t].
      + inversion H; subst; clear H.
        destruct (step_acquire_inv _ _ _ _ _ _ _ E) as (th & o & rest & Hn & Hs & Hp & Ho & ->).
        eapply R_acquire; eauto.
      + destruct (step_body_inv _ _ _ _ _ _ _ _ E) as (th & o & rest & Hn & Hs & Hp & [(s1 & r & sg & Hb & ->)|(c & Hb & ->)]).
        * unfold ret_of in H. rewrite Hn, Hp, Hb in H. inversion H; subst; clear H. eapply R_ret; eauto.
        * unfold ret_of in H. rewrite Hn, Hp, Hb in H. inversion H; subst; clear H. eapply R_block; eauto.
      + inversion H; subst; clear H.
        destruct (step_spurious_inv _ _ _ _ _ _ _ E) as (th & c & Hn & Hs & ->). eapply R_spurious; eauto.
      + inversion H; subst; clear H.
        destruct (step_reacquire_inv _ _ _ _ _ _ _ E) as (th & Hn & Hs & Ho & ->). eapply R_reacquire; eauto.
    - destruct (pc_at s t) as [[| | | | | | | | |]|] eqn:Hp; try discriminate.
      destruct (running (shared (mon s))) eqn:Hr.
      + unfold call in H. destruct (set_prog t [PTake] (mon s)) as [m'|] eqn:E; [|discriminate].
        inversion H; subst. eapply R_load_true; eauto.
      + inversion H; subst. eapply R_load_false; eauto.
    - destruct (pc_at s t) as [[| |k| | | | | | |]|] eqn:Hp; try discriminate.
      inversion H; subst. eapply R_exec; eauto.
    - destruct (pc_at s t) as [[| | | |ops| | | | |]|] eqn:Hp; try discriminate.
      destruct ops as [|[k| |] ops]; try discriminate.
      + destruct (Nat.eqb nw 0) eqn:En.
        * inversion H; subst. apply Nat.eqb_eq in En. eapply R_inline; eauto.
        * apply Nat.eqb_neq in En. unfold call in H.
          destruct (set_prog t [PRun k] (mon s)) as [m'|] eqn:E; [|discriminate]. inversion H; subst.
          apply (R_call s t (URun k) ops m'); auto.
      + unfold call in H. destruct (set_prog t [PStop] (mon s)) as [m'|] eqn:E; [|discriminate]. inversion H; subst.
        apply (R_call s t UStop ops m'); auto. intros k Hk; discriminate.
      + unfold call in H. destruct (set_prog t [PSize] (mon s)) as [m'|] eqn:E; [|discriminate]. inversion H; subst.
        apply (R_call s t USize ops m'); auto. intros k Hk; discriminate.
    - destruct (pc_at s t) as [[| | | | | | |i ops| |]|] eqn:Hp; try discriminate.
      destruct (i <? nw) eqn:Ei.
      + apply Nat.ltb_lt in Ei. destruct (joined i (evs s)) eqn:Ej.
        * inversion H; subst. eapply R_fault; eauto.
        * destruct (pc_at s i) as [[| | | | | | | | |]|] eqn:Hpi; try discriminate.
          inversion H; subst. eapply R_join; eauto.
      + apply Nat.ltb_ge in Ei. inversion H; subst. eapply R_stopret; eauto.
    - destruct (pc_at s t) as [[| | | | | | | | |]|] eqn:Hp; try discriminate.
      inversion H; subst. eapply R_init; eauto.
  Qed.

  Lemma preach_inv : forall (Inv : psys -> Prop) s0,
    Inv s0 -> (forall s l s', preach nw maxq s0 s -> Inv s -> pstep s l = Some s' -> Inv s') ->
    forall s, preach nw maxq s0 s -> Inv s.
  Proof.
    intros Inv s0 H0 Hs s Hr; induction Hr as [|s l s' Hr IH Hst]; [exact H0|].
    apply (Hs s l s' Hr IH Hst).
  Qed.

  (* ================================================================ the body, case by case *)
  Lemma body_ret_cases : forall o s s1 r sg, B o s = Ret s1 r sg ->
    (exists k, o = PRun k /\ running s = false /\ s1 = s /\ r = RRejected /\ sg = []) \/
    (exists k, o = PRun k /\ running s = true /\ isFull maxq (queue s) = false /\
               s1 = mkPool (queue s ++ [k]) true /\ r = RAccepted /\ sg = [Notify notEmpty]) \/
    (o = PTake /\ queue s = [] /\ running s = false /\ s1 = s /\ r = RTask None /\ sg = []) \/
    (exists k q', o = PTake /\ queue s = k :: q' /\ s1 = mkPool q' (running s) /\ r = RTask (Some k) /\
                  sg = if 0 <? maxq then [Notify notFull] else []) \/
    (o = PStop /\ s1 = mkPool (queue s) false /\ r = RUnit /\ sg = [NotifyAll notEmpty; NotifyAll notFull]) \/
    (o = PSize /\ s1 = s /\ r = RSize (length (queue s)) /\ sg = []).
  Proof.
    intros o s s1 r sg H. destruct s as [q rn]. destruct o as [k| | |]; cbn in H.
    - unfold run_waits in H. cbn in H. destruct rn; cbn in H.
      + rewrite andb_true_r in H. destruct (isFull maxq q) eqn:E; [discriminate|]. inversion H; subst.
        right; left. exists k. cbn. auto 10.
      + rewrite andb_false_r in H. inversion H; subst. left. exists k. cbn. auto 10.
    - unfold take_waits in H. cbn in H. destruct q as [|k q'].
      + destruct rn; cbn in H; [discriminate|]. inversion H; subst. right; right; left. cbn. auto 10.
      + cbn in H. inversion H; subst. right; right; right; left. exists k, q'. cbn. auto 10.
    - inversion H; subst. right; right; right; right; left. cbn. auto.
    - inversion H; subst. right; right; right; right; right. cbn. auto.
  Qed.

  Lemma body_block_cases : forall o s c, B o s = Block c ->
    (exists k, o = PRun k /\ c = notFull /\ isFull maxq (queue s) = true /\ running s = true) \/
    (o = PTake /\ c = notEmpty /\ queue s = [] /\ running s = true).
  Proof.
    intros o s c H. destruct s as [q rn]. destruct o as [k| | |]; cbn in H; try discriminate.
    - unfold run_waits in H. cbn in H. destruct (isFull maxq q) eqn:E; destruct rn; cbn in H; try discriminate.
      inversion H; subst. left. exists k. auto.
    - unfold take_waits in H. cbn in H. destruct q as [|k q']; destruct rn; cbn in H; try discriminate.
      inversion H; subst. right. auto.
  Qed.

  (* what a step does to the embedded monitor *)
  Lemma pstep_mon : forall s l s', pstep s l = Some s' ->
    (exists cl, l = LMon cl /\ step B (mon s) cl = Some (mon s')) \/
    (exists t p, set_prog t p (mon s) = Some (mon s')) \/
    mon s' = mon s.
  Proof.
    intros s l s' H. destruct l as [cl|t|t|t|t|t].
    - left. exists cl. split; auto. cbn in H. unfold mon_step in H.
      destruct (step B (mon s) cl) as [m'|]; [|discriminate].
      destruct cl; try (inversion H; subst; reflexivity).
      destruct (ret_of maxq (mon s) t) as [[o r]|]; inversion H; subst; reflexivity.
    - pose proof (pstep_sound _ _ _ H) as R; inversion R; subst; cbn [mon]; eauto.
    - pose proof (pstep_sound _ _ _ H) as R; inversion R; subst; cbn [mon]; eauto.
    - pose proof (pstep_sound _ _ _ H) as R; inversion R; subst; cbn [mon]; eauto.
    - pose proof (pstep_sound _ _ _ H) as R; inversion R; subst; cbn [mon]; eauto.
    - pose proof (pstep_sound _ _ _ H) as R; inversion R; subst; cbn [mon]; eauto.
  Qed.

  (* ================================================================ invariants of the embedded monitor *)
  Definition availE (s : pool) : nat := if running s then length (queue s) else 0.
  Definition availF (s : pool) : nat := if running s then maxq - length (queue s) else 0.
  Definition isrunning (s : pool) : Prop := running s = true.

  Record MInv (m : msys) : Prop := {
    mi_wf : wf _ _ _ m;
    mi_wok : wok _ _ _ pool_blocker m;
    mi_bE : bdisc _ _ _ notEmpty isrunning m;
    mi_bF : bdisc _ _ _ notFull isrunning m;
    mi_bM : bdisc _ _ _ notFull (fun _ : pool => 0 < maxq) m;
    mi_dE : disc _ _ _ pool_blocker notEmpty availE m;
    mi_dF : disc _ _ _ pool_blocker notFull availF m
  }.

  Lemma pool_body_block : forall o s c, B o s = Block c -> pool_blocker c o = true.
  Proof.
    intros o s c H. destruct (body_block_cases _ _ _ H) as [(k & -> & -> & _)|(-> & -> & _)]; reflexivity.
  Qed.

  Lemma pool_blocker_unique : forall o c c', pool_blocker c o = true -> pool_blocker c' o = true -> c = c'.
  Proof.
    intros [k| | |] c c' H H'; cbn in *; try discriminate; apply Nat.eqb_eq in H, H'; congruence.
  Qed.

  Lemma pool_B_block : forall c o s, B o s = Block c -> isrunning s.
  Proof.
    intros c o s Hb. destruct (body_block_cases _ _ _ Hb) as [(k & _ & _ & _ & Hr)|(_ & _ & _ & Hr)]; exact Hr.
  Qed.

  Lemma pool_B_ret : forall c, (c = notEmpty \/ c = notFull) -> forall o s s1 r sg,
    B o s = Ret s1 r sg -> isrunning s -> isrunning s1 \/ has_bcast c sg = true.
  Proof.
    intros c Hc o s s1 r sg Hb Hr. unfold isrunning in *.
    destruct (body_ret_cases _ _ _ _ _ Hb) as [(k & _ & Hf & _)|[(k & _ & _ & _ & -> & _)|[(_ & _ & Hf & _)|
      [(k & q' & _ & _ & -> & _)|[(_ & _ & _ & ->)|(_ & -> & _)]]]]]; auto; try congruence.
    right. destruct Hc as [->| ->]; reflexivity.
  Qed.

  Lemma MInv_step : forall m cl m', MInv m -> step B m cl = Some m' -> MInv m'.
  Proof.
    intros m cl m' I H. destruct I as [W J BE BF BM DE DF]. constructor.
    - eapply wf_step; eauto.
    - eapply wok_step; eauto. apply pool_body_block.
    - eapply (bdisc_step _ _ _ B notEmpty isrunning); eauto.
      + apply pool_B_block.
      + apply pool_B_ret. auto.
    - eapply (bdisc_step _ _ _ B notFull isrunning); eauto.
      + apply pool_B_block.
      + apply pool_B_ret. auto.
    - eapply (bdisc_step _ _ _ B notFull (fun _ : pool => 0 < maxq)); eauto.
      intros o s Hb. destruct (body_block_cases _ _ _ Hb) as [(k & _ & _ & Hfull & _)|(_ & Hc & _)]; [|discriminate].
      unfold isFull in Hfull. apply andb_true_iff in Hfull. destruct Hfull as (Hz & _). apply Nat.ltb_lt in Hz. exact Hz.
    - eapply (disc_step _ _ _ B pool_blocker pool_body_block pool_blocker_unique notEmpty availE (fun _ => True)); eauto.
      + intros o s _ Hb. unfold availE.
        destruct (body_block_cases _ _ _ Hb) as [(k & _ & Hc & _)|(_ & _ & Hq & Hr)]; [discriminate|].
        rewrite Hq. destruct (running s); reflexivity.
      + intros o s s1 r sg _ Hb. unfold availE.
        destruct (body_ret_cases _ _ _ _ _ Hb) as [(k & -> & Hf & -> & _)|[(k & -> & Hr & _ & -> & _ & ->)|[(-> & Hq & Hf & -> & _)|
          [(k & q' & -> & Hq & -> & _ & ->)|[(-> & -> & _ & ->)|(-> & -> & _ & ->)]]]]]; cbn [running queue].
        * right; left. rewrite Hf. reflexivity.
        * right; right. rewrite Hr, app_length. cbn. lia.
        * right; left. rewrite Hf. reflexivity.
        * rewrite Hq. destruct (running s); cbn [length].
          -- right; right. unfold nnotify. destruct (0 <? maxq); cbn; lia.
          -- right; left. reflexivity.
        * left. reflexivity.
        * right; right. cbn. lia.
    - eapply (disc_step _ _ _ B pool_blocker pool_body_block pool_blocker_unique notFull availF (fun _ => True)); eauto.
      + intros o s _ Hb. unfold availF.
        destruct (body_block_cases _ _ _ Hb) as [(k & _ & _ & Hfull & Hr)|(_ & Hc & _)]; [|discriminate].
        rewrite Hr. unfold isFull in Hfull. apply andb_true_iff in Hfull. destruct Hfull as (_ & Hle).
        apply Nat.leb_le in Hle. lia.
      + intros o s s1 r sg _ Hb. unfold availF.
        destruct (body_ret_cases _ _ _ _ _ Hb) as [(k & -> & Hf & -> & _)|[(k & -> & Hr & Hnf & -> & _ & ->)|[(-> & Hq & Hf & -> & _)|
          [(k & q' & -> & Hq & -> & _ & ->)|[(-> & -> & _ & ->)|(-> & -> & _ & ->)]]]]]; cbn [running queue].
        * right; left. rewrite Hf. reflexivity.
        * rewrite Hr, app_length. cbn. unfold isFull in Hnf. apply andb_false_iff in Hnf.
          destruct Hnf as [Hz|Hlt].
          -- apply Nat.ltb_ge in Hz. right; left. lia.
          -- apply Nat.leb_gt in Hlt. right; right. lia.
        * right; left. rewrite Hf. reflexivity.
        * rewrite Hq. destruct (running s); cbn [length]; [|right; left; reflexivity].
          destruct (0 <? maxq) eqn:Ez; cbn.
          -- right; right. lia.
          -- apply Nat.ltb_ge in Ez. right; left. lia.
        * left. reflexivity.
        * right; right. cbn. lia.
  Qed.

  Lemma MInv_set_prog : forall m t p m', MInv m -> set_prog t p m = Some m' -> MInv m'.
  Proof.
    intros m t p m' I H. destruct I as [W J BE BF BM DE DF]. constructor.
    - eapply wf_set_prog; eauto.
    - eapply wok_set_prog; eauto.
    - eapply bdisc_set_prog; eauto.
    - eapply bdisc_set_prog; eauto.
    - eapply bdisc_set_prog; eauto.
    - eapply disc_set_prog; eauto.
    - eapply disc_set_prog; eauto.
  Qed.

  Lemma MInv_init : forall (progs : list (list pop)), MInv (init_sys (mkPool [] true) progs).
  Proof.
    intros progs.
    assert (Hz : forall c, nwaiting c (init_sys (mkPool [] true) progs : msys) = 0).
    { intros c. unfold nwaiting. cbn. apply count_zero_Forall. apply Forall_forall. intros th Hin.
      apply in_map_iff in Hin. destruct Hin as (p & <- & _). reflexivity. }
    constructor.
    - apply wf_init.
    - apply wok_init.
    - intro Hp. rewrite Hz in Hp. lia.
    - intro Hp. rewrite Hz in Hp. lia.
    - intro Hp. rewrite Hz in Hp. lia.
    - intro Hp. rewrite Hz in Hp. lia.
    - intro Hp. rewrite Hz in Hp. lia.
  Qed.

  Theorem MInv_reach : forall progs s, preach nw maxq (pinit nw progs) s -> MInv (mon s).
  Proof.
    intros progs. apply preach_inv.
    - apply MInv_init.
    - intros s l s' _ I H. destruct (pstep_mon _ _ _ H) as [(cl & _ & E)|[(t & p & E)|E]].
      + eapply MInv_step; eauto.
      + eapply MInv_set_prog; eauto.
      + rewrite E. exact I.
  Qed.

  (* ================================================================ effect of a step on (shared state, event log) *)
  Definition quiet_event (e : event) : Prop :=
    match e with EvStart _ _ | EvInline _ _ | EvStopRet _ | EvInit _ | EvJoin _ _ | EvFault _ _ => True | _ => False end.

  Lemma pstep_log : forall s l s', pstep s l = Some s' ->
    (shared (mon s') = shared (mon s) /\ evs s' = evs s) \/
    (shared (mon s') = shared (mon s) /\ exists e, evs s' = evs s ++ [e] /\ quiet_event e) \/
    (exists t o s1 r sg, B o (shared (mon s)) = Ret s1 r sg /\ shared (mon s') = s1 /\ evs s' = evs s ++ ev_of t o r).
  Proof.
    intros s l s' H. pose proof (pstep_sound _ _ _ H) as R. inversion R; subst; cbn [mon evs shared]; auto.
    - right; right. exists t, o, s1, r, sg. auto.
    - left. destruct (set_prog_spec _ _ _ _ _ _ _ H2) as (th & _ & _ & ->). auto.
    - right; left. split; auto. eexists; split; [reflexivity|exact I].
    - right; left. split; auto. eexists; split; [reflexivity|exact I].
    - left. destruct (set_prog_spec _ _ _ _ _ _ _ H2) as (th & _ & _ & ->). auto.
    - right; left. split; auto. eexists; split; [reflexivity|exact I].
    - right; left. split; auto. eexists; split; [reflexivity|exact I].
    - right; left. split; auto. eexists; split; [reflexivity|exact I].
    - right; left. split; auto. eexists; split; [reflexivity|exact I].
  Qed.

  Lemma fm_snoc : forall A C (f : A -> list C) l x, flat_map f (l ++ [x]) = flat_map f l ++ f x.
  Proof. intros. rewrite flat_map_app. cbn. rewrite app_nil_r. reflexivity. Qed.

  Lemma flat_map_nil_all : forall A C (f : A -> list C) l, (forall x, In x l -> f x = []) -> flat_map f l = [].
  Proof.
    intros A C f l H. induction l as [|x r IH]; auto. cbn. rewrite (H x (or_introl eq_refl)), IH; auto.
    intros y Hy. apply H. right. auto.
  Qed.

  Lemma existsb_snoc : forall (P : event -> bool) e x, existsb P (e ++ [x]) = existsb P e || P x.
  Proof. intros. rewrite existsb_app. cbn. rewrite orb_false_r. reflexivity. Qed.

  Lemma after_snoc : forall P e x, after P (e ++ [x]) = if existsb P e then after P e ++ [x] else [].
  Proof.
    intros P e x. induction e as [|y r IH]; cbn.
    - destruct (P x); reflexivity.
    - destruct (P y); cbn; auto.
  Qed.

  Lemma after_none : forall P e, existsb P e = false -> after P e = [].
  Proof.
    intros P e. induction e as [|y r IH]; cbn; auto. destruct (P y); cbn; [discriminate|auto].
  Qed.


  Record LInv (sh : pool) (e : list event) : Prop := {
    li_acct : accepted e = taken e ++ queue sh;
    li_bound : 0 < maxq -> length (queue sh) <= maxq;
    li_flag : running sh = negb (existsb is_stopsec e);
    li_frozen : Forall not_accept (after is_stopsec e)
  }.

  Lemma frozen_snoc : forall e x, Forall not_accept (after is_stopsec e) -> not_accept x ->
    Forall not_accept (after is_stopsec (e ++ [x])).
  Proof.
    intros e x H Hx. rewrite after_snoc. destruct (existsb is_stopsec e); [|constructor].
    apply Forall_app. split; auto.
  Qed.

  Lemma LInv_quiet : forall sh e x, LInv sh e -> quiet_event x -> LInv sh (e ++ [x]).
  Proof.
    intros sh e x [A Bd F Z] Hx. constructor; auto.
    - unfold accepted, taken in *. rewrite !fm_snoc, A. destruct x; cbn in Hx; try contradiction; cbn; rewrite !app_nil_r; reflexivity.
    - rewrite existsb_snoc, F. destruct x; cbn in Hx; try contradiction; cbn; rewrite orb_false_r; reflexivity.
    - apply frozen_snoc; auto. destruct x; cbn in Hx; try contradiction; exact I.
  Qed.

  Lemma LInv_ret : forall t o sh s1 r sg e, LInv sh e -> B o sh = Ret s1 r sg -> LInv s1 (e ++ ev_of t o r).
  Proof.
    intros t o sh s1 r sg e [A Bd F Z] Hb.
    destruct (body_ret_cases _ _ _ _ _ Hb) as [(k & -> & Hf & -> & -> & _)|[(k & -> & Hr & Hnf & -> & -> & _)|[(-> & Hq & Hf & -> & -> & _)|
      [(k & q' & -> & Hq & -> & -> & _)|[(-> & -> & -> & _)|(-> & -> & -> & _)]]]]]; cbn [ev_of].
    - constructor; auto.
      + unfold accepted, taken in *. rewrite !fm_snoc, A. cbn. rewrite !app_nil_r. reflexivity.
      + rewrite existsb_snoc, F. cbn. rewrite orb_false_r. reflexivity.
      + apply frozen_snoc; auto. exact I.
    - constructor; cbn [queue running].
      + unfold accepted, taken in *. rewrite !fm_snoc, A. cbn. rewrite app_nil_r, app_assoc. reflexivity.
      + intro Hm. rewrite app_length. cbn. unfold isFull in Hnf. apply andb_false_iff in Hnf.
        destruct Hnf as [Hz|Hlt]; [apply Nat.ltb_ge in Hz; lia|apply Nat.leb_gt in Hlt; lia].
      + rewrite existsb_snoc. cbn. rewrite orb_false_r. rewrite <- F. auto.
      + rewrite after_snoc. rewrite F in Hr. destruct (existsb is_stopsec e); [discriminate|constructor].
    - rewrite app_nil_r. constructor; auto.
    - constructor; cbn [queue running]; auto.
      + unfold accepted, taken in *. rewrite !fm_snoc, A, Hq. cbn. rewrite app_nil_r, <- app_assoc. reflexivity.
      + intro Hm. specialize (Bd Hm). rewrite Hq in Bd. cbn in Bd. lia.
      + rewrite existsb_snoc, F. cbn. rewrite orb_false_r. reflexivity.
      + apply frozen_snoc; auto. exact I.
    - constructor; cbn [queue running]; auto.
      + unfold accepted, taken in *. rewrite !fm_snoc, A. cbn. rewrite !app_nil_r. reflexivity.
      + rewrite existsb_snoc. cbn. rewrite orb_true_r. reflexivity.
      + apply frozen_snoc; auto. exact I.
    - rewrite app_nil_r. constructor; auto.
  Qed.

  Theorem LInv_reach : forall progs s, preach nw maxq (pinit nw progs) s -> LInv (shared (mon s)) (evs s).
  Proof.
    intros progs. apply preach_inv.
    - constructor; cbn; auto. lia.
    - intros s l s' _ I H. destruct (pstep_log _ _ _ H) as [(-> & ->)|[(-> & e & -> & He)|(t & o & s1 & r & sg & Hb & -> & ->)]]; auto.
      + apply LInv_quiet; auto.
      + eapply LInv_ret; eauto.
  Qed.

  (* ================================================================ coherence of thread-local control and monitor threads *)
  Definition coh1 (t : nat) (p : pc) (th : thread pop) : Prop :=
    match p with
    | WLoop | WGot _ | WDone | WInit => t < nw /\ st th = Idle /\ prog th = []
    | WTake => t < nw /\ prog th = [PTake]
    | CIdle _ | CJoin _ _ | CFault _ => nw <= t /\ st th = Idle /\ prog th = []
    | CCall _ => nw <= t /\ exists o, prog th = [o] /\ (o = PSize \/ (nw <> 0 /\ exists k, o = PRun k))
    | CStopping _ => nw <= t /\ prog th = [PStop]
    end.

  Definition cohL (ps : list pc) (ths : list (thread pop)) : Prop :=
    length ps = length ths /\
    forall t p th, nth_error ps t = Some p -> nth_error ths t = Some th -> coh1 t p th.
  Definition coh (s : psys) : Prop := cohL (pcs s) (threads (mon s)).

  Lemma coh1_status : forall t p th th', coh1 t p th -> (st th <> Idle \/ prog th <> []) ->
    prog th' = prog th -> coh1 t p th'.
  Proof.
    intros t p th th' H Hne Hp. destruct p; cbn in *; rewrite Hp; auto;
      destruct H as (? & Hs & Hq); exfalso; destruct Hne as [Hne|Hne]; auto.
  Qed.

  Lemma cohL_upd_th : forall ps ths t th th', cohL ps ths -> nth_error ths t = Some th ->
    (forall p, nth_error ps t = Some p -> coh1 t p th') -> cohL ps (upd t th' ths).
  Proof.
    intros ps ths t th th' (Hl & Hc) Hn H. split; [rewrite upd_length; auto|].
    intros u p a Hp Ha. destruct (Nat.eq_dec t u) as [->|Hne].
    - rewrite (nth_error_upd_eq _ _ _ _ Hn) in Ha. inversion Ha; subst. auto.
    - rewrite nth_error_upd_neq in Ha by auto. eauto.
  Qed.

  Lemma cohL_upd_pc : forall ps ths t p', cohL ps ths ->
    (forall th, nth_error ths t = Some th -> coh1 t p' th) -> cohL (upd t p' ps) ths.
  Proof.
    intros ps ths t p' (Hl & Hc) H. split; [rewrite upd_length; auto|].
    intros u p a Hp Ha. destruct (Nat.eq_dec t u) as [->|Hne].
    - destruct (nth_error ps u) as [p0|] eqn:E.
      + rewrite (nth_error_upd_eq _ _ _ _ E) in Hp. inversion Hp; subst. auto.
      + exfalso. apply nth_error_None in E. assert (nth_error ths u <> None) as Hx by congruence.
        apply nth_error_Some in Hx. lia.
    - rewrite nth_error_upd_neq in Hp by auto. eauto.
  Qed.

  Lemma cohL_wakes : forall ps ths ths', cohL ps ths -> wakes ths ths' -> cohL ps ths'.
  Proof.
    intros ps ths ths' (Hl & Hc) Hw. split; [rewrite (wakes_length _ _ _ Hw); auto|].
    intros u p b Hp Hb. destruct (wakes_nth_bwd _ _ _ _ Hw Hb) as (a & Ha & [->|(c & Hs & ->)]); eauto.
    eapply coh1_status; eauto. left. congruence.
  Qed.

  Lemma cohL_pc_at : forall ps ths t th, cohL ps ths -> nth_error ths t = Some th ->
    nth_error ps t = Some (nth t ps WDone).
  Proof.
    intros ps ths t th (Hl & _) Hn. apply nth_error_nth'. rewrite Hl. apply nth_error_Some. congruence.
  Qed.

  Lemma cohL_upd_both : forall ps ths t th p' th', cohL ps ths -> nth_error ths t = Some th ->
    coh1 t p' th' -> cohL (upd t p' ps) (upd t th' ths).
  Proof.
    intros ps ths t th p' th' C Hn H. pose proof (cohL_pc_at _ _ _ _ C Hn) as Hpc. destruct C as (Hl & Hc).
    split; [rewrite !upd_length; auto|].
    intros u p a Hp Ha. destruct (Nat.eq_dec t u) as [->|Hne].
    - rewrite (nth_error_upd_eq _ _ _ _ Hn) in Ha. rewrite (nth_error_upd_eq _ _ _ _ Hpc) in Hp.
      inversion Ha; inversion Hp; subst. exact H.
    - rewrite nth_error_upd_neq in Ha by auto. rewrite nth_error_upd_neq in Hp by auto. eauto.
  Qed.

  Lemma coh_step : forall s l s', coh s -> pstep s l = Some s' -> coh s'.
  Proof.
    unfold coh. intros s l s' C H. pose proof (pstep_sound _ _ _ H) as R.
    inversion R; subst; cbn [mon pcs threads].
    - eapply cohL_upd_th; eauto. intros p Hp. destruct C as (_ & Hc).
      eapply coh1_status; [eapply Hc; eauto| |cbn; congruence]. right. congruence.
    - eapply cohL_upd_th; eauto. intros p Hp. destruct C as (_ & Hc).
      eapply coh1_status; [eapply Hc; eauto| |cbn; congruence]. left. congruence.
    - eapply cohL_upd_th; eauto. intros p Hp. destruct C as (_ & Hc).
      eapply coh1_status; [eapply Hc; eauto| |reflexivity]. left. congruence.
    - eapply cohL_upd_th; eauto. intros p Hp. destruct C as (_ & Hc).
      eapply coh1_status; [eapply Hc; eauto| |reflexivity]. left. congruence.
    - eapply cohL_wakes; [|apply apply_signals_wakes].
      pose proof (cohL_pc_at _ _ _ _ C H0) as Hpc.
      assert (Hc1 : coh1 t (nth t (pcs s) WDone) th) by (destruct C as (_ & Hc); eauto).
      eapply cohL_upd_both; eauto.
      destruct (nth t (pcs s) WDone) as [| |k| |ops|ops|ops|i ops| |ops]; cbn in Hc1;
        try (destruct Hc1 as (_ & _ & Hq); congruence).
      + destruct Hc1 as (Hlt & Hq). rewrite H2 in Hq. inversion Hq; subst.
        destruct (body_ret_cases _ _ _ _ _ H3) as [(k & Ho & _)|[(k & Ho & _)|[(_ & _ & _ & _ & -> & _)|
          [(k & q' & _ & _ & _ & -> & _)|[(Ho & _)|(Ho & _)]]]]]; try discriminate; cbn; auto.
      + destruct Hc1 as (Hle & o' & Hq & _). rewrite H2 in Hq. inversion Hq; subst. cbn. auto.
      + destruct Hc1 as (Hle & Hq). rewrite H2 in Hq. inversion Hq; subst. cbn. auto.
    - destruct (set_prog_spec _ _ _ _ _ _ _ H2) as (th & Hn & Hs & ->). cbn [threads].
      eapply cohL_upd_both; eauto. destruct C as (_ & Hc). destruct (Hc _ _ _ H0 Hn) as (Hlt & _). cbn. auto.
    - apply cohL_upd_pc; auto. intros th Hn. destruct C as (_ & Hc). exact (Hc _ _ _ H0 Hn).
    - apply cohL_upd_pc; auto. intros th Hn. destruct C as (_ & Hc). exact (Hc _ _ _ H0 Hn).
    - apply cohL_upd_pc; auto. intros th Hn. destruct C as (_ & Hc). exact (Hc _ _ _ H0 Hn).
    - destruct (set_prog_spec _ _ _ _ _ _ _ H2) as (th & Hn & Hs & ->). cbn [threads].
      eapply cohL_upd_both; eauto. destruct C as (_ & Hc). destruct (Hc _ _ _ H0 Hn) as (Hle & _).
      destruct uo as [k| |]; cbn; eauto 10.
    - apply cohL_upd_pc; auto. intros th Hn. destruct C as (_ & Hc). exact (Hc _ _ _ H0 Hn).
    - apply cohL_upd_pc; auto. intros th Hn. destruct C as (_ & Hc). exact (Hc _ _ _ H0 Hn).
    - apply cohL_upd_pc; auto. intros th Hn. destruct C as (_ & Hc). exact (Hc _ _ _ H0 Hn).
    - apply cohL_upd_pc; auto. intros th Hn. destruct C as (_ & Hc). exact (Hc _ _ _ H0 Hn).
  Qed.

  Lemma coh_init : forall progs, coh (pinit nw progs).
  Proof.
    intros progs. unfold coh, pinit; cbn [pcs mon threads init_sys]. split.
    - rewrite map_length, !app_length, !map_length, !repeat_length. reflexivity.
    - intros t p th Hp Hth. rewrite nth_error_map in Hth.
      destruct (Nat.lt_ge_cases t nw) as [Hlt|Hge].
      + rewrite nth_error_app1 in Hp by (rewrite repeat_length; auto).
        rewrite nth_error_app1 in Hth by (rewrite repeat_length; auto).
        apply nth_error_In in Hp. apply repeat_spec in Hp. subst p.
        destruct (nth_error (repeat [] nw) t) eqn:E; [|discriminate]. apply nth_error_In in E. apply repeat_spec in E.
        subst. inversion Hth; subst. cbn. auto.
      + rewrite nth_error_app2 in Hp by (rewrite repeat_length; auto).
        rewrite nth_error_app2 in Hth by (rewrite repeat_length; auto). rewrite repeat_length in *.
        rewrite nth_error_map in Hp, Hth. destruct (nth_error progs (t - nw)); [|discriminate].
        inversion Hp; inversion Hth; subst. cbn. auto.
  Qed.

  Theorem coh_reach : forall progs s, preach nw maxq (pinit nw progs) s -> coh s.
  Proof.
    intros progs. apply preach_inv; [apply coh_init|]. intros; eapply coh_step; eauto.
  Qed.

  (* ================================================================ who holds which task *)
  Definition hand_neutral (x : event) : Prop :=
    match x with
    | EvTake _ _ | EvStart _ _ => False
    | EvInline _ _ => nw = 0
    | EvAccept u _ => nw <= u /\ nw <> 0
    | _ => True
    end.

  Lemma pstep_hand : forall s l s', coh s -> pstep s l = Some s' ->
    (pcs s' = pcs s /\ evs s' = evs s) \/
    exists t p p' ev, nth_error (pcs s) t = Some p /\ pcs s' = upd t p' (pcs s) /\ evs s' = evs s ++ ev /\
      ((inhand1 p = [] /\ inhand1 p' = [] /\ Forall hand_neutral ev) \/
       (exists k, p = WTake /\ p' = WGot k /\ ev = [EvTake t k] /\ t < nw) \/
       (exists k, p = WGot k /\ p' = WLoop /\ ev = [EvStart t k] /\ t < nw)).
  Proof.
    intros s l s' C H. pose proof (pstep_sound _ _ _ H) as R.
    inversion R; subst; cbn [pcs evs]; auto; right.
    - (* return from a section *)
      pose proof (cohL_pc_at _ _ _ _ C H0) as Hpc.
      assert (Hc1 : coh1 t (nth t (pcs s) WDone) th) by (destruct C as (_ & Hc); eauto).
      exists t, (nth t (pcs s) WDone), (after_ret (nth t (pcs s) WDone) r), (ev_of t o r).
      split; auto. split; auto. split; auto.
      destruct (nth t (pcs s) WDone) as [| |k| |ops|ops|ops|i ops| |ops]; cbn in Hc1;
        try (destruct Hc1 as (_ & _ & Hq); congruence).
      + destruct Hc1 as (Hlt & Hq). rewrite H2 in Hq. inversion Hq; subst.
        destruct (body_ret_cases _ _ _ _ _ H3) as [(k & Ho & _)|[(k & Ho & _)|[(_ & _ & _ & _ & -> & _)|
          [(k & q' & _ & _ & _ & -> & _)|[(Ho & _)|(Ho & _)]]]]]; try discriminate; cbn.
        * left. auto.
        * right; left. exists k. auto.
      + left. destruct Hc1 as (Hle & o' & Hq & Ho). rewrite H2 in Hq. inversion Hq; subst. cbn [after_ret inhand1].
        split; auto. split; auto. destruct Ho as [->|(Hnz & k & ->)]; cbn; auto.
        destruct r; cbn; repeat constructor; auto.
      + left. destruct Hc1 as (Hle & Hq). rewrite H2 in Hq. inversion Hq; subst. cbn. repeat constructor.
    - exists t, WLoop, WTake, []. rewrite app_nil_r. split; [exact H0|]. split; [reflexivity|]. split; [reflexivity|].
      left. repeat split; constructor.
    - exists t, WLoop, WDone, []. rewrite app_nil_r. split; [exact H0|]. split; [reflexivity|]. split; [reflexivity|].
      left. repeat split; constructor.
    - exists t, (WGot k), WLoop, [EvStart t k]. split; [exact H0|]. split; [reflexivity|]. split; [reflexivity|].
      right; right. exists k. repeat split.
      destruct C as (Hl & Hc).
      destruct (nth_error (threads (mon s)) t) as [th|] eqn:E.
      + destruct (Hc _ _ _ H0 E) as (Hlt & _). exact Hlt.
      + exfalso. apply nth_error_None in E. assert (nth_error (pcs s) t <> None) as Hx by (unfold pc_at in H0; congruence).
        apply nth_error_Some in Hx. lia.
    - exists t, (CIdle (URun k :: ops)), (CIdle ops), [EvInline t k].
      split; [exact H0|]. split; [reflexivity|]. split; [reflexivity|].
      left. split; [reflexivity|]. split; [reflexivity|]. constructor; [exact H1|constructor].
    - exists t, (CIdle (uo :: ops)), (snd (call_of uo ops)), []. rewrite app_nil_r.
      split; [exact H0|]. split; [reflexivity|]. split; [reflexivity|].
      left. split; [reflexivity|]. split; [destruct uo; reflexivity|constructor].
    - exists t, (CJoin i ops), (CJoin (S i) ops), [EvJoin t i].
      split; [exact H0|]. split; [reflexivity|]. split; [reflexivity|].
      left. split; [reflexivity|]. split; [reflexivity|]. constructor; [exact I|constructor].
    - exists t, (CJoin i ops), (CIdle ops), [EvStopRet t].
      split; [exact H0|]. split; [reflexivity|]. split; [reflexivity|].
      left. split; [reflexivity|]. split; [reflexivity|]. constructor; [exact I|constructor].
    - exists t, WInit, WLoop, [EvInit t].
      split; [exact H0|]. split; [reflexivity|]. split; [reflexivity|].
      left. split; [reflexivity|]. split; [reflexivity|]. constructor; [exact I|constructor].
    - exists t, (CJoin i ops), (CFault ops), [EvFault t i].
      split; [exact H0|]. split; [reflexivity|]. split; [reflexivity|].
      left. split; [reflexivity|]. split; [reflexivity|]. constructor; [exact I|constructor].
  Qed.

  Lemma taken_by_neutral : forall u ev, Forall hand_neutral ev -> taken_by u ev = [] /\ started_by u ev = [] /\ taken ev = [] /\ started ev = [].
  Proof.
    intros u ev H. induction H as [|x r Hx _ (I1 & I2 & I3 & I4)]; [auto|].
    unfold taken_by, started_by, taken, started in *. cbn [flat_map]. rewrite I1, I2, I3, I4.
    destruct x; cbn in Hx; try contradiction; auto.
  Qed.

  Lemma count_inhand_upd : forall ps t p p' k, nth_error ps t = Some p ->
    count_occ Nat.eq_dec (inhand (upd t p' ps)) k + count_occ Nat.eq_dec (inhand1 p) k =
    count_occ Nat.eq_dec (inhand ps) k + count_occ Nat.eq_dec (inhand1 p') k.
  Proof.
    induction ps as [|h r IH]; intros [|t] p p' k H; cbn in H; try discriminate.
    - inversion H; subst. unfold inhand. cbn [upd flat_map]. rewrite !count_occ_app. unfold task in *. ring.
    - unfold inhand in *. cbn [upd flat_map]. rewrite !count_occ_app. specialize (IH _ _ p' k H). unfold task in *. lia.
  Qed.

  Record HInv (s : psys) : Prop := {
    hi_by : forall t, taken_by t (evs s) = started_by t (evs s) ++ inhand_at s t;
    hi_count : forall k, count_occ Nat.eq_dec (taken (evs s)) k =
                         count_occ Nat.eq_dec (started (evs s)) k + count_occ Nat.eq_dec (inhand (pcs s)) k;
    hi_who : forall x, In x (evs s) ->
               match x with
               | EvTake t _ | EvStart t _ => t < nw
               | EvInline _ _ => nw = 0
               | EvAccept t _ => nw <= t /\ nw <> 0
               | _ => True
               end
  }.

  Lemma inhand_at_upd : forall s t p p' e u, nth_error (pcs s) t = Some p ->
    inhand_at (mkP (mon s) (upd t p' (pcs s)) e) u = if Nat.eqb u t then inhand1 p' else inhand_at s u.
  Proof.
    intros s t p p' e u Hn. unfold inhand_at, pc_at. cbn [pcs]. destruct (Nat.eqb u t) eqn:E.
    - apply Nat.eqb_eq in E; subst. rewrite (nth_error_upd_eq _ _ _ _ Hn). reflexivity.
    - apply Nat.eqb_neq in E. rewrite nth_error_upd_neq by auto. reflexivity.
  Qed.

  Lemma HInv_step : forall s l s', coh s -> HInv s -> pstep s l = Some s' -> HInv s'.
  Proof.
    intros s l s' C [Hb Hc Hw] H.
    destruct (pstep_hand _ _ _ C H) as [(Ep & Ee)|(t & p & p' & ev & Hn & Ep & Ee & Hcase)].
    - constructor; unfold inhand_at, pc_at in *; rewrite ?Ep, ?Ee; auto.
    - assert (Hat : forall u, inhand_at s' u = if Nat.eqb u t then inhand1 p' else inhand_at s u).
      { intros u. unfold inhand_at, pc_at. rewrite Ep. destruct (Nat.eqb u t) eqn:E.
        - apply Nat.eqb_eq in E; subst. rewrite (nth_error_upd_eq _ _ _ _ Hn). reflexivity.
        - apply Nat.eqb_neq in E. rewrite nth_error_upd_neq by auto. reflexivity. }
      assert (Hpt : inhand_at s t = inhand1 p) by (unfold inhand_at, pc_at; rewrite Hn; reflexivity).
      pose proof (fun k => count_inhand_upd _ _ _ p' k Hn) as Hcnt.
      destruct Hcase as [(E1 & E2 & Hneu)|[(k & -> & -> & -> & Hlt)|(k & -> & -> & -> & Hlt)]].
      + constructor.
        * intros u. rewrite Ee, Hat. unfold taken_by, started_by in *. rewrite !flat_map_app.
          destruct (taken_by_neutral u ev Hneu) as (T1 & T2 & _). unfold taken_by, started_by in T1, T2.
          rewrite T1, T2, !app_nil_r, Hb. destruct (Nat.eqb u t) eqn:E; auto.
          apply Nat.eqb_eq in E; subst. rewrite Hpt, E1, E2. reflexivity.
        * intros k. rewrite Ee, Ep. unfold taken, started in *. rewrite !flat_map_app.
          destruct (taken_by_neutral 0 ev Hneu) as (_ & _ & T3 & T4). unfold taken, started in T3, T4.
          rewrite T3, T4, !app_nil_r, Hc. specialize (Hcnt k). rewrite E1, E2 in Hcnt. unfold task in *. cbn [count_occ] in Hcnt. lia.
        * intros x Hin. rewrite Ee in Hin. apply in_app_or in Hin. destruct Hin as [Hin|Hin]; [exact (Hw _ Hin)|].
          rewrite Forall_forall in Hneu. specialize (Hneu _ Hin). destruct x; cbn in Hneu; auto; contradiction.
      + constructor.
        * intros u. rewrite Ee, Hat. unfold taken_by, started_by in *. rewrite !flat_map_app. cbn [flat_map].
          rewrite !app_nil_r, Hb. rewrite (Nat.eqb_sym t u). destruct (Nat.eqb u t) eqn:E.
          -- apply Nat.eqb_eq in E; subst. rewrite Hpt. cbn. rewrite ?app_nil_r. reflexivity.
          -- rewrite ?app_nil_r. reflexivity.
        * intros k0. rewrite Ee, Ep. unfold taken, started in *. rewrite !flat_map_app. cbn [flat_map].
          rewrite !app_nil_r, count_occ_app, Hc. specialize (Hcnt k0). cbn [inhand1] in Hcnt. unfold task in *. cbn [count_occ] in *. lia.
        * intros x Hin. rewrite Ee in Hin. apply in_app_or in Hin. destruct Hin as [Hin|[<-|[]]]; [exact (Hw _ Hin)|exact Hlt].
      + constructor.
        * intros u. rewrite Ee, Hat. unfold taken_by, started_by in *. rewrite !flat_map_app. cbn [flat_map].
          rewrite !app_nil_r, Hb. rewrite (Nat.eqb_sym t u). destruct (Nat.eqb u t) eqn:E.
          -- apply Nat.eqb_eq in E; subst. rewrite Hpt. cbn. rewrite ?app_nil_r, <- ?app_assoc. reflexivity.
          -- rewrite ?app_nil_r. reflexivity.
        * intros k0. rewrite Ee, Ep. unfold taken, started in *. rewrite !flat_map_app. cbn [flat_map].
          rewrite !app_nil_r, count_occ_app, Hc. specialize (Hcnt k0). cbn [inhand1] in Hcnt. unfold task in *. cbn [count_occ] in *. lia.
        * intros x Hin. rewrite Ee in Hin. apply in_app_or in Hin. destruct Hin as [Hin|[<-|[]]]; [exact (Hw _ Hin)|exact Hlt].
  Qed.

  Theorem HInv_reach : forall progs s, preach nw maxq (pinit nw progs) s -> HInv s.
  Proof.
    intros progs s Hr. assert (coh s /\ HInv s) as (_ & I); auto. revert s Hr. apply preach_inv.
    - split; [apply coh_init|]. constructor.
      + intros t. cbn. unfold inhand_at, pc_at. cbn [pinit pcs].
        destruct (nth_error (repeat WInit nw ++ map CIdle progs) t) as [p|] eqn:E; auto.
        apply nth_error_In in E. apply in_app_or in E. destruct E as [E|E].
        * apply repeat_spec in E. subst. reflexivity.
        * apply in_map_iff in E. destruct E as (o & <- & _). reflexivity.
      + intros k. cbn. symmetry. apply count_occ_not_In. unfold inhand. intro Hin. apply in_flat_map in Hin.
        destruct Hin as (p & Hp & Hk). apply in_app_or in Hp. destruct Hp as [Hp|Hp].
        * apply repeat_spec in Hp. subst. destruct Hk.
        * apply in_map_iff in Hp. destruct Hp as (o & <- & _). destruct Hk.
      + intros x [].
    - intros s l s' _ (C & I) H. split; [eapply coh_step|eapply HInv_step]; eauto.
  Qed.

  (* ================================================================ stop(): flag, joins, nothing afterwards *)
  Lemma running_stays_false : forall s l s', pstep s l = Some s' ->
    running (shared (mon s)) = false -> running (shared (mon s')) = false.
  Proof.
    intros s l s' H Hf. destruct (pstep_log _ _ _ H) as [(-> & _)|[(-> & _)|(t & o & s1 & r & sg & Hb & -> & _)]]; auto.
    destruct (body_ret_cases _ _ _ _ _ Hb) as [(k & _ & _ & -> & _)|[(k & _ & Hr & _)|[(_ & _ & _ & -> & _)|
      [(k & q' & _ & _ & -> & _)|[(_ & -> & _)|(_ & -> & _)]]]]]; auto; congruence.
  Qed.

  Lemma pc_at_upd : forall m ps e t p' u q, pc_at (mkP m (upd t p' ps) e) u = Some q ->
    (u = t /\ q = p') \/ (u <> t /\ nth_error ps u = Some q).
  Proof.
    intros m ps e t p' u q H. unfold pc_at in H. cbn [pcs] in H. destruct (Nat.eq_dec u t) as [->|Hne].
    - left. split; auto. destruct (nth_error ps t) as [p|] eqn:E.
      + rewrite (nth_error_upd_eq _ _ _ _ E) in H. congruence.
      + exfalso. apply nth_error_None in E. assert (nth_error (upd t p' ps) t <> None) as Hx by congruence.
        apply nth_error_Some in Hx. rewrite upd_length in Hx. lia.
    - right. split; auto. rewrite nth_error_upd_neq in H by auto. exact H.
  Qed.

  Lemma pc_at_upd_other : forall m ps e t p' u q, nth_error ps u = Some q -> u <> t ->
    pc_at (mkP m (upd t p' ps) e) u = Some q.
  Proof. intros. unfold pc_at. cbn [pcs]. rewrite nth_error_upd_neq by auto. assumption. Qed.

  Lemma wdone_stable : forall s l s' j, coh s -> pstep s l = Some s' ->
    pc_at s j = Some WDone -> pc_at s' j = Some WDone.
  Proof.
    intros s l s' j C H Hj. pose proof (pstep_sound _ _ _ H) as R.
    inversion R; subst; auto;
      try (apply pc_at_upd_other; [exact Hj|]; intro; subst; unfold pc_at in *; congruence).
    apply pc_at_upd_other; [exact Hj|]. intro; subst.
    destruct C as (_ & Hc). destruct (Hc _ _ _ Hj H0) as (_ & Hs & _). congruence.
  Qed.


  Record SInv (s : psys) : Prop := {
    si_join : forall t i ops, pc_at s t = Some (CJoin i ops) ->
                running (shared (mon s)) = false /\ forall j, j < i -> j < nw -> pc_at s j = Some WDone;
    si_ret : existsb is_stopret (evs s) = true ->
                running (shared (mon s)) = false /\ forall j, j < nw -> pc_at s j = Some WDone;
    si_after : Forall after_stop_ok (after is_stopret (evs s))
  }.

  Lemma after_ok_snoc1 : forall e x, Forall after_stop_ok (after is_stopret e) ->
    (existsb is_stopret e = true -> after_stop_ok x) ->
    Forall after_stop_ok (after is_stopret (e ++ [x])).
  Proof.
    intros e x H Hx. rewrite after_snoc. destruct (existsb is_stopret e); [|constructor].
    apply Forall_app. split; auto.
  Qed.

  Lemma ev_of_no_stopret : forall t o r, existsb is_stopret (ev_of t o r) = false.
  Proof. intros t o r. destruct o; destruct r as [| |[k0|]| |]; reflexivity. Qed.

  Lemma SInv_step : forall s l s', coh s -> SInv s -> pstep s l = Some s' -> SInv s'.
  Proof.
    intros s l s' C I H.
    pose proof (running_stays_false _ _ _ H) as F1.
    pose proof (fun j => wdone_stable _ _ _ j C H) as F2.
    pose proof (pstep_sound _ _ _ H) as R. destruct I as [J Rt A].
    assert (Jold : forall t i ops, pc_at s t = Some (CJoin i ops) ->
              running (shared (mon s')) = false /\ forall j, j < i -> j < nw -> pc_at s' j = Some WDone).
    { intros u i ops Hu. destruct (J _ _ _ Hu) as (Hr & Hd). split; auto. }
    assert (Rold : existsb is_stopret (evs s) = true ->
              running (shared (mon s')) = false /\ forall j, j < nw -> pc_at s' j = Some WDone).
    { intros He. destruct (Rt He) as (Hr & Hd). split; auto. }
    clear F1.
    inversion R; subst.
    - constructor; [exact Jold|exact Rold|exact A].
    - constructor; [exact Jold|exact Rold|exact A].
    - constructor; [exact Jold|exact Rold|exact A].
    - constructor; [exact Jold|exact Rold|exact A].
    - (* return from a section *)
      pose proof (cohL_pc_at _ _ _ _ C H0) as Hpc.
      assert (Hc1 : coh1 t (nth t (pcs s) WDone) th) by (destruct C as (_ & Hc); eauto).
      constructor.
      + intros u i ops Hu. destruct (pc_at_upd _ _ _ _ _ _ _ Hu) as [(-> & E)|(Hne & E)]; [|exact (Jold _ _ _ E)].
        destruct (nth t (pcs s) WDone) as [| |kk| |ops0|ops0|ops0|i0 ops0| |ops0] eqn:Ep; cbn in E;
          try discriminate E; try (destruct r as [| |[k0|]| |]; discriminate E).
        * inversion E; subst. destruct Hc1 as (_ & Hq). rewrite H2 in Hq. inversion Hq; subst.
          destruct (body_ret_cases _ _ _ _ _ H3) as [(k & Ho & _)|[(k & Ho & _)|[(Ho & _)|
            [(k & q' & Ho & _)|[(_ & -> & _)|(Ho & _)]]]]]; try discriminate. cbn. split; auto. intros j Hj; lia.
        * (* was CJoin already: impossible, the thread is inside a section *)
          destruct Hc1 as (_ & Hs & _). congruence.
      + cbn [evs]. rewrite existsb_app, ev_of_no_stopret, orb_false_r. exact Rold.
      + cbn [evs]. destruct (ev_of t o r) as [|x [|y rr]] eqn:Eev.
        * rewrite app_nil_r. exact A.
        * apply after_ok_snoc1; auto. intro He. destruct (Rt He) as (Hrf & Hd).
          destruct (body_ret_cases _ _ _ _ _ H3) as [(k & -> & _ & _ & -> & _)|[(k & -> & Hr & _)|[(-> & _ & _ & _ & -> & _)|
            [(k & q' & -> & _ & _ & -> & _)|[(-> & _ & -> & _)|(-> & _ & -> & _)]]]]]; cbn in Eev; inversion Eev; subst; try exact I.
          -- congruence.
          -- exfalso. destruct (nth t (pcs s) WDone) eqn:Ep; cbn in Hc1;
               try (destruct Hc1 as (_ & _ & Hq); congruence).
             ++ destruct Hc1 as (Hlt & _). specialize (Hd _ Hlt). unfold pc_at in Hd. congruence.
             ++ destruct Hc1 as (_ & o' & Hq & [->|(_ & k' & ->)]); rewrite H2 in Hq; discriminate.
             ++ destruct Hc1 as (_ & Hq). rewrite H2 in Hq. discriminate.
        * exfalso. destruct o; destruct r as [| |[k0|]| |]; discriminate Eev.
    - constructor; [|exact Rold|exact A].
      intros u i ops Hu. destruct (pc_at_upd _ _ _ _ _ _ _ Hu) as [(-> & E)|(Hne & E)]; [discriminate E|exact (Jold _ _ _ E)].
    - constructor; [|exact Rold|exact A].
      intros u i ops Hu. destruct (pc_at_upd _ _ _ _ _ _ _ Hu) as [(-> & E)|(Hne & E)]; [discriminate E|exact (Jold _ _ _ E)].
    - constructor.
      + intros u i ops Hu. destruct (pc_at_upd _ _ _ _ _ _ _ Hu) as [(-> & E)|(Hne & E)]; [discriminate E|exact (Jold _ _ _ E)].
      + cbn [evs]. rewrite existsb_snoc. cbn. rewrite orb_false_r. exact Rold.
      + cbn [evs]. apply after_ok_snoc1; auto. intro He. exfalso. destruct (Rt He) as (_ & Hd).
        destruct C as (Hl & Hc).
        destruct (nth_error (threads (mon s)) t) as [th|] eqn:E.
        * destruct (Hc _ _ _ H0 E) as (Hlt & _). specialize (Hd _ Hlt). congruence.
        * apply nth_error_None in E. assert (nth_error (pcs s) t <> None) as Hx by (unfold pc_at in H0; congruence).
          apply nth_error_Some in Hx. lia.
    - constructor.
      + intros u i ops0 Hu. destruct (pc_at_upd _ _ _ _ _ _ _ Hu) as [(-> & E)|(Hne & E)]; [discriminate E|exact (Jold _ _ _ E)].
      + cbn [evs]. rewrite existsb_snoc. cbn. rewrite orb_false_r. exact Rold.
      + cbn [evs]. apply after_ok_snoc1; auto. intro; exact I.
    - constructor; [|exact Rold|exact A].
      intros u i ops0 Hu. destruct (pc_at_upd _ _ _ _ _ _ _ Hu) as [(-> & E)|(Hne & E)]; [|exact (Jold _ _ _ E)].
      destruct uo; discriminate E.
    - constructor.
      + intros u i0 ops0 Hu. destruct (pc_at_upd _ _ _ _ _ _ _ Hu) as [(-> & E)|(Hne & E)]; [|exact (Jold _ _ _ E)].
        inversion E; subst. destruct (Jold _ _ _ H0) as (Hr & Hd). split; auto.
        intros j Hj Hjn. destruct (Nat.eq_dec j i) as [->|Hne]; [apply F2; exact H2|apply Hd; lia].
      + cbn [evs]. rewrite existsb_snoc. cbn. rewrite orb_false_r. exact Rold.
      + cbn [evs]. apply after_ok_snoc1; auto. intro; exact I.
    - destruct (Jold _ _ _ H0) as (Hr & Hd). constructor.
      + intros u i0 ops0 Hu. destruct (pc_at_upd _ _ _ _ _ _ _ Hu) as [(-> & E)|(Hne & E)]; [discriminate E|exact (Jold _ _ _ E)].
      + intros _. split; auto. intros j Hj. apply Hd; lia.
      + cbn [evs]. apply after_ok_snoc1; auto. intro; exact I.
    - constructor.
      + intros u i0 ops0 Hu. destruct (pc_at_upd _ _ _ _ _ _ _ Hu) as [(-> & E)|(Hne & E)]; [discriminate E|exact (Jold _ _ _ E)].
      + cbn [evs]. rewrite existsb_snoc. cbn. rewrite orb_false_r. exact Rold.
      + cbn [evs]. apply after_ok_snoc1; auto. intro; exact I.
    - constructor.
      + intros u i0 ops0 Hu. destruct (pc_at_upd _ _ _ _ _ _ _ Hu) as [(-> & E)|(Hne & E)]; [discriminate E|exact (Jold _ _ _ E)].
      + cbn [evs]. rewrite existsb_snoc. cbn. rewrite orb_false_r. exact Rold.
      + cbn [evs]. apply after_ok_snoc1; auto. intro; exact I.
  Qed.

  Theorem SInv_reach : forall progs s, preach nw maxq (pinit nw progs) s -> SInv s.
  Proof.
    intros progs s Hr. assert (coh s /\ SInv s) as (_ & I); auto. revert s Hr. apply preach_inv.
    - split; [apply coh_init|]. constructor.
      + intros t i ops Hp. exfalso. unfold pc_at, pinit in Hp. cbn [pcs] in Hp. apply nth_error_In in Hp.
        apply in_app_or in Hp. destruct Hp as [Hp|Hp].
        * apply repeat_spec in Hp. discriminate.
        * apply in_map_iff in Hp. destruct Hp as (o & Ho & _). discriminate.
      + cbn. discriminate.
      + cbn. constructor.
    - intros s l s' _ (C & I) H. split; [eapply coh_step|eapply SInv_step]; eauto.
  Qed.

  (* ================================================================ ranking: every schedule is finite up to spurious wake-ups *)
  Lemma wsum_upd : forall A (f : A -> nat) n x a l, nth_error l n = Some a ->
    wsum f (upd n x l) + f a = wsum f l + f x.
  Proof.
    intros A f n x a l; revert n; induction l as [|h r IH]; intros [|n] H; cbn in H; try discriminate.
    - inversion H; subst. cbn. lia.
    - cbn [upd wsum fold_right]. specialize (IH _ H). unfold wsum in IH. lia.
  Qed.

  Lemma combine_upd : forall A C n (a : A) (b : C) l1 l2,
    combine (upd n a l1) (upd n b l2) = upd n (a, b) (combine l1 l2).
  Proof.
    intros A C n a b l1; revert n; induction l1 as [|h1 r1 IH]; intros n l2.
    - destruct n; reflexivity.
    - destruct l2 as [|h2 r2]; destruct n as [|n]; cbn; auto. f_equal. apply IH.
  Qed.

  Lemma combine_app_eq : forall A C (l1 l2 : list A) (r1 r2 : list C), length l1 = length r1 ->
    combine (l1 ++ l2) (r1 ++ r2) = combine l1 r1 ++ combine l2 r2.
  Proof.
    intros A C l1; induction l1 as [|a l1 IH]; intros l2 [|b r1] r2 H; cbn in H; try discriminate; cbn; auto.
    f_equal. apply IH. lia.
  Qed.

  Lemma nth_error_combine : forall A C (l1 : list A) (l2 : list C) n a b,
    nth_error l1 n = Some a -> nth_error l2 n = Some b -> nth_error (combine l1 l2) n = Some (a, b).
  Proof.
    intros A C l1; induction l1 as [|h1 r1 IH]; intros [|h2 r2] [|n] a b H1 H2; cbn in *; try discriminate.
    - congruence.
    - eauto.
  Qed.

  Lemma views_upd_both : forall s t p th p' th', nth_error (pcs s) t = Some p ->
    nth_error (threads (mon s)) t = Some th ->
    combine (upd t p' (pcs s)) (upd t th' (threads (mon s))) = upd t (p', th') (views s) /\
    nth_error (views s) t = Some (p, th).
  Proof.
    intros. split; [apply combine_upd|apply nth_error_combine; auto].
  Qed.

  Lemma views_upd_pc : forall s t p th p', nth_error (pcs s) t = Some p ->
    nth_error (threads (mon s)) t = Some th ->
    combine (upd t p' (pcs s)) (threads (mon s)) = upd t (p', th) (views s).
  Proof.
    intros s t p th p' Hp Hth. rewrite <- (upd_same t th (threads (mon s)) Hth) at 1. apply combine_upd.
  Qed.

  Lemma views_upd_th : forall s t p th th', nth_error (pcs s) t = Some p ->
    nth_error (threads (mon s)) t = Some th ->
    combine (pcs s) (upd t th' (threads (mon s))) = upd t (p, th') (views s).
  Proof.
    intros s t p th th' Hp Hth. rewrite <- (upd_same t p (pcs s) Hp) at 1. apply combine_upd.
  Qed.

  Lemma prank_le : forall r v, prank nw r v <= 10 + nw.
  Proof.
    intros r [p th]. unfold prank. cbn [fst snd]. destruct p as [| |k| |[|o ops]|ops|ops|i ops| |ops]; try (destruct r; lia);
      try (unfold srank; destruct (st th); lia); try lia.
  Qed.

  Lemma rank_sum_le : forall r vs, wsum (prank nw r) vs <= length vs * (10 + nw).
  Proof.
    intros r vs. induction vs as [|v vs IH]; cbn [wsum fold_right length]; [lia|].
    pose proof (prank_le r v). unfold wsum in IH. lia.
  Qed.

  Definition pm (n w : nat) (r : bool) (vs : list view) : nat := (n * (10 + nw) + 1) * w + wsum (prank nw r) vs.

  Lemma pmeasure_pm : forall s, pmeasure nw s = pm (length (pcs s)) (pwork s) (running (shared (mon s))) (views s).
  Proof. reflexivity. Qed.

  Lemma pm_work : forall n w w' r r' vs vs', w' < w -> length vs' <= n -> pm n w' r' vs' < pm n w r vs.
  Proof.
    intros n w w' r r' vs vs' Hw Hl. unfold pm. pose proof (rank_sum_le r' vs') as Hb.
    apply lex_lt; auto. assert (length vs' * (10 + nw) <= n * (10 + nw)) by (apply Nat.mul_le_mono_r; auto). lia.
  Qed.

  Lemma pm_rank : forall n w r vs t v v', nth_error vs t = Some v -> prank nw r v' < prank nw r v ->
    pm n w r (upd t v' vs) < pm n w r vs.
  Proof.
    intros n w r vs t v v' Hn Hlt. unfold pm. pose proof (wsum_upd _ (prank nw r) t v' v vs Hn). lia.
  Qed.

  Lemma work_rank_upd : forall vs t v v', nth_error vs t = Some v -> work1 v' = work1 v ->
    wsum work1 (upd t v' vs) = wsum work1 vs.
  Proof. intros vs t v v' Hn He. pose proof (wsum_upd _ work1 t v' v vs Hn). lia. Qed.

  Lemma views_length : forall s, length (views s) <= length (pcs s).
  Proof. intros s. unfold views. rewrite combine_length. lia. Qed.

  Lemma pc_ops_after_ret : forall p r, pc_ops (after_ret p r) = pc_ops p.
  Proof. intros p r. destruct p; cbn; auto. destruct r as [| |[k|]| |]; reflexivity. Qed.

  Lemma wsum_work_wakes : forall ps ths ths', wakes ths ths' ->
    wsum work1 (combine ps ths') = wsum work1 (combine ps ths).
  Proof.
    intros ps ths ths' H. revert ps. induction H as [|a b l l' Hk Hw IH]; intros [|p ps]; cbn; auto.
    unfold wsum in IH. rewrite IH. unfold work1. cbn [fst snd]. rewrite (wk_prog _ _ Hk). reflexivity.
  Qed.

  Lemma uw_pw : forall uo ops, pw (fst (call_of uo ops)) = uw uo.
  Proof. intros [k| |] ops; reflexivity. Qed.

  Theorem pmeasure_step : forall s l s', coh s -> pstep s l = Some s' -> p_is_spurious l = false ->
    pmeasure nw s' < pmeasure nw s.
  Proof.
    intros s l s' C H Hl. pose proof (pstep_sound _ _ _ H) as R. rewrite !pmeasure_pm.
    inversion R; subst; try discriminate Hl; cbn [pcs mon shared threads]; rewrite ?upd_length.
    - (* acquire *)
      pose proof (cohL_pc_at _ _ _ _ C H0) as Hpc.
      assert (Hc1 : coh1 t (nth t (pcs s) WDone) th) by (destruct C as (_ & Hc); eauto).
      unfold views at 1. cbn [pcs mon threads]. rewrite (views_upd_th _ _ _ _ _ Hpc H0).
      assert (Hv : nth_error (views s) t = Some (nth t (pcs s) WDone, th)) by (apply nth_error_combine; auto).
      unfold pwork, views at 1. cbn [pcs mon threads shared]. rewrite (views_upd_th _ _ _ _ _ Hpc H0).
      rewrite (work_rank_upd _ _ _ _ Hv) by (unfold work1; cbn [fst snd prog]; rewrite H2; reflexivity).
      fold (pwork s). eapply pm_rank; eauto. unfold prank. cbn [fst snd st]. rewrite H1.
      destruct (nth t (pcs s) WDone); cbn in Hc1; try (destruct Hc1 as (_ & _ & Hq); congruence); cbn; lia.
    - (* block *)
      pose proof (cohL_pc_at _ _ _ _ C H0) as Hpc.
      assert (Hc1 : coh1 t (nth t (pcs s) WDone) th) by (destruct C as (_ & Hc); eauto).
      assert (Hv : nth_error (views s) t = Some (nth t (pcs s) WDone, th)) by (apply nth_error_combine; auto).
      unfold pwork, views at 1 2. cbn [pcs mon threads shared]. rewrite !(views_upd_th _ _ _ _ _ Hpc H0).
      rewrite (work_rank_upd _ _ _ _ Hv) by (unfold work1; cbn [fst snd prog]; rewrite H2; reflexivity).
      fold (pwork s). eapply pm_rank; eauto. unfold prank. cbn [fst snd st]. rewrite H1.
      destruct (nth t (pcs s) WDone); cbn in Hc1; try (destruct Hc1 as (_ & Hq & _); congruence); cbn; lia.
    - (* reacquire *)
      pose proof (cohL_pc_at _ _ _ _ C H0) as Hpc.
      assert (Hc1 : coh1 t (nth t (pcs s) WDone) th) by (destruct C as (_ & Hc); eauto).
      assert (Hv : nth_error (views s) t = Some (nth t (pcs s) WDone, th)) by (apply nth_error_combine; auto).
      unfold pwork, views at 1 2. cbn [pcs mon threads shared]. rewrite !(views_upd_th _ _ _ _ _ Hpc H0).
      rewrite (work_rank_upd _ _ _ _ Hv) by reflexivity.
      fold (pwork s). eapply pm_rank; eauto. unfold prank. cbn [fst snd st]. rewrite H1.
      destruct (nth t (pcs s) WDone); cbn in Hc1; try (destruct Hc1 as (_ & Hq & _); congruence); cbn; lia.
    - (* return *)
      pose proof (cohL_pc_at _ _ _ _ C H0) as Hpc.
      assert (Hc1 : coh1 t (nth t (pcs s) WDone) th) by (destruct C as (_ & Hc); eauto).
      assert (Hv : nth_error (views s) t = Some (nth t (pcs s) WDone, th)) by (apply nth_error_combine; auto).
      set (p := nth t (pcs s) WDone) in *.
      set (ths1 := upd t (mkThread rest Idle) (threads (mon s))).
      assert (Hw : wsum work1 (combine (upd t (after_ret p r) (pcs s)) (apply_signals sg picks ths1)) + pw o =
                   wsum work1 (views s)).
      { rewrite (wsum_work_wakes _ _ _ (apply_signals_wakes sg picks ths1)). unfold ths1.
        rewrite combine_upd. pose proof (wsum_upd _ work1 t (after_ret p r, mkThread rest Idle) _ _ Hv) as Hu.
        assert (W1 : work1 (after_ret p r, mkThread rest Idle) = wsum uw (pc_ops p) + wsum pw rest)
          by (unfold work1; cbn [fst snd prog]; rewrite pc_ops_after_ret; reflexivity).
        assert (W2 : work1 (p, th) = wsum uw (pc_ops p) + (pw o + wsum pw rest))
          by (unfold work1; cbn [fst snd]; rewrite H2; reflexivity).
        rewrite W1, W2 in Hu. unfold views in *. lia. }
      destruct (body_ret_cases _ _ _ _ _ H3) as [(k & -> & Hf & -> & -> & ->)|[(k & -> & Hr & _ & -> & -> & ->)|[(-> & Hq & Hf & -> & -> & ->)|
        [(k & q' & -> & Hq & -> & -> & ->)|[(-> & -> & -> & ->)|(-> & -> & -> & ->)]]]]].
      + apply pm_work; [|unfold views; cbn [pcs mon threads]; rewrite combine_length, upd_length; lia].
        unfold pwork, views at 1. cbn [pcs mon threads shared pw] in *. lia.
      + apply pm_work; [|unfold views; cbn [pcs mon threads]; rewrite combine_length, upd_length; lia].
        unfold pwork, views at 1. cbn [pcs mon threads shared pw queue running] in *. rewrite app_length, Hr. cbn [length]. lia.
      + (* take() returning no task: only after stop *)
        cbn [apply_signals] in *. unfold pwork, views at 1 2. cbn [pcs mon threads shared]. unfold ths1.
        rewrite !combine_upd. fold (views s).
        rewrite (work_rank_upd _ _ _ _ Hv).
        2:{ unfold work1. cbn [fst snd prog]. rewrite pc_ops_after_ret, H2.
            destruct C as (_ & Hc). clear Hw. subst p.
            destruct (nth t (pcs s) WDone); cbn in Hc1; try (destruct Hc1 as (_ & _ & Hq'); congruence).
            - destruct Hc1 as (_ & Hq'). rewrite H2 in Hq'. inversion Hq'; subst. reflexivity.
            - destruct Hc1 as (_ & o' & Hq' & [->|(_ & k' & ->)]); rewrite H2 in Hq'; discriminate.
            - destruct Hc1 as (_ & Hq'). rewrite H2 in Hq'. discriminate. }
        fold (pwork s). eapply pm_rank; eauto. unfold prank. cbn [fst snd st]. rewrite H1, Hf. subst p.
        destruct (nth t (pcs s) WDone); cbn in Hc1; try (destruct Hc1 as (_ & Hq' & _); congruence); cbn; try lia.
        * destruct Hc1 as (_ & o' & Hq' & [->|(_ & k' & ->)]); rewrite H2 in Hq'; discriminate.
        * destruct Hc1 as (_ & Hq'). rewrite H2 in Hq'. discriminate.
      + apply pm_work; [|unfold views; cbn [pcs mon threads]; rewrite combine_length, upd_length; lia].
        unfold pwork, views at 1. cbn [pcs mon threads shared pw queue running] in *. rewrite Hq. cbn [length]. lia.
      + apply pm_work; [|unfold views; cbn [pcs mon threads]; rewrite combine_length, upd_length; lia].
        unfold pwork, views at 1. cbn [pcs mon threads shared pw queue running] in *. destruct (running (shared (mon s))); lia.
      + apply pm_work; [|unfold views; cbn [pcs mon threads]; rewrite combine_length, upd_length; lia].
        unfold pwork, views at 1. cbn [pcs mon threads shared pw] in *. lia.
    - (* load running_ = true *)
      destruct (set_prog_spec _ _ _ _ _ _ _ H2) as (th & Hn & Hs & ->). cbn [shared threads].
      destruct (views_upd_both s t WLoop th WTake (mkThread [PTake] Idle) H0 Hn) as (Ev & Hv).
      unfold pwork, views at 1 2. cbn [pcs mon threads shared]. rewrite !Ev.
      assert (Hc1 : coh1 t WLoop th) by (destruct C as (_ & Hc); eauto). destruct Hc1 as (_ & _ & Hq).
      rewrite (work_rank_upd _ _ _ _ Hv) by (unfold work1; cbn [fst snd prog pc_ops]; rewrite Hq; reflexivity).
      fold (pwork s). eapply pm_rank; eauto. unfold prank. cbn [fst snd st]. rewrite H1. cbn. lia.
    - (* load running_ = false *)
      destruct C as (Hlen & Hc).
      assert (exists th, nth_error (threads (mon s)) t = Some th) as (th & Hn).
      { destruct (nth_error (threads (mon s)) t) eqn:E; eauto. exfalso. apply nth_error_None in E.
        assert (nth_error (pcs s) t <> None) as Hx by (unfold pc_at in H0; congruence). apply nth_error_Some in Hx. lia. }
      assert (Hv : nth_error (views s) t = Some (WLoop, th)) by (apply nth_error_combine; auto).
      unfold pwork, views at 1 2. cbn [pcs mon threads shared]. rewrite !(views_upd_pc _ _ _ _ _ H0 Hn).
      rewrite (work_rank_upd _ _ _ _ Hv) by reflexivity.
      fold (pwork s). eapply pm_rank; eauto. unfold prank. cbn [fst snd st]. rewrite H1. lia.
    - (* call the task *)
      destruct C as (Hlen & Hc).
      assert (exists th, nth_error (threads (mon s)) t = Some th) as (th & Hn).
      { destruct (nth_error (threads (mon s)) t) eqn:E; eauto. exfalso. apply nth_error_None in E.
        assert (nth_error (pcs s) t <> None) as Hx by (unfold pc_at in H0; congruence). apply nth_error_Some in Hx. lia. }
      assert (Hv : nth_error (views s) t = Some (WGot k, th)) by (apply nth_error_combine; auto).
      unfold pwork, views at 1 2. cbn [pcs mon threads shared]. rewrite !(views_upd_pc _ _ _ _ _ H0 Hn).
      rewrite (work_rank_upd _ _ _ _ Hv) by reflexivity.
      fold (pwork s). eapply pm_rank; eauto. unfold prank. cbn [fst snd st]. destruct (running (shared (mon s))); lia.
    - (* inline *)
      destruct C as (Hlen & Hc).
      assert (exists th, nth_error (threads (mon s)) t = Some th) as (th & Hn).
      { destruct (nth_error (threads (mon s)) t) eqn:E; eauto. exfalso. apply nth_error_None in E.
        assert (nth_error (pcs s) t <> None) as Hx by (unfold pc_at in H0; congruence). apply nth_error_Some in Hx. lia. }
      assert (Hv : nth_error (views s) t = Some (CIdle (URun k :: ops), th)) by (apply nth_error_combine; auto).
      apply pm_work; [|unfold views; cbn [pcs mon threads]; rewrite combine_length, upd_length; lia].
      unfold pwork, views at 1. cbn [pcs mon threads shared]. rewrite (views_upd_pc _ _ _ _ _ H0 Hn).
      pose proof (wsum_upd _ work1 t (CIdle ops, th) _ _ Hv) as Hu.
      assert (W1 : work1 (CIdle ops, th) = wsum uw ops + wsum pw (prog th)) by reflexivity.
      assert (W2 : work1 (CIdle (URun k :: ops), th) = 2 + wsum uw ops + wsum pw (prog th)) by reflexivity.
      rewrite W1, W2 in Hu. lia.
    - (* enter a call *)
      destruct (set_prog_spec _ _ _ _ _ _ _ H2) as (th & Hn & Hs & ->). cbn [shared threads].
      destruct (views_upd_both s t _ th (snd (call_of uo ops)) (mkThread [fst (call_of uo ops)] Idle) H0 Hn) as (Ev & Hv).
      unfold pwork, views at 1 2. cbn [pcs mon threads shared]. rewrite !Ev.
      assert (Hc1 : coh1 t (CIdle (uo :: ops)) th) by (destruct C as (_ & Hc); eauto). destruct Hc1 as (_ & _ & Hq).
      rewrite (work_rank_upd _ _ _ _ Hv).
      2:{ unfold work1. cbn [fst snd prog pc_ops]. rewrite Hq. cbn [wsum fold_right]. rewrite uw_pw.
          destruct uo; cbn; lia. }
      fold (pwork s). eapply pm_rank; eauto. unfold prank. cbn [fst snd st]. destruct uo; cbn; lia.
    - (* join one worker *)
      destruct C as (Hlen & Hc).
      assert (exists th, nth_error (threads (mon s)) t = Some th) as (th & Hn).
      { destruct (nth_error (threads (mon s)) t) eqn:E; eauto. exfalso. apply nth_error_None in E.
        assert (nth_error (pcs s) t <> None) as Hx by (unfold pc_at in H0; congruence). apply nth_error_Some in Hx. lia. }
      assert (Hv : nth_error (views s) t = Some (CJoin i ops, th)) by (apply nth_error_combine; auto).
      unfold pwork, views at 1 2. cbn [pcs mon threads shared]. rewrite !(views_upd_pc _ _ _ _ _ H0 Hn).
      rewrite (work_rank_upd _ _ _ _ Hv) by reflexivity.
      fold (pwork s). eapply pm_rank; eauto. unfold prank. cbn [fst snd]. lia.
    - (* stop() returns *)
      destruct C as (Hlen & Hc).
      assert (exists th, nth_error (threads (mon s)) t = Some th) as (th & Hn).
      { destruct (nth_error (threads (mon s)) t) eqn:E; eauto. exfalso. apply nth_error_None in E.
        assert (nth_error (pcs s) t <> None) as Hx by (unfold pc_at in H0; congruence). apply nth_error_Some in Hx. lia. }
      assert (Hv : nth_error (views s) t = Some (CJoin i ops, th)) by (apply nth_error_combine; auto).
      unfold pwork, views at 1 2. cbn [pcs mon threads shared]. rewrite !(views_upd_pc _ _ _ _ _ H0 Hn).
      rewrite (work_rank_upd _ _ _ _ Hv) by reflexivity.
      fold (pwork s). eapply pm_rank; eauto. unfold prank. cbn [fst snd]. destruct ops; lia.
    - (* thread-init callback *)
      destruct C as (Hlen & Hc).
      assert (exists th, nth_error (threads (mon s)) t = Some th) as (th & Hn).
      { destruct (nth_error (threads (mon s)) t) eqn:E; eauto. exfalso. apply nth_error_None in E.
        assert (nth_error (pcs s) t <> None) as Hx by (unfold pc_at in H0; congruence). apply nth_error_Some in Hx. lia. }
      assert (Hv : nth_error (views s) t = Some (WInit, th)) by (apply nth_error_combine; auto).
      unfold pwork, views at 1 2. cbn [pcs mon threads shared]. rewrite !(views_upd_pc _ _ _ _ _ H0 Hn).
      rewrite (work_rank_upd _ _ _ _ Hv) by reflexivity.
      fold (pwork s). eapply pm_rank; eauto. unfold prank. cbn [fst snd st]. destruct (running (shared (mon s))); lia.
    - (* second join: fault *)
      destruct C as (Hlen & Hc).
      assert (exists th, nth_error (threads (mon s)) t = Some th) as (th & Hn).
      { destruct (nth_error (threads (mon s)) t) eqn:E; eauto. exfalso. apply nth_error_None in E.
        assert (nth_error (pcs s) t <> None) as Hx by (unfold pc_at in H0; congruence). apply nth_error_Some in Hx. lia. }
      assert (Hv : nth_error (views s) t = Some (CJoin i ops, th)) by (apply nth_error_combine; auto).
      unfold pwork, views at 1 2. cbn [pcs mon threads shared]. rewrite !(views_upd_pc _ _ _ _ _ H0 Hn).
      rewrite (work_rank_upd _ _ _ _ Hv) by reflexivity.
      fold (pwork s). eapply pm_rank; eauto. unfold prank. cbn [fst snd]. lia.
  Qed.

  Lemma pm_rank_le : forall n w r vs t v v', nth_error vs t = Some v -> prank nw r v' <= prank nw r v + 2 ->
    pm n w r (upd t v' vs) <= pm n w r vs + 2.
  Proof.
    intros n w r vs t v v' Hn Hle. unfold pm. pose proof (wsum_upd _ (prank nw r) t v' v vs Hn). lia.
  Qed.

  Theorem pmeasure_spurious : forall s t s', coh s -> pstep s (LMon (LSpurious t)) = Some s' ->
    pmeasure nw s' <= pmeasure nw s + 2.
  Proof.
    intros s t s' C H. pose proof (pstep_sound _ _ _ H) as R. rewrite !pmeasure_pm.
    inversion R; subst; cbn [pcs mon shared threads].
    pose proof (cohL_pc_at _ _ _ _ C H1) as Hpc.
    assert (Hv : nth_error (views s) t = Some (nth t (pcs s) WDone, th)) by (apply nth_error_combine; auto).
    unfold pwork, views at 1 2. cbn [pcs mon threads shared]. rewrite !(views_upd_th _ _ _ _ _ Hpc H1).
    rewrite (work_rank_upd _ _ _ _ Hv) by reflexivity.
    fold (pwork s). eapply pm_rank_le; eauto. unfold prank. cbn [fst snd st signalled_of]. rewrite H2.
    destruct (nth t (pcs s) WDone) as [| | | |[|]| | | | |]; cbn; lia.
  Qed.

  (* from a coherent (in particular: reachable) state, EVERY schedule: the number of steps that are
     not injected spurious wake-ups is bounded *)
  Theorem prun_bound : forall ls s s', coh s -> prun nw maxq s ls = Some s' ->
    pmeasure nw s' + pnonspur ls <= pmeasure nw s + 2 * pnspur ls.
  Proof.
    induction ls as [|l r IH]; intros s s' C H; cbn in H.
    - inversion H; subst. cbn. lia.
    - destruct (pstep s l) as [s1|] eqn:E; [|discriminate].
      specialize (IH _ _ (coh_step _ _ _ C E) H).
      unfold pnonspur, pnspur in *. cbn [filter]. destruct (p_is_spurious l) eqn:El; cbn [negb length].
      + destruct l as [[| |t|]| | | | |]; try discriminate. pose proof (pmeasure_spurious _ _ _ C E). lia.
      + pose proof (pmeasure_step _ _ _ C E El). lia.
  Qed.

  (* ================================================================ quiescent states *)
  Lemma mon_body_any_picks : forall s t picks s', pstep s (LMon (LBody t picks)) = Some s' ->
    exists s'', pstep s (LMon (LBody t [])) = Some s''.
  Proof.
    intros s t picks s' H. cbn in *. unfold mon_step in *.
    destruct (step B (mon s) (LBody t picks)) as [m'|] eqn:E; [|discriminate].
    destruct (body_any_picks _ _ _ _ _ _ _ _ E) as (m'' & E'). rewrite E'.
    destruct (ret_of maxq (mon s) t) as [[o r]|]; eauto.
  Qed.

  Definition label_thread (l : plabel) : nat :=
    match l with
    | LMon (LAcquire t) | LMon (LBody t _) | LMon (LSpurious t) | LMon (LReacquire t)
    | LLoad t | LExec t | LNext t | LJoin t | LInit t => t
    end.

  Lemma pstep_in_range : forall s l s', coh s -> pstep s l = Some s' -> label_thread l < length (pcs s).
  Proof.
    intros s l s' (Hlen & _) H. pose proof (pstep_sound _ _ _ H) as R.
    inversion R; subst; cbn [label_thread];
      try (rewrite Hlen; apply nth_error_Some; congruence);
      try (apply nth_error_Some; unfold pc_at in *; congruence).
  Qed.

  Lemma pcan_move_sound : forall s t l, pcan_move nw maxq s t = Some l ->
    p_is_spurious l = false /\ exists s', pstep s l = Some s'.
  Proof.
    intros s t l H. unfold pcan_move in H.
    destruct (pstep s (LMon (LAcquire t))) eqn:E1; [inversion H; subst; split; eauto|].
    destruct (pstep s (LMon (LBody t []))) eqn:E2; [inversion H; subst; split; eauto|].
    destruct (pstep s (LMon (LReacquire t))) eqn:E3; [inversion H; subst; split; eauto|].
    destruct (pstep s (LLoad t)) eqn:E4; [inversion H; subst; split; eauto|].
    destruct (pstep s (LExec t)) eqn:E5; [inversion H; subst; split; eauto|].
    destruct (pstep s (LNext t)) eqn:E6; [inversion H; subst; split; eauto|].
    destruct (pstep s (LJoin t)) eqn:E7; [inversion H; subst; split; eauto|].
    destruct (pstep s (LInit t)) eqn:E8; [inversion H; subst; split; eauto|]. discriminate.
  Qed.

  Lemma pcan_move_complete : forall s l s', pstep s l = Some s' -> p_is_spurious l = false ->
    pcan_move nw maxq s (label_thread l) <> None.
  Proof.
    intros s l s' H Hl Hn. unfold pcan_move in Hn.
    destruct (pstep s (LMon (LAcquire (label_thread l)))) eqn:E1; [discriminate|].
    destruct (pstep s (LMon (LBody (label_thread l) []))) eqn:E2; [discriminate|].
    destruct (pstep s (LMon (LReacquire (label_thread l)))) eqn:E3; [discriminate|].
    destruct (pstep s (LLoad (label_thread l))) eqn:E4; [discriminate|].
    destruct (pstep s (LExec (label_thread l))) eqn:E5; [discriminate|].
    destruct (pstep s (LNext (label_thread l))) eqn:E6; [discriminate|].
    destruct (pstep s (LJoin (label_thread l))) eqn:E7; [discriminate|].
    destruct (pstep s (LInit (label_thread l))) eqn:E8; [discriminate|].
    destruct l as [[t|t picks|t|t]|t|t|t|t|t]; cbn [label_thread] in *; try congruence; try discriminate Hl.
    destruct (mon_body_any_picks _ _ _ _ H) as (s'' & E). congruence.
  Qed.

  Lemma psome_move_sound : forall s l, psome_move nw maxq s = Some l ->
    p_is_spurious l = false /\ exists s', pstep s l = Some s'.
  Proof.
    intros s l. unfold psome_move. generalize (seq 0 (length (pcs s))). intros ts.
    induction ts as [|t r IH]; cbn; [discriminate|].
    destruct (pcan_move nw maxq s t) as [l'|] eqn:E; auto. intro H. inversion H; subst. eapply pcan_move_sound; eauto.
  Qed.

  Lemma psome_move_none : forall s, coh s -> psome_move nw maxq s = None -> pquiescent nw maxq s.
  Proof.
    intros s C Hn l s' H. destruct (p_is_spurious l) eqn:El; auto. exfalso.
    pose proof (pstep_in_range _ _ _ C H) as Hr. pose proof (pcan_move_complete _ _ _ H El) as Hc.
    unfold psome_move in Hn.
    assert (Hin : In (label_thread l) (seq 0 (length (pcs s)))) by (apply in_seq; lia).
    revert Hn Hin. generalize (seq 0 (length (pcs s))). intros ts. induction ts as [|t r IH]; cbn; [tauto|].
    destruct (pcan_move nw maxq s t) eqn:E; [discriminate|]. intros Hn [->|Hin]; auto.
  Qed.

  Theorem preaches_quiescence : forall s, coh s ->
    exists ls s', prun nw maxq s ls = Some s' /\ pnspur ls = 0 /\ pquiescent nw maxq s'.
  Proof.
    intros s. remember (pmeasure nw s) as n eqn:En. revert s En.
    induction n as [n IH] using lt_wf_ind. intros s En C.
    destruct (psome_move nw maxq s) as [l|] eqn:E.
    - destruct (psome_move_sound _ _ E) as (Hl & s1 & Hs1).
      pose proof (pmeasure_step _ _ _ C Hs1 Hl) as Hm.
      destruct (IH (pmeasure nw s1) ltac:(lia) s1 eq_refl (coh_step _ _ _ C Hs1)) as (ls & s' & Hrun & Hsp & Hq).
      exists (l :: ls), s'. split; [cbn; rewrite Hs1; exact Hrun|]. split; auto.
      unfold pnspur in *. cbn [filter]. rewrite Hl. exact Hsp.
    - exists [], s. split; [reflexivity|]. split; [reflexivity|]. apply psome_move_none; auto.
  Qed.

  Lemma preach_prun : forall ls s0 s s', preach nw maxq s0 s -> prun nw maxq s ls = Some s' -> preach nw maxq s0 s'.
  Proof.
    induction ls as [|l r IH]; intros s0 s s' Hr H; cbn in H.
    - inversion H; subst; auto.
    - destruct (pstep s l) as [s1|] eqn:E; [|discriminate]. eapply IH; [|exact H]. eapply preach_step; eauto.
  Qed.

  (* ---- enabledness of the individual steps *)
  Lemma E_acquire : forall s t th o rest, nth_error (threads (mon s)) t = Some th -> st th = Idle ->
    prog th = o :: rest -> owner (mon s) = None -> exists s', pstep s (LMon (LAcquire t)) = Some s'.
  Proof.
    intros s t th o rest Hn Hs Hp Ho. cbn. unfold mon_step. cbn. rewrite Hn, Ho, Hs, Hp. eauto.
  Qed.

  Lemma E_body : forall s t th o rest, nth_error (threads (mon s)) t = Some th -> st th = InCS ->
    prog th = o :: rest -> exists s', pstep s (LMon (LBody t [])) = Some s'.
  Proof.
    intros s t th o rest Hn Hs Hp. cbn. unfold mon_step. cbn [step]. rewrite Hn, Hs, Hp.
    destruct (B o (shared (mon s))); destruct (ret_of maxq (mon s) t) as [[o' r']|]; eauto.
  Qed.

  Lemma E_reacquire : forall s t th, nth_error (threads (mon s)) t = Some th -> st th = Signalled ->
    owner (mon s) = None -> exists s', pstep s (LMon (LReacquire t)) = Some s'.
  Proof.
    intros s t th Hn Hs Ho. cbn. unfold mon_step. cbn. rewrite Hn, Ho, Hs. eauto.
  Qed.

  Lemma E_call : forall s t th o p, nth_error (threads (mon s)) t = Some th -> st th = Idle ->
    exists s', call t o p s = Some s'.
  Proof. intros s t th o p Hn Hs. unfold call, set_prog. rewrite Hn, Hs. eauto. Qed.

  Definition movable (s : psys) (t : nat) : Prop :=
    exists l s', label_thread l = t /\ p_is_spurious l = false /\ pstep s l = Some s'.

  Lemma thread_moves : forall s t p th, coh s -> wf _ _ _ (mon s) -> owner (mon s) = None ->
    nth_error (pcs s) t = Some p -> nth_error (threads (mon s)) t = Some th ->
    (exists c, st th = Waiting c) \/ p = WDone \/ (p = CIdle [] \/ exists ops, p = CFault ops) \/
    (exists i ops, p = CJoin i ops /\ i < nw /\ pc_at s i <> Some WDone) \/ movable s t.
  Proof.
    intros s t p th C W Ho Hp Hn. destruct C as (Hlen & Hc). pose proof (Hc _ _ _ Hp Hn) as Hc1.
    assert (Hsec : forall o rest, prog th = o :: rest -> (exists c, st th = Waiting c) \/ movable s t).
    { intros o rest Hq. destruct (st th) eqn:Hs.
      - right. destruct (E_acquire s t th o rest Hn Hs Hq Ho) as (s' & E). exists (LMon (LAcquire t)), s'. auto.
      - exfalso. rewrite (wf_incs _ _ _ _ W _ _ Hn Hs) in Ho. discriminate.
      - left. eauto.
      - right. destruct (E_reacquire s t th Hn Hs Ho) as (s' & E). exists (LMon (LReacquire t)), s'. auto. }
    destruct p as [| |k| |[|uo ops]|ops|ops|i ops| |ops]; cbn in Hc1; auto.
    - (* WLoop *) right; right; right; right. destruct Hc1 as (_ & Hs & _).
      exists (LLoad t). cbn [label_thread p_is_spurious C15_Model.pstep]. unfold pc_at. rewrite Hp.
      destruct (running (shared (mon s))).
      + destruct (E_call s t th PTake WTake Hn Hs) as (s' & E). rewrite E. eauto.
      + eauto.
    - (* WTake *) destruct Hc1 as (_ & Hq). destruct (Hsec _ _ Hq) as [H|H]; auto 6.
    - (* WGot *) right; right; right; right. exists (LExec t). cbn [label_thread p_is_spurious C15_Model.pstep]. unfold pc_at. rewrite Hp. eauto.
    - (* CIdle (uo :: ops) *) right; right; right; right. destruct Hc1 as (_ & Hs & _).
      exists (LNext t). cbn [label_thread p_is_spurious C15_Model.pstep]. unfold pc_at. rewrite Hp. destruct uo as [k| |].
      + destruct (Nat.eqb nw 0); [eauto|]. destruct (E_call s t th (PRun k) (CCall ops) Hn Hs) as (s' & E). rewrite E. eauto.
      + destruct (E_call s t th PStop (CStopping ops) Hn Hs) as (s' & E). rewrite E. eauto.
      + destruct (E_call s t th PSize (CCall ops) Hn Hs) as (s' & E). rewrite E. eauto.
    - (* CCall *) destruct Hc1 as (_ & o & Hq & _). destruct (Hsec _ _ Hq) as [H|H]; auto 6.
    - (* CStopping *) destruct Hc1 as (_ & Hq). destruct (Hsec _ _ Hq) as [H|H]; auto 6.
    - (* CJoin *) destruct (Nat.lt_ge_cases i nw) as [Hlt|Hge].
      + destruct (joined i (evs s)) eqn:Ej.
        { right; right; right; right. exists (LJoin t). cbn [label_thread p_is_spurious C15_Model.pstep]. unfold pc_at in *. rewrite Hp.
          apply Nat.ltb_lt in Hlt. rewrite Hlt, Ej. eauto. }
        destruct (pc_at s i) as [pi|] eqn:Ei.
        * destruct pi; try (right; right; right; left; exists i, ops; repeat split; auto; congruence).
          right; right; right; right. exists (LJoin t). cbn [label_thread p_is_spurious C15_Model.pstep]. unfold pc_at in *. rewrite Hp.
          apply Nat.ltb_lt in Hlt. rewrite Hlt, Ej, Ei. cbn. eauto.
        * right; right; right; left. exists i, ops. repeat split; auto. congruence.
      + right; right; right; right. exists (LJoin t). cbn [label_thread p_is_spurious C15_Model.pstep]. unfold pc_at. rewrite Hp.
        apply Nat.ltb_ge in Hge. rewrite Hge. eauto.
    - (* WInit *) right; right; right; right. exists (LInit t). cbn [label_thread p_is_spurious C15_Model.pstep]. unfold pc_at. rewrite Hp. eauto.
    - (* CFault *) right; right; left. right. eauto.
  Qed.

  Lemma waiting_cond : forall s t p th c, coh s -> MInv (mon s) ->
    nth_error (pcs s) t = Some p -> nth_error (threads (mon s)) t = Some th -> st th = Waiting c ->
    (p = WTake /\ c = notEmpty) \/ (exists ops, p = CCall ops /\ c = notFull).
  Proof.
    intros s t p th c (_ & Hc) I Hp Hn Hs. pose proof (Hc _ _ _ Hp Hn) as Hc1.
    destruct (Forall_nth_error _ _ _ _ (mi_wok _ I) Hn c Hs) as (o & rest & Hq & Hb).
    destruct p; cbn in Hc1; try (destruct Hc1 as (_ & Hi & _); congruence).
    - destruct Hc1 as (_ & Hq'). rewrite Hq in Hq'. inversion Hq'; subst. cbn in Hb. apply Nat.eqb_eq in Hb. auto.
    - destruct Hc1 as (_ & o' & Hq' & [->|(_ & k & ->)]); rewrite Hq in Hq'; inversion Hq'; subst; cbn in Hb; [discriminate|].
      apply Nat.eqb_eq in Hb. eauto.
    - destruct Hc1 as (_ & Hq'). rewrite Hq in Hq'. inversion Hq'; subst. discriminate.
  Qed.

  Theorem quiescent_shape_gen : forall s, coh s -> MInv (mon s) -> SInv s -> nw <= length (pcs s) ->
    pquiescent nw maxq s ->
    forall t p th, nth_error (pcs s) t = Some p -> nth_error (threads (mon s)) t = Some th ->
      p = WDone \/ p = CIdle [] \/ (exists ops, p = CFault ops) \/
      (p = WTake /\ st th = Waiting notEmpty /\ queue (shared (mon s)) = [] /\ running (shared (mon s)) = true) \/
      (exists ops, p = CCall ops /\ st th = Waiting notFull /\ isFull maxq (queue (shared (mon s))) = true /\
                   running (shared (mon s)) = true).
  Proof.
    intros s C I SI Hnw Q.
    assert (Hnm : forall u, ~ movable s u).
    { intros u (l & s' & _ & Hl & Hst). rewrite (Q _ _ Hst) in Hl. discriminate. }
    pose proof (mi_wf _ I) as W.
    assert (Ho : owner (mon s) = None).
    { destruct (owner (mon s)) as [u|] eqn:Ho; auto. exfalso.
      destruct (wf_owner _ _ _ _ W _ Ho) as (th & Hn & Hs).
      pose proof (Forall_nth_error _ _ _ _ (wf_busy _ _ _ _ W) Hn) as Hb.
      destruct (prog th) as [|o rest] eqn:Hq; [apply Hb; [congruence|auto]|].
      destruct (E_body s u th o rest Hn Hs Hq) as (s' & E). apply (Hnm u). exists (LMon (LBody u [])), s'. auto. }
    (* a waiting thread waits on a pool condition, and then the pool is running *)
    assert (Hwait : forall u p th c, nth_error (pcs s) u = Some p -> nth_error (threads (mon s)) u = Some th ->
              st th = Waiting c -> (c = notEmpty \/ c = notFull) /\ running (shared (mon s)) = true).
    { intros u p th c Hp Hn Hs. destruct (waiting_cond _ _ _ _ _ C I Hp Hn Hs) as [(_ & ->)|(ops & _ & ->)].
      - split; auto. apply (mi_bE _ I). eapply count_pos_nth; eauto. apply is_waiting_true; auto.
      - split; auto. apply (mi_bF _ I). eapply count_pos_nth; eauto. apply is_waiting_true; auto. }
    (* every thread is Idle or Waiting *)
    assert (Hst : forall u p th, nth_error (pcs s) u = Some p -> nth_error (threads (mon s)) u = Some th ->
              st th = Idle \/ exists c, st th = Waiting c).
    { intros u p th Hp Hn. destruct (st th) eqn:Hs; eauto.
      - exfalso. rewrite (wf_incs _ _ _ _ W _ _ Hn Hs) in Ho. discriminate.
      - exfalso. destruct (E_reacquire s u th Hn Hs Ho) as (s' & E). apply (Hnm u). exists (LMon (LReacquire u)), s'. auto. }
    assert (Hcl : forall c, nclients _ _ _ pool_blocker c (mon s) = 0).
    { intros c. apply count_zero_Forall. apply Forall_forall. intros th Hin.
      destruct (In_nth_error _ _ Hin) as (u & Hn).
      destruct (nth_error (pcs s) u) as [p|] eqn:Hp.
      - destruct (Hst _ _ _ Hp Hn) as [Hs|(c' & Hs)]; unfold wants; rewrite Hs; reflexivity.
      - exfalso. apply nth_error_None in Hp. destruct C as (Hlen & _).
        assert (nth_error (threads (mon s)) u <> None) as Hx by congruence. apply nth_error_Some in Hx. lia. }
    intros t p th Hp Hn.
    destruct (thread_moves _ _ _ _ C W Ho Hp Hn) as [(c & Hs)|[->|[[->|(fo & ->)]|[(i & ops & -> & Hlt & Hnd)|Hm]]]]; eauto.
    - (* waiting: the disciplines *)
      destruct (Hwait _ _ _ _ Hp Hn Hs) as (_ & Hr).
      assert (Hpos : nwaiting c (mon s) > 0) by (eapply count_pos_nth; eauto; apply is_waiting_true; auto).
      destruct (waiting_cond _ _ _ _ _ C I Hp Hn Hs) as [(-> & ->)|(ops & -> & ->)].
      + right; right; right; left. repeat split; auto.
        pose proof (mi_dE _ I Hpos) as Hd. rewrite Hcl in Hd. unfold availE in Hd. rewrite Hr in Hd.
        apply length_zero_iff_nil. lia.
      + right; right; right; right. exists ops. repeat split; auto.
        pose proof (mi_dF _ I Hpos) as Hd. rewrite Hcl in Hd. unfold availF in Hd. rewrite Hr in Hd.
        pose proof (mi_bM _ I Hpos) as Hm. cbv beta in Hm. unfold isFull. apply andb_true_iff. split.
        * apply Nat.ltb_lt. auto.
        * apply Nat.leb_le. lia.
    - (* stop() waiting for a worker that is not done: that worker could move *)
      exfalso. destruct (si_join _ SI _ _ _ Hp) as (Hrf & _).
      destruct (nth_error (pcs s) i) as [pi|] eqn:Hpi.
      2:{ apply nth_error_None in Hpi. lia. }
      destruct (nth_error (threads (mon s)) i) as [thi|] eqn:Hni.
      2:{ apply nth_error_None in Hni. destruct C as (Hlen & _). lia. }
      destruct (thread_moves _ _ _ _ C W Ho Hpi Hni) as [(c & Hs)|[->|[[->|(fo & ->)]|[(i' & ops' & -> & _)|Hm]]]].
      + destruct (Hwait _ _ _ _ Hpi Hni Hs) as (_ & Hr). congruence.
      + apply Hnd. exact Hpi.
      + destruct C as (_ & Hc). destruct (Hc _ _ _ Hpi Hni) as (Hge & _). lia.
      + destruct C as (_ & Hc). destruct (Hc _ _ _ Hpi Hni) as (Hge & _). lia.
      + destruct C as (_ & Hc). destruct (Hc _ _ _ Hpi Hni) as (Hge & _). lia.
      + exact (Hnm _ Hm).
    - exfalso. exact (Hnm _ Hm).
  Qed.

  Lemma len_reach : forall progs s, preach nw maxq (pinit nw progs) s -> nw <= length (pcs s).
  Proof.
    intros progs s Hr. assert (coh s /\ nw <= length (pcs s)) as (_ & I); auto. revert s Hr. apply preach_inv.
    - split; [apply coh_init|]. cbn. rewrite app_length, repeat_length. lia.
    - intros s l s' _ (C & I) H. split; [eapply coh_step; eauto|].
      destruct (pstep_hand _ _ _ C H) as [(-> & _)|(t & p & p' & ev & _ & -> & _)]; auto. rewrite upd_length. auto.
  Qed.

  (* ================================================================ what one step does to thread-local control and log *)
  Inductive ptrans (s s' : psys) (t : nat) : pc -> pc -> list event -> Prop :=
  | T_take_some : forall k, ptrans s s' t WTake (WGot k) [EvTake t k]
  | T_take_none : running (shared (mon s)) = false -> ptrans s s' t WTake WLoop []
  | T_accept : forall ops k, running (shared (mon s)) = true -> ptrans s s' t (CCall ops) (CIdle ops) [EvAccept t k]
  | T_reject : forall ops k, running (shared (mon s)) = false -> ptrans s s' t (CCall ops) (CIdle ops) [EvReject t k]
  | T_size : forall ops, ptrans s s' t (CCall ops) (CIdle ops) []
  | T_stopsec : forall ops, running (shared (mon s')) = false -> ptrans s s' t (CStopping ops) (CJoin 0 ops) [EvStopSec t]
  | T_load_true : running (shared (mon s)) = true -> ptrans s s' t WLoop WTake []
  | T_load_false : running (shared (mon s)) = false -> ptrans s s' t WLoop WDone []
  | T_exec : forall k, ptrans s s' t (WGot k) WLoop [EvStart t k]
  | T_inline : forall k ops, nw = 0 -> ptrans s s' t (CIdle (URun k :: ops)) (CIdle ops) [EvInline t k]
  | T_call : forall uo ops, ptrans s s' t (CIdle (uo :: ops)) (snd (call_of uo ops)) []
  | T_join : forall i ops, i < nw -> pc_at s i = Some WDone -> joined i (evs s) = false ->
      ptrans s s' t (CJoin i ops) (CJoin (S i) ops) [EvJoin t i]
  | T_stopret : forall i ops, nw <= i -> ptrans s s' t (CJoin i ops) (CIdle ops) [EvStopRet t]
  | T_init : ptrans s s' t WInit WLoop [EvInit t]
  | T_fault : forall i ops, i < nw -> joined i (evs s) = true -> ptrans s s' t (CJoin i ops) (CFault ops) [EvFault t i].

  Lemma pstep_pc : forall s l s', coh s -> pstep s l = Some s' ->
    (pcs s' = pcs s /\ evs s' = evs s) \/
    exists t p p' ev, nth_error (pcs s) t = Some p /\ pcs s' = upd t p' (pcs s) /\ evs s' = evs s ++ ev /\
                      ptrans s s' t p p' ev.
  Proof.
    intros s l s' C H. pose proof (pstep_sound _ _ _ H) as R.
    inversion R; subst; cbn [pcs evs]; auto; right.
    - (* return from a section *)
      pose proof (cohL_pc_at _ _ _ _ C H0) as Hpc.
      assert (Hc1 : coh1 t (nth t (pcs s) WDone) th) by (destruct C as (_ & Hc); eauto).
      exists t, (nth t (pcs s) WDone), (after_ret (nth t (pcs s) WDone) r), (ev_of t o r).
      split; auto. split; auto. split; auto.
      destruct (nth t (pcs s) WDone) as [| |k| |ops|ops|ops|i ops| |ops]; cbn in Hc1;
        try (destruct Hc1 as (_ & _ & Hq); congruence).
      + destruct Hc1 as (Hlt & Hq). rewrite H2 in Hq. inversion Hq; subst.
        destruct (body_ret_cases _ _ _ _ _ H3) as [(k & Ho & _)|[(k & Ho & _)|[(_ & _ & Hf & _ & -> & _)|
          [(k & q' & _ & _ & _ & -> & _)|[(Ho & _)|(Ho & _)]]]]]; try discriminate; cbn.
        * apply T_take_none; auto.
        * apply T_take_some.
      + destruct Hc1 as (Hle & o' & Hq & Ho). rewrite H2 in Hq. inversion Hq; subst. cbn [after_ret].
        destruct (body_ret_cases _ _ _ _ _ H3) as [(k & -> & Hf & _ & -> & _)|[(k & -> & Hr & _ & _ & -> & _)|[(-> & _)|
          [(k & q' & -> & _)|[(-> & _)|(-> & _ & -> & _)]]]]]; cbn [ev_of];
          try (destruct Ho as [Ho|(_ & k' & Ho)]; discriminate).
        * apply T_reject; auto.
        * apply T_accept; auto.
        * apply T_size.
      + destruct Hc1 as (Hle & Hq). rewrite H2 in Hq. inversion Hq; subst. cbn [after_ret].
        destruct (body_ret_cases _ _ _ _ _ H3) as [(k & Ho & _)|[(k & Ho & _)|[(Ho & _)|
          [(k & q' & Ho & _)|[(_ & -> & -> & _)|(Ho & _)]]]]]; try discriminate. cbn [ev_of].
        apply T_stopsec. reflexivity.
    - exists t, WLoop, WTake, []. rewrite app_nil_r. split; [exact H0|]. split; [reflexivity|]. split; [reflexivity|].
      apply T_load_true; auto.
    - exists t, WLoop, WDone, []. rewrite app_nil_r. split; [exact H0|]. split; [reflexivity|]. split; [reflexivity|].
      apply T_load_false; auto.
    - exists t, (WGot k), WLoop, [EvStart t k]. split; [exact H0|]. split; [reflexivity|]. split; [reflexivity|]. apply T_exec.
    - exists t, (CIdle (URun k :: ops)), (CIdle ops), [EvInline t k].
      split; [exact H0|]. split; [reflexivity|]. split; [reflexivity|]. apply T_inline; auto.
    - exists t, (CIdle (uo :: ops)), (snd (call_of uo ops)), []. rewrite app_nil_r.
      split; [exact H0|]. split; [reflexivity|]. split; [reflexivity|]. apply T_call.
    - exists t, (CJoin i ops), (CJoin (S i) ops), [EvJoin t i].
      split; [exact H0|]. split; [reflexivity|]. split; [reflexivity|]. apply T_join; auto.
    - exists t, (CJoin i ops), (CIdle ops), [EvStopRet t].
      split; [exact H0|]. split; [reflexivity|]. split; [reflexivity|]. apply T_stopret; auto.
    - exists t, WInit, WLoop, [EvInit t]. split; [exact H0|]. split; [reflexivity|]. split; [reflexivity|]. apply T_init.
    - exists t, (CJoin i ops), (CFault ops), [EvFault t i].
      split; [exact H0|]. split; [reflexivity|]. split; [reflexivity|]. apply T_fault; auto.
  Qed.

  Lemma pc_at_step : forall s s' t p' u, pcs s' = upd t p' (pcs s) -> u <> t -> pc_at s' u = pc_at s u.
  Proof. intros s s' t p' u E Hne. unfold pc_at. rewrite E. apply nth_error_upd_neq. auto. Qed.

  Lemma pc_at_step_eq : forall s s' t p p', nth_error (pcs s) t = Some p -> pcs s' = upd t p' (pcs s) -> pc_at s' t = Some p'.
  Proof. intros s s' t p p' Hn E. unfold pc_at. rewrite E. eapply nth_error_upd_eq; eauto. Qed.

  (* ================================================================ more about stop(), via pstep_pc *)
  Definition event_thread (x : event) : nat :=
    match x with
    | EvAccept t _ | EvReject t _ | EvTake t _ | EvStart t _ | EvInline t _ | EvStopSec t | EvStopRet t
    | EvInit t | EvJoin t _ | EvFault t _ => t
    end.

  Lemma ptrans_by : forall s s' t p p' ev, ptrans s s' t p p' ev -> forall x, In x ev -> event_thread x = t.
  Proof. intros s s' t p p' ev H x Hin. inversion H; subst; cbn in Hin; try tauto; destruct Hin as [<-|[]]; reflexivity. Qed.

  Ltac inv_trans Ht :=
    inversion Ht; subst; try discriminate;
    try (match goal with H : snd (call_of ?u _) = _ |- _ => destruct u; discriminate H end);
    try (match goal with H : _ = snd (call_of ?u _) |- _ => destruct u; discriminate H end).

  Definition stopstate (p : option pc) : Prop :=
    match p with Some (CJoin _ _) | Some (CFault _) => True | _ => False end.

  Record DInv (s : psys) : Prop := {
    di_done : forall t, pc_at s t = Some WDone -> running (shared (mon s)) = false;
    di_stop : forall t, In (EvStopSec t) (evs s) -> In (EvStopRet t) (evs s) \/ stopstate (pc_at s t);
    di_fault : forall t ops, pc_at s t = Some (CFault ops) -> exists i, In (EvFault t i) (evs s);
    di_join : forall u j, In (EvJoin u j) (evs s) ->
                In (EvStopRet u) (evs s) \/ (exists i ops, pc_at s u = Some (CJoin i ops) /\ j < i) \/
                (exists ops, pc_at s u = Some (CFault ops))
  }.

  Lemma DInv_step : forall s l s', coh s -> DInv s -> pstep s l = Some s' -> DInv s'.
  Proof.
    intros s l s' C [D St Fa Jo] H. pose proof (running_stays_false _ _ _ H) as F1.
    destruct (pstep_pc _ _ _ C H) as [(Ep & Ee)|(t & p & p' & ev & Hn & Ep & Ee & Ht)].
    - constructor; unfold pc_at in *; rewrite ?Ep, ?Ee; auto. intros u Hu. apply F1. eapply D; eauto.
    - assert (Hoth : forall u, u <> t -> pc_at s' u = pc_at s u) by (intros; eapply pc_at_step; eauto).
      assert (Hme : pc_at s' t = Some p') by (eapply pc_at_step_eq; eauto).
      assert (Hold : pc_at s t = Some p) by exact Hn.
      constructor.
      + intros u Hu. destruct (Nat.eq_dec u t) as [->|Hne].
        * rewrite Hme in Hu. inversion Hu; subst. inv_trans Ht. apply F1; auto.
        * rewrite (Hoth _ Hne) in Hu. apply F1. eapply D; eauto.
      + intros u Hin. rewrite Ee in Hin. apply in_app_or in Hin. destruct Hin as [Hin|Hin].
        * destruct (St _ Hin) as [Hr|Hs]; [left; rewrite Ee; apply in_or_app; auto|].
          destruct (Nat.eq_dec u t) as [->|Hne]; [|right; rewrite (Hoth _ Hne); exact Hs].
          rewrite Hold in Hs. rewrite Hme, Ee.
          inversion Ht; subst; cbn in Hs; try contradiction; cbn; auto.
          left. apply in_or_app. right. left. reflexivity.
        * pose proof (ptrans_by _ _ _ _ _ _ Ht _ Hin) as Eu. cbn in Eu. subst u. right. rewrite Hme.
          inversion Ht; subst; cbn in Hin; try tauto; try (destruct Hin as [Hin|[]]; discriminate). exact I.
      + intros u ops Hu. destruct (Nat.eq_dec u t) as [->|Hne].
        * rewrite Hme in Hu. inversion Hu; subst. inv_trans Ht.
          exists i. rewrite Ee. apply in_or_app. right. left. reflexivity.
        * rewrite (Hoth _ Hne) in Hu. destruct (Fa _ _ Hu) as (i & Hi). exists i. rewrite Ee. apply in_or_app. auto.
      + intros u j Hin. rewrite Ee in Hin. apply in_app_or in Hin. destruct Hin as [Hin|Hin].
        * destruct (Jo _ _ Hin) as [Hr|[(i & ops & Hp & Hlt)|(ops & Hp)]].
          -- left. rewrite Ee. apply in_or_app. auto.
          -- destruct (Nat.eq_dec u t) as [->|Hne]; [|right; left; exists i, ops; rewrite (Hoth _ Hne); auto].
             rewrite Hold in Hp. inversion Hp; subst. rewrite Hme, Ee. inversion Ht; subst.
             ++ right; left. exists (S i), ops. split; auto.
             ++ left. apply in_or_app. right. left. reflexivity.
             ++ right; right. eauto.
          -- destruct (Nat.eq_dec u t) as [->|Hne]; [|right; right; exists ops; rewrite (Hoth _ Hne); auto].
             rewrite Hold in Hp. inversion Hp; subst. inversion Ht.
        * pose proof (ptrans_by _ _ _ _ _ _ Ht _ Hin) as Eu. cbn in Eu. subst u. rewrite Hme.
          inversion Ht; subst; cbn in Hin; try tauto; try (destruct Hin as [Hin|[]]; discriminate).
          destruct Hin as [Hin|[]]. inversion Hin; subst. right; left. exists (S j), ops. auto.
  Qed.

  Theorem DInv_reach : forall progs s, preach nw maxq (pinit nw progs) s -> DInv s.
  Proof.
    intros progs s Hr. assert (coh s /\ DInv s) as (_ & I); auto. revert s Hr. apply preach_inv.
    - split; [apply coh_init|]. constructor.
      + intros t Hp. exfalso. unfold pc_at, pinit in Hp. cbn [pcs] in Hp. apply nth_error_In in Hp.
        apply in_app_or in Hp. destruct Hp as [Hp|Hp].
        * apply repeat_spec in Hp. discriminate.
        * apply in_map_iff in Hp. destruct Hp as (o & Ho & _). discriminate.
      + intros t [].
      + intros t ops Hp. exfalso. unfold pc_at, pinit in Hp. cbn [pcs] in Hp. apply nth_error_In in Hp.
        apply in_app_or in Hp. destruct Hp as [Hp|Hp].
        * apply repeat_spec in Hp. discriminate.
        * apply in_map_iff in Hp. destruct Hp as (o & Ho & _). discriminate.
      + intros u j [].
    - intros s l s' _ (C & I) H. split; [eapply coh_step|eapply DInv_step]; eauto.
  Qed.

  (* ================================================================ the thread-init callback *)
  Record IInv (s : psys) : Prop := {
    ii_fresh : forall t, pc_at s t = Some WInit -> ~ In (EvInit t) (evs s);
    ii_once : forall t, count_occ Nat.eq_dec (inits (evs s)) t <= 1;
    ii_past : forall t p, pc_at s t = Some p -> t < nw -> p <> WInit -> In (EvInit t) (evs s);
    ii_first : forall x, In x (evs s) -> match x with EvTake t _ | EvStart t _ => In (EvInit t) (evs s) | _ => True end
  }.

  Lemma inits_in : forall e t, In t (inits e) <-> In (EvInit t) e.
  Proof.
    intros e t. unfold inits. rewrite in_flat_map. split.
    - intros (x & Hx & Ht). destruct x; cbn in Ht; try tauto. destruct Ht as [<-|[]]. exact Hx.
    - intros H. exists (EvInit t). split; auto. left. reflexivity.
  Qed.

  Lemma pc_eq_init : forall p : pc, p = WInit \/ p <> WInit.
  Proof. intros p. destruct p; auto; right; discriminate. Qed.

  Lemma IInv_step : forall s l s', coh s -> IInv s -> pstep s l = Some s' -> IInv s'.
  Proof.
    intros s l s' C [Fr On Pa Fi] H.
    destruct (pstep_pc _ _ _ C H) as [(Ep & Ee)|(t & p & p' & ev & Hn & Ep & Ee & Ht)].
    - constructor; unfold pc_at in *; rewrite ?Ep, ?Ee; auto.
    - assert (Hoth : forall u, u <> t -> pc_at s' u = pc_at s u) by (intros; eapply pc_at_step; eauto).
      assert (Hme : pc_at s' t = Some p') by (eapply pc_at_step_eq; eauto).
      assert (Hold : pc_at s t = Some p) by exact Hn.
      assert (Hby := ptrans_by _ _ _ _ _ _ Ht).
      assert (Hlt : forall q, (q = WTake \/ q = WLoop \/ q = WInit \/ (exists k, q = WGot k)) -> p = q -> t < nw).
      { intros q Hq ->. destruct C as (Hlen & Hc).
        destruct (nth_error (threads (mon s)) t) as [th|] eqn:E.
        - pose proof (Hc _ _ _ Hn E) as Hc1. destruct Hq as [->|[->|[->|(k & ->)]]]; cbn in Hc1; tauto.
        - exfalso. apply nth_error_None in E. assert (nth_error (pcs s) t <> None) as Hx by congruence.
          apply nth_error_Some in Hx. lia. }
      constructor.
      + intros u Hu Hin. rewrite Ee in Hin. apply in_app_or in Hin.
        destruct (Nat.eq_dec u t) as [->|Hne].
        * rewrite Hme in Hu. inversion Hu; subst. inv_trans Ht.
        * rewrite (Hoth _ Hne) in Hu. destruct Hin as [Hin|Hin]; [exact (Fr _ Hu Hin)|].
          apply Hby in Hin. cbn in Hin. congruence.
      + intros u. rewrite Ee. unfold inits. rewrite flat_map_app, count_occ_app. fold (inits (evs s)). fold (inits ev).
        inversion Ht; subst; cbn [inits flat_map count_occ app]; try (specialize (On u); lia).
        destruct (Nat.eq_dec t u) as [->|Hne]; [|specialize (On u); lia].
        assert (count_occ Nat.eq_dec (inits (evs s)) u = 0); [|lia].
        apply count_occ_not_In. rewrite inits_in. apply Fr. exact Hold.
      + intros u q Hu Hlt' Hq. rewrite Ee. apply in_or_app.
        destruct (Nat.eq_dec u t) as [->|Hne].
        * rewrite Hme in Hu. inversion Hu; subst.
          destruct (pc_eq_init p) as [->|Hp].
          -- right. inversion Ht; subst. left. reflexivity.
          -- left. eapply Pa; eauto.
        * rewrite (Hoth _ Hne) in Hu. left. eapply Pa; eauto.
      + intros x Hin. rewrite Ee in Hin. apply in_app_or in Hin. destruct Hin as [Hin|Hin].
        * specialize (Fi _ Hin). destruct x; auto; rewrite Ee; apply in_or_app; auto.
        * inversion Ht; subst; cbn in Hin; try tauto; destruct Hin as [<-|[]]; auto; rewrite Ee; apply in_or_app; left.
          -- apply (Pa t WTake Hold); [apply (Hlt WTake); auto|discriminate].
          -- apply (Pa t (WGot k) Hold); [apply (Hlt (WGot k)); eauto 6|discriminate].
  Qed.

  Theorem IInv_reach : forall progs s, preach nw maxq (pinit nw progs) s -> IInv s.
  Proof.
    intros progs s Hr. assert (coh s /\ IInv s) as (_ & I); auto. revert s Hr. apply preach_inv.
    - split; [apply coh_init|]. constructor.
      + intros t _ [].
      + intros t. cbn. lia.
      + intros t p Hp Hlt Hq. exfalso. unfold pc_at, pinit in Hp. cbn [pcs] in Hp.
        rewrite nth_error_app1 in Hp by (rewrite repeat_length; auto).
        apply nth_error_In in Hp. apply repeat_spec in Hp. auto.
      + intros x [].
    - intros s l s' _ (C & I) H. split; [eapply coh_step|eapply IInv_step]; eauto.
  Qed.

  Theorem init_callback : forall progs s, preach nw maxq (pinit nw progs) s ->
    (forall t, count_occ Nat.eq_dec (inits (evs s)) t <= 1) /\
    (forall t, pc_at s t = Some WInit -> ~ In (EvInit t) (evs s)) /\
    (forall t p, pc_at s t = Some p -> t < nw -> p <> WInit -> In (EvInit t) (evs s)) /\
    (forall t k, In (EvTake t k) (evs s) -> In (EvInit t) (evs s)) /\
    (forall t k, In (EvStart t k) (evs s) -> In (EvInit t) (evs s)).
  Proof.
    intros progs s Hr. pose proof (IInv_reach progs s Hr) as [Fr On Pa Fi].
    split; [exact On|]. split; [exact Fr|]. split; [exact Pa|]. split; intros t k Hin; exact (Fi _ Hin).
  Qed.

  (* ================================================================ how many stop() calls are under way *)
  Definition sw (p : pc) : nat :=
    stops_of (pc_ops p) + match p with CStopping _ | CJoin _ _ | CFault _ => 1 | _ => 0 end.
  Definition nstopret (e : list event) : nat := length (filter is_stopret e).

  Definition QInv (progs : list (list uop)) (s : psys) : Prop :=
    wsum sw (pcs s) + nstopret (evs s) = total_stops progs.

  Lemma QInv_step : forall progs s l s', coh s -> QInv progs s -> pstep s l = Some s' -> QInv progs s'.
  Proof.
    unfold QInv. intros progs s l s' C I H.
    destruct (pstep_pc _ _ _ C H) as [(Ep & Ee)|(t & p & p' & ev & Hn & Ep & Ee & Ht)].
    - rewrite Ep, Ee. exact I.
    - rewrite Ep, Ee. unfold nstopret in *. rewrite filter_app, app_length.
      pose proof (wsum_upd _ sw t p' p _ Hn) as Hw.
      assert (E : sw p' + length (filter is_stopret ev) = sw p).
      { inversion Ht; subst; cbn; try lia. destruct uo; cbn; lia. }
      lia.
  Qed.

  Lemma QInv_init : forall progs, QInv progs (pinit nw progs).
  Proof.
    intros progs. unfold QInv, pinit. cbn [pcs evs]. unfold nstopret. cbn.
    assert (E : forall n (l : list pc), wsum sw (repeat WInit n ++ l) = wsum sw l).
    { induction n as [|n IHn]; intros l; [reflexivity|]. cbn [repeat app]. unfold wsum in *. cbn [fold_right]. rewrite IHn. reflexivity. }
    rewrite E, Nat.add_0_r. unfold total_stops. induction progs as [|p r IH]; [reflexivity|].
    cbn [map wsum fold_right]. unfold wsum in IH. rewrite IH. unfold sw, stops_of. cbn [pc_ops]. lia.
  Qed.

  Theorem QInv_reach : forall progs s, preach nw maxq (pinit nw progs) s -> QInv progs s.
  Proof.
    intros progs s Hr. assert (coh s /\ QInv progs s) as (_ & I); auto. revert s Hr. apply preach_inv.
    - split; [apply coh_init|apply QInv_init].
    - intros s l s' _ (C & I) H. split; [eapply coh_step|eapply QInv_step]; eauto.
  Qed.

  Lemma wsum_ge_one : forall A (f : A -> nat) l a x, nth_error l a = Some x -> f x <= wsum f l.
  Proof.
    intros A f l; induction l as [|h r IH]; intros [|a] x H; cbn in H; try discriminate.
    - inversion H; subst. cbn. lia.
    - cbn. specialize (IH _ _ H). unfold wsum in IH. lia.
  Qed.

  Lemma wsum_ge_two : forall A (f : A -> nat) l a b x y, nth_error l a = Some x -> nth_error l b = Some y ->
    a <> b -> f x + f y <= wsum f l.
  Proof.
    intros A f l; induction l as [|h r IH]; intros [|a] [|b] x y Ha Hb Hne; cbn in Ha, Hb; try discriminate; try congruence.
    - inversion Ha; subst. cbn. pose proof (wsum_ge_one _ f _ _ _ Hb). unfold wsum in *. lia.
    - inversion Hb; subst. cbn. pose proof (wsum_ge_one _ f _ _ _ Ha). unfold wsum in *. lia.
    - cbn. assert (a <> b) by congruence. specialize (IH _ _ _ _ Ha Hb H). unfold wsum in IH. lia.
  Qed.

  Lemma joined_in : forall i e, joined i e = true -> exists u, In (EvJoin u i) e.
  Proof.
    intros i e H. unfold joined in H. apply existsb_exists in H. destruct H as (x & Hx & Hj).
    destruct x; try discriminate. apply Nat.eqb_eq in Hj. subst. eauto.
  Qed.

  Lemma nstopret_in : forall e u, In (EvStopRet u) e -> 1 <= nstopret e.
  Proof.
    intros e u H. unfold nstopret. induction e as [|x r IH]; [destruct H|]. cbn. destruct H as [->|H].
    - cbn. lia.
    - specialize (IH H). destruct (is_stopret x); cbn; lia.
  Qed.

  (* the assertion of Thread::join never fires unless stop() is called more than once *)
  Theorem no_fault_step : forall progs s l s', coh s -> DInv s -> QInv progs s -> total_stops progs <= 1 ->
    (forall x, In x (evs s) -> is_fault x = false) -> pstep s l = Some s' ->
    forall x, In x (evs s') -> is_fault x = false.
  Proof.
    intros progs s l s' C D Q Hone NF H x Hin.
    destruct (pstep_pc _ _ _ C H) as [(Ep & Ee)|(t & p & p' & ev & Hn & Ep & Ee & Ht)].
    - rewrite Ee in Hin. auto.
    - rewrite Ee in Hin. apply in_app_or in Hin. destruct Hin as [Hin|Hin]; auto.
      inversion Ht; subst; cbn in Hin; try tauto; destruct Hin as [<-|[]]; auto. exfalso.
      (* a fault: worker i was joined before by some u *)
      unfold QInv in Q.
      destruct (joined_in _ _ H1) as (u & Hu).
      assert (Hswt : sw (CJoin i ops) >= 1) by (unfold sw; lia).
      destruct (di_join _ D _ _ Hu) as [Hr|[(i' & ops' & Hp & Hlt)|(ops' & Hp)]].
      + pose proof (nstopret_in _ _ Hr). pose proof (wsum_ge_one _ sw _ _ _ Hn). lia.
      + destruct (Nat.eq_dec u t) as [->|Hne].
        * unfold pc_at in Hp. rewrite Hn in Hp. inversion Hp; subst. lia.
        * pose proof (wsum_ge_two _ sw _ _ _ _ _ Hp Hn Hne) as Hw. unfold sw in Hw at 1 2. lia.
      + destruct (Nat.eq_dec u t) as [->|Hne].
        * unfold pc_at in Hp. rewrite Hn in Hp. discriminate.
        * pose proof (wsum_ge_two _ sw _ _ _ _ _ Hp Hn Hne) as Hw. unfold sw in Hw at 1 2. lia.
  Qed.

  Theorem single_stop_no_fault : forall progs s, preach nw maxq (pinit nw progs) s -> total_stops progs <= 1 ->
    (forall x, In x (evs s) -> is_fault x = false) /\ (forall t ops, pc_at s t <> Some (CFault ops)).
  Proof.
    intros progs s Hr Hone.
    assert (NF : forall x, In x (evs s) -> is_fault x = false).
    { assert (coh s /\ DInv s /\ QInv progs s /\ forall x, In x (evs s) -> is_fault x = false) as (_ & _ & _ & I); auto.
      revert s Hr. apply preach_inv.
      - split; [apply coh_init|]. split; [apply (DInv_reach progs); apply preach_refl|]. split; [apply QInv_init|]. intros x [].
      - intros s l s' Hr (C & D & Q & I) H. split; [eapply coh_step; eauto|]. split; [eapply DInv_step; eauto|].
        split; [eapply QInv_step; eauto|]. eapply no_fault_step; eauto. }
    split; auto. intros t ops Hp. destruct (di_fault _ (DInv_reach _ _ Hr) _ _ Hp) as (i & Hi).
    specialize (NF _ Hi). discriminate.
  Qed.

  (* ================================================================ the statements of Properties_C15 *)
  Notation reachable progs s := (preach nw maxq (pinit nw progs) s).

  Theorem accounting : forall progs s, reachable progs s -> forall k,
    count_occ Nat.eq_dec (accepted (evs s)) k =
    count_occ Nat.eq_dec (started (evs s)) k + count_occ Nat.eq_dec (inhand (pcs s)) k +
    count_occ Nat.eq_dec (queue (shared (mon s))) k.
  Proof.
    intros progs s Hr k. rewrite (li_acct _ _ (LInv_reach _ _ Hr)), count_occ_app, (hi_count _ (HInv_reach _ _ Hr)).
    reflexivity.
  Qed.

  Theorem at_most_once : forall progs s, reachable progs s -> forall k,
    count_occ Nat.eq_dec (started (evs s)) k <= count_occ Nat.eq_dec (accepted (evs s)) k.
  Proof. intros progs s Hr k. rewrite (accounting _ _ Hr k). lia. Qed.

  Theorem at_most_once_full : forall progs s, reachable progs s -> forall k,
    count_occ Nat.eq_dec (started (evs s)) k <= count_occ Nat.eq_dec (accepted (evs s)) k /\
    count_occ Nat.eq_dec (accepted (evs s)) k =
      count_occ Nat.eq_dec (started (evs s)) k + count_occ Nat.eq_dec (inhand (pcs s)) k +
      count_occ Nat.eq_dec (queue (shared (mon s))) k.
  Proof. intros progs s Hr k. split; [exact (at_most_once progs s Hr k)|exact (accounting progs s Hr k)]. Qed.

  Lemma accepted_in : forall e, accepted e <> [] -> exists t k, In (EvAccept t k) e.
  Proof.
    induction e as [|x r IH]; cbn; [congruence|]. intro H. destruct x; cbn in H; eauto 6;
      destruct (IH H) as (t0 & k0 & Hin); eauto 6.
  Qed.

  Theorem quiescent_shape : forall progs s, reachable progs s -> pquiescent nw maxq s ->
    forall t p th, nth_error (pcs s) t = Some p -> nth_error (threads (mon s)) t = Some th ->
      p = WDone \/ p = CIdle [] \/ (exists ops, p = CFault ops) \/
      (p = WTake /\ st th = Waiting notEmpty /\ queue (shared (mon s)) = [] /\ running (shared (mon s)) = true) \/
      (exists ops, p = CCall ops /\ st th = Waiting notFull /\ isFull maxq (queue (shared (mon s))) = true /\
                   running (shared (mon s)) = true).
  Proof.
    intros progs s Hr Q. apply quiescent_shape_gen; auto.
    - eapply coh_reach; eauto.
    - eapply MInv_reach; eauto.
    - eapply SInv_reach; eauto.
    - eapply len_reach; eauto.
  Qed.

  Theorem exactly_once_unless_stopped : forall progs s, reachable progs s -> pquiescent nw maxq s ->
    inhand (pcs s) = [] /\
    (forall k, count_occ Nat.eq_dec (accepted (evs s)) k =
               count_occ Nat.eq_dec (started (evs s)) k + count_occ Nat.eq_dec (queue (shared (mon s))) k) /\
    (queue (shared (mon s)) <> [] -> running (shared (mon s)) = false /\ existsb is_stopsec (evs s) = true).
  Proof.
    intros progs s Hr Q. pose proof (coh_reach _ _ Hr) as C. pose proof (quiescent_shape _ _ Hr Q) as Sh.
    assert (Hin : inhand (pcs s) = []).
    { unfold inhand. apply flat_map_nil_all. intros p Hp. destruct (In_nth_error _ _ Hp) as (t & Ht).
      destruct (nth_error (threads (mon s)) t) as [th|] eqn:Hn.
      - destruct (Sh _ _ _ Ht Hn) as [->|[->|[(fo & ->)|[(-> & _)|(ops & -> & _)]]]]; reflexivity.
      - exfalso. apply nth_error_None in Hn. destruct C as (Hlen & _).
        assert (nth_error (pcs s) t <> None) as Hx by congruence. apply nth_error_Some in Hx. lia. }
    split; auto. split.
    - intros k. rewrite (accounting _ _ Hr k), Hin. cbn. lia.
    - intros Hq. pose proof (LInv_reach _ _ Hr) as L.
      assert (Hrf : running (shared (mon s)) = false).
      { destruct (running (shared (mon s))) eqn:Hrun; auto. exfalso.
        assert (Ha : accepted (evs s) <> []).
        { rewrite (li_acct _ _ L). intro E. apply app_eq_nil in E. tauto. }
        destruct (accepted_in _ Ha) as (t & k & Hin').
        destruct (hi_who _ (HInv_reach _ _ Hr) _ Hin') as (_ & Hnz).
        pose proof (len_reach _ _ Hr) as Hlen.
        destruct (nth_error (pcs s) 0) as [p0|] eqn:Hp0; [|apply nth_error_None in Hp0; lia].
        destruct (nth_error (threads (mon s)) 0) as [th0|] eqn:Hn0.
        2:{ apply nth_error_None in Hn0. destruct C as (Hl & _). lia. }
        destruct C as (_ & Hc). pose proof (Hc _ _ _ Hp0 Hn0) as Hc1.
        destruct (Sh _ _ _ Hp0 Hn0) as [->|[->|[(fo & ->)|[(-> & _ & Hq0 & _)|(ops & -> & _)]]]].
        - pose proof (di_done _ (DInv_reach _ _ Hr) 0 Hp0). congruence.
        - cbn in Hc1. lia.
        - cbn in Hc1. lia.
        - congruence.
        - cbn in Hc1. lia. }
      split; auto. rewrite (li_flag _ _ L) in Hrf. destruct (existsb is_stopsec (evs s)); auto.
  Qed.

  Lemma prefix_nth_error : forall (A : Type) (l r : list A) k v, nth_error l k = Some v -> nth_error (l ++ r) k = Some v.
  Proof. intros A l r k v H. rewrite nth_error_app1; auto. apply nth_error_Some. congruence. Qed.

  Lemma by0 : forall e, (forall x, In x e -> match x with EvTake t _ | EvStart t _ => t = 0 | _ => True end) ->
    taken e = taken_by 0 e /\ started e = started_by 0 e.
  Proof.
    induction e as [|x r IH]; intros H; [auto|].
    destruct IH as (I1 & I2); [intros y Hy; apply H; right; auto|].
    pose proof (H x (or_introl eq_refl)) as Hx.
    unfold taken, taken_by, started, started_by in *. cbn [flat_map]. rewrite I1, I2.
    destruct x; auto; subst; auto.
  Qed.

  Lemma inhand0 : forall ps ths, cohL ps ths -> nw <= 1 ->
    inhand ps = match nth_error ps 0 with Some p => inhand1 p | None => [] end.
  Proof.
    intros ps ths (Hlen & Hc) Hnw. destruct ps as [|p0 r]; [reflexivity|]. cbn [nth_error]. unfold inhand. cbn [flat_map].
    assert (E : flat_map inhand1 r = []).
    { apply flat_map_nil_all. intros p Hp. destruct (In_nth_error _ _ Hp) as (t & Ht).
      destruct (nth_error ths (S t)) as [th|] eqn:Hn.
      - pose proof (Hc (S t) p th Ht Hn) as Hc1. destruct p; cbn in *; auto. lia.
      - exfalso. apply nth_error_None in Hn. assert (nth_error r t <> None) as Hx by congruence.
        apply nth_error_Some in Hx. cbn in Hlen. lia. }
    rewrite E, app_nil_r. reflexivity.
  Qed.

  Theorem fifo_start_order : forall progs s, reachable progs s ->
    (exists rest, accepted (evs s) = taken (evs s) ++ rest) /\
    (forall i k, nth_error (taken (evs s)) i = Some k -> nth_error (accepted (evs s)) i = Some k) /\
    (forall t, taken_by t (evs s) = started_by t (evs s) ++ inhand_at s t) /\
    (nw <= 1 -> taken (evs s) = started (evs s) ++ inhand (pcs s)).
  Proof.
    intros progs s Hr. pose proof (LInv_reach _ _ Hr) as L. pose proof (HInv_reach _ _ Hr) as Hh.
    split; [rewrite (li_acct _ _ L); eauto|]. split.
    - intros i k Hk. rewrite (li_acct _ _ L). apply prefix_nth_error; auto.
    - split; [apply (hi_by _ Hh)|]. intros Hnw.
      destruct (by0 (evs s)) as (E1 & E2).
      { intros x Hx. pose proof (hi_who _ Hh x Hx) as Hw. destruct x; auto; lia. }
      rewrite E1, E2, (hi_by _ Hh 0), (inhand0 _ _ (coh_reach _ _ Hr) Hnw). reflexivity.
  Qed.

  Theorem on_pool_thread : forall progs s, reachable progs s ->
    (forall t k, In (EvStart t k) (evs s) -> t < nw) /\
    (forall t k, In (EvTake t k) (evs s) -> t < nw) /\
    (forall t k, In (EvAccept t k) (evs s) -> nw <= t /\ nw <> 0) /\
    (forall t k, In (EvInline t k) (evs s) -> nw = 0).
  Proof.
    intros progs s Hr. pose proof (hi_who _ (HInv_reach _ _ Hr)) as Hw.
    split; [|split; [|split]]; intros t k Hin; apply (Hw _ Hin).
  Qed.

  Theorem inline_when_empty : forall progs s, reachable progs s -> nw = 0 ->
    accepted (evs s) = [] /\ taken (evs s) = [] /\ started (evs s) = [] /\ queue (shared (mon s)) = [].
  Proof.
    intros progs s Hr Hz. pose proof (hi_who _ (HInv_reach _ _ Hr)) as Hw.
    assert (Ha : accepted (evs s) = []).
    { destruct (accepted (evs s)) as [|a0 l0] eqn:E; auto. exfalso.
      destruct (accepted_in (evs s)) as (t1 & k1 & Hin); [congruence|]. destruct (Hw _ Hin). lia. }
    pose proof (li_acct _ _ (LInv_reach _ _ Hr)) as Hacct. rewrite Ha in Hacct. symmetry in Hacct.
    apply app_eq_nil in Hacct. destruct Hacct as (Ht & Hq). repeat split; auto.
    unfold started. apply flat_map_nil_all. intros x Hx. specialize (Hw _ Hx). destruct x; auto. lia.
  Qed.

  Theorem bounded : forall progs s, reachable progs s -> 0 < maxq -> length (queue (shared (mon s))) <= maxq.
  Proof. intros progs s Hr. apply (li_bound _ _ (LInv_reach _ _ Hr)). Qed.

  (* after stop()'s first block nobody is (or ever again gets) blocked on a condition *)
  Theorem nobody_waits_after_stop : forall progs s, reachable progs s -> running (shared (mon s)) = false ->
    forall t th c, nth_error (threads (mon s)) t = Some th -> st th <> Waiting c.
  Proof.
    intros progs s Hr Hrf t th c Hn Hs. pose proof (coh_reach _ _ Hr) as C. pose proof (MInv_reach _ _ Hr) as I.
    destruct (nth_error (pcs s) t) as [p|] eqn:Hp.
    - assert (running (shared (mon s)) = true); [|congruence].
      destruct (waiting_cond _ _ _ _ _ C I Hp Hn Hs) as [(_ & ->)|(ops & _ & ->)].
      + apply (mi_bE _ I). eapply count_pos_nth; eauto. apply is_waiting_true; auto.
      + apply (mi_bF _ I). eapply count_pos_nth; eauto. apply is_waiting_true; auto.
    - apply nth_error_None in Hp. destruct C as (Hlen & _).
      assert (nth_error (threads (mon s)) t <> None) as Hx by congruence. apply nth_error_Some in Hx. lia.
  Qed.

  Lemma no_spurious_after_stop : forall progs ls s s', reachable progs s -> running (shared (mon s)) = false ->
    prun nw maxq s ls = Some s' -> pnspur ls = 0.
  Proof.
    intros progs. induction ls as [|l r IH]; intros s s' Hr Hrf H; [reflexivity|]. cbn in H.
    destruct (pstep s l) as [s1|] eqn:E; [|discriminate].
    unfold pnspur in *. cbn [filter]. destruct (p_is_spurious l) eqn:El.
    - exfalso. destruct l as [[| |t|]| | | | |]; try discriminate.
      pose proof (pstep_sound _ _ _ E) as R. inversion R; subst.
      eapply (nobody_waits_after_stop _ _ Hr Hrf); eauto.
    - eapply IH; [eapply preach_step; eauto| |exact H]. eapply running_stays_false; eauto.
  Qed.

  Theorem stop_terminates : forall progs s, reachable progs s -> running (shared (mon s)) = false ->
    (* nobody is blocked *)
    (forall t th c, nth_error (threads (mon s)) t = Some th -> st th <> Waiting c) /\
    (* every continuation is finite *)
    (forall ls s', prun nw maxq s ls = Some s' -> length ls <= pmeasure nw s) /\
    (* a continuation that cannot be extended has every worker returned, every client finished
       and every stop() returned *)
    (forall ls s', prun nw maxq s ls = Some s' -> (forall l, pstep s' l = None) ->
       (forall t, t < nw -> pc_at s' t = Some WDone) /\
       (forall t p, nw <= t -> pc_at s' t = Some p -> p = CIdle [] \/ exists ops, p = CFault ops) /\
       (forall t, In (EvStopSec t) (evs s') -> In (EvStopRet t) (evs s') \/ exists i, In (EvFault t i) (evs s'))) /\
    (* and such a continuation exists *)
    (exists ls s', prun nw maxq s ls = Some s' /\ forall l, pstep s' l = None).
  Proof.
    intros progs s Hr Hrf. pose proof (coh_reach _ _ Hr) as C.
    assert (Hfin : forall ls s', prun nw maxq s ls = Some s' -> length ls <= pmeasure nw s).
    { intros ls s' H. pose proof (prun_bound _ _ _ C H) as Hb. rewrite (no_spurious_after_stop _ _ _ _ Hr Hrf H) in Hb.
      assert (length ls = pnonspur ls + pnspur ls) as El.
      { unfold pnonspur, pnspur. clear. induction ls as [|l r IH]; cbn; auto. destruct (p_is_spurious l); cbn; lia. }
      rewrite (no_spurious_after_stop _ _ _ _ Hr Hrf H) in El. lia. }
    assert (Hend : forall ls s', prun nw maxq s ls = Some s' -> pquiescent nw maxq s' ->
              (forall t, t < nw -> pc_at s' t = Some WDone) /\
              (forall t p, nw <= t -> pc_at s' t = Some p -> p = CIdle [] \/ exists ops, p = CFault ops) /\
              (forall t, In (EvStopSec t) (evs s') -> In (EvStopRet t) (evs s') \/ exists i, In (EvFault t i) (evs s')) /\
              (forall l, pstep s' l = None)).
    { intros ls s' H Q. pose proof (preach_prun _ _ _ _ Hr H) as Hr'.
      assert (Hrf' : running (shared (mon s')) = false).
      { clear Q Hr' Hfin. revert s C Hr Hrf H. induction ls as [|l r IH]; intros s C Hr Hrf H; cbn in H.
        - inversion H; subst; auto.
        - destruct (pstep s l) as [s1|] eqn:E; [|discriminate].
          eapply (IH s1); eauto; [eapply coh_step|eapply preach_step|eapply running_stays_false]; eauto. }
      pose proof (coh_reach _ _ Hr') as C'. pose proof (quiescent_shape _ _ Hr' Q) as Sh.
      assert (Hsh : forall t p, pc_at s' t = Some p -> p = WDone \/ p = CIdle [] \/ exists ops, p = CFault ops).
      { intros t p Hp. destruct (nth_error (threads (mon s')) t) as [th|] eqn:Hn.
        - destruct (Sh _ _ _ Hp Hn) as [->|[->|[(fo & ->)|[(_ & _ & _ & Hx)|(ops & _ & _ & _ & Hx)]]]]; eauto; congruence.
        - exfalso. apply nth_error_None in Hn. destruct C' as (Hlen & _).
          assert (nth_error (pcs s') t <> None) as Hx by (unfold pc_at in Hp; congruence). apply nth_error_Some in Hx. lia. }
      assert (Hcoh : forall t p, pc_at s' t = Some p -> (p = WDone -> t < nw) /\ (p = CIdle [] \/ (exists ops, p = CFault ops) -> nw <= t)).
      { intros t p Hp. destruct (nth_error (threads (mon s')) t) as [th|] eqn:Hn.
        - destruct C' as (_ & Hc). pose proof (Hc _ _ _ Hp Hn) as Hc1.
          split; [intros ->; cbn in Hc1; tauto|intros [->|(fo & ->)]; cbn in Hc1; tauto].
        - exfalso. apply nth_error_None in Hn. destruct C' as (Hlen & _).
          assert (nth_error (pcs s') t <> None) as Hx by (unfold pc_at in Hp; congruence). apply nth_error_Some in Hx. lia. }
      split; [|split; [|split]].
      - intros t Ht. pose proof (len_reach _ _ Hr') as Hlen.
        destruct (pc_at s' t) as [p|] eqn:Hp; [|unfold pc_at in Hp; apply nth_error_None in Hp; lia].
        destruct (Hsh _ _ Hp) as [->|Hq]; auto. destruct (Hcoh _ _ Hp) as (_ & Hx). specialize (Hx Hq). lia.
      - intros t p Ht Hp. destruct (Hsh _ _ Hp) as [->|Hq]; auto. destruct (Hcoh _ _ Hp) as (Hx & _). specialize (Hx eq_refl). lia.
      - intros t Hin. destruct (di_stop _ (DInv_reach _ _ Hr') _ Hin) as [Hx|Hst]; auto.
        destruct (pc_at s' t) as [p|] eqn:Hp; [|destruct Hst].
        destruct (Hsh _ _ Hp) as [->|[->|(fo & ->)]]; cbn in Hst; try contradiction.
        right. eapply (di_fault _ (DInv_reach _ _ Hr')); eauto.
      - intros l. destruct (pstep s' l) as [s2|] eqn:E; auto. exfalso.
        pose proof (Q _ _ E) as Hl. destruct l as [[| |t|]| | | | |]; try discriminate.
        pose proof (pstep_sound _ _ _ E) as R. inversion R; subst.
        eapply (nobody_waits_after_stop _ _ Hr' Hrf'); eauto. }
    split; [apply (nobody_waits_after_stop _ _ Hr Hrf)|]. split; [exact Hfin|]. split.
    - intros ls s' H Hno. destruct (Hend _ _ H) as (H1 & H2 & H3 & _); auto.
      intros l s2 E. rewrite Hno in E. discriminate.
    - destruct (preaches_quiescence s C) as (ls & s' & Hrun & _ & Q). exists ls, s'. split; auto.
      destruct (Hend _ _ Hrun Q) as (_ & _ & _ & Hx). exact Hx.
  Qed.

  Theorem nothing_starts_after_stop_returns : forall progs s, reachable progs s ->
    Forall after_stop_ok (after is_stopret (evs s)) /\
    (existsb is_stopret (evs s) = true ->
       running (shared (mon s)) = false /\ forall j, j < nw -> pc_at s j = Some WDone).
  Proof.
    intros progs s Hr. pose proof (SInv_reach _ _ Hr) as SI. split; [apply (si_after _ SI)|apply (si_ret _ SI)].
  Qed.

  Theorem run_after_stop_noop : forall progs s, reachable progs s ->
    Forall not_accept (after is_stopsec (evs s)) /\
    running (shared (mon s)) = negb (existsb is_stopsec (evs s)) /\
    (* a run(k) section evaluated when running_ is false changes nothing and queues nothing *)
    (forall k, running (shared (mon s)) = false ->
       pool_body maxq (PRun k) (shared (mon s)) = Ret (shared (mon s)) RRejected []).
  Proof.
    intros progs s Hr. pose proof (LInv_reach _ _ Hr) as L. split; [apply (li_frozen _ _ L)|]. split; [apply (li_flag _ _ L)|].
    intros k Hrf. unfold pool_body, run_waits. rewrite Hrf, andb_false_r. reflexivity.
  Qed.

  (* quiescence is reached from every reachable state; the bound on schedules with spurious wake-ups *)
  Theorem quiescence_reached : forall progs s, reachable progs s ->
    (forall ls s', prun nw maxq s ls = Some s' -> pmeasure nw s' + pnonspur ls <= pmeasure nw s + 2 * pnspur ls) /\
    (exists ls s', prun nw maxq s ls = Some s' /\ pnspur ls = 0 /\ reachable progs s' /\ pquiescent nw maxq s').
  Proof.
    intros progs s Hr. pose proof (coh_reach _ _ Hr) as C. split.
    - intros ls s' H. eapply prun_bound; eauto.
    - destruct (preaches_quiescence s C) as (ls & s' & Hrun & Hsp & Q). exists ls, s'. repeat split; auto.
      eapply preach_prun; eauto.
  Qed.

  (* ================================================================ every run() call is decided exactly once *)
  Definition pend1 (v : pc * thread pop) : list task := prog_runs (snd v) ++ runs_of (pc_ops (fst v)).

  Lemma pending_views : forall s, pending s = flat_map pend1 (views s).
  Proof. reflexivity. Qed.

  Lemma count_flat_map_upd : forall A (f : A -> list task) vs t v v' k, nth_error vs t = Some v ->
    count_occ Nat.eq_dec (flat_map f (upd t v' vs)) k + count_occ Nat.eq_dec (f v) k =
    count_occ Nat.eq_dec (flat_map f vs) k + count_occ Nat.eq_dec (f v') k.
  Proof.
    intros A f. induction vs as [|h r IH]; intros [|t] v v' k H; cbn in H; try discriminate.
    - inversion H; subst. cbn [upd flat_map]. rewrite !count_occ_app. unfold task in *. lia.
    - cbn [upd flat_map]. rewrite !count_occ_app. specialize (IH _ _ v' k H). unfold task in *. lia.
  Qed.

  Lemma pending_wakes : forall ps ths ths', wakes ths ths' ->
    flat_map pend1 (combine ps ths') = flat_map pend1 (combine ps ths).
  Proof.
    intros ps ths ths' H. revert ps. induction H as [|a b l l' Hk Hw IH]; intros [|p ps]; cbn; auto.
    rewrite IH. unfold pend1, prog_runs. cbn [fst snd]. rewrite (wk_prog _ _ Hk). reflexivity.
  Qed.

  Definition decided (e : list event) (k : task) : nat :=
    count_occ Nat.eq_dec (accepted e) k + count_occ Nat.eq_dec (rejected e) k + count_occ Nat.eq_dec (inlined e) k.

  Lemma decided_app : forall e e' k, decided (e ++ e') k = decided e k + decided e' k.
  Proof.
    intros e e' k. unfold decided, accepted, rejected, inlined. rewrite !flat_map_app, !count_occ_app. unfold task in *. lia.
  Qed.

  Definition PInv (progs : list (list uop)) (s : psys) : Prop :=
    forall k, decided (evs s) k + count_occ Nat.eq_dec (pending s) k = count_occ Nat.eq_dec (submitted progs) k.

  Lemma PInv_step : forall progs s l s', coh s -> PInv progs s -> pstep s l = Some s' -> PInv progs s'.
  Proof.
    intros progs s l s' C I H k. specialize (I k). pose proof (pstep_sound _ _ _ H) as R. rewrite pending_views in *.
    assert (Hsame : forall t v v', nth_error (views s) t = Some v -> pend1 v' = pend1 v ->
              count_occ Nat.eq_dec (flat_map pend1 (upd t v' (views s))) k = count_occ Nat.eq_dec (flat_map pend1 (views s)) k).
    { intros t v v' Hv He. pose proof (count_flat_map_upd _ pend1 _ _ _ v' k Hv) as Hc. rewrite He in Hc. lia. }
    assert (Hth : forall t, pc_at s t <> None -> exists th, nth_error (threads (mon s)) t = Some th).
    { intros t Hp. destruct (nth_error (threads (mon s)) t) eqn:E; eauto. exfalso. apply nth_error_None in E.
      destruct C as (Hlen & _). apply nth_error_Some in Hp. lia. }
    inversion R; subst; cbn [evs]; unfold views at 1; cbn [pcs mon threads].
    - pose proof (cohL_pc_at _ _ _ _ C H0) as Hpc. rewrite (views_upd_th _ _ _ _ _ Hpc H0).
      rewrite (Hsame _ (nth t (pcs s) WDone, th)); auto. apply nth_error_combine; auto.
      unfold pend1, prog_runs. cbn [fst snd prog]. rewrite H2. reflexivity.
    - pose proof (cohL_pc_at _ _ _ _ C H0) as Hpc. rewrite (views_upd_th _ _ _ _ _ Hpc H0).
      rewrite (Hsame _ (nth t (pcs s) WDone, th)); auto. apply nth_error_combine; auto.
      unfold pend1, prog_runs. cbn [fst snd prog]. rewrite H2. reflexivity.
    - pose proof (cohL_pc_at _ _ _ _ C H0) as Hpc. rewrite (views_upd_th _ _ _ _ _ Hpc H0).
      rewrite (Hsame _ (nth t (pcs s) WDone, th)); auto. apply nth_error_combine; auto.
    - pose proof (cohL_pc_at _ _ _ _ C H0) as Hpc. rewrite (views_upd_th _ _ _ _ _ Hpc H0).
      rewrite (Hsame _ (nth t (pcs s) WDone, th)); auto. apply nth_error_combine; auto.
    - (* return from a section *)
      pose proof (cohL_pc_at _ _ _ _ C H0) as Hpc.
      assert (Hv : nth_error (views s) t = Some (nth t (pcs s) WDone, th)) by (apply nth_error_combine; auto).
      rewrite (pending_wakes _ _ _ (apply_signals_wakes sg picks _)), combine_upd. fold (views s).
      pose proof (count_flat_map_upd _ pend1 _ _ _ (after_ret (nth t (pcs s) WDone) r, mkThread rest Idle) k Hv) as Hc.
      rewrite decided_app.
      assert (E1 : pend1 (nth t (pcs s) WDone, th) =
                   (match o with PRun k0 => [k0] | _ => [] end) ++ pend1 (after_ret (nth t (pcs s) WDone) r, mkThread rest Idle)).
      { unfold pend1, prog_runs. cbn [fst snd prog]. rewrite H2, pc_ops_after_ret. cbn [flat_map]. rewrite <- app_assoc. reflexivity. }
      rewrite E1, count_occ_app in Hc.
      assert (E2 : decided (ev_of t o r) k = count_occ Nat.eq_dec (match o with PRun k0 => [k0] | _ => [] end) k).
      { destruct o as [k0| | |]; destruct r as [| |[k1|]| |]; unfold decided; cbn;
        repeat match goal with |- context [Nat.eq_dec ?a ?b] => destruct (Nat.eq_dec a b) end; lia. }
      rewrite E2. unfold task in *. lia.
    - destruct (set_prog_spec _ _ _ _ _ _ _ H2) as (th & Hn & Hs & ->). cbn [threads].
      destruct (views_upd_both s t WLoop th WTake (mkThread [PTake] Idle) H0 Hn) as (Ev & Hv). rewrite Ev.
      rewrite (Hsame _ _ _ Hv); auto.
      destruct C as (_ & Hc). destruct (Hc _ _ _ H0 Hn) as (_ & _ & Hq). unfold pend1, prog_runs. cbn [fst snd prog pc_ops].
      rewrite Hq. reflexivity.
    - destruct (Hth t) as (th & Hn); [congruence|]. rewrite (views_upd_pc _ _ _ _ _ H0 Hn).
      rewrite (Hsame _ (WLoop, th)); auto. apply nth_error_combine; auto.
    - destruct (Hth t) as (th & Hn); [congruence|]. rewrite (views_upd_pc _ _ _ _ _ H0 Hn).
      rewrite decided_app. rewrite (Hsame _ (WGot k0, th)); auto; [|apply nth_error_combine; auto].
      unfold decided at 2. cbn. lia.
    - destruct (Hth t) as (th & Hn); [congruence|]. rewrite (views_upd_pc _ _ _ _ _ H0 Hn).
      assert (Hv : nth_error (views s) t = Some (CIdle (URun k0 :: ops), th)) by (apply nth_error_combine; auto).
      pose proof (count_flat_map_upd _ pend1 _ _ _ (CIdle ops, th) k Hv) as Hc.
      assert (E1 : count_occ Nat.eq_dec (pend1 (CIdle (URun k0 :: ops), th)) k =
                   count_occ Nat.eq_dec [k0] k + count_occ Nat.eq_dec (pend1 (CIdle ops, th)) k).
      { unfold pend1. cbn [fst snd pc_ops runs_of flat_map]. rewrite !count_occ_app. unfold task in *. lia. }
      rewrite decided_app. assert (E2 : decided [EvInline t k0] k = count_occ Nat.eq_dec [k0] k)
        by (unfold decided; cbn; repeat match goal with |- context [Nat.eq_dec ?a ?b] => destruct (Nat.eq_dec a b) end; lia).
      rewrite E2. unfold task in *. lia.
    - destruct (set_prog_spec _ _ _ _ _ _ _ H2) as (th & Hn & Hs & ->). cbn [threads].
      destruct (views_upd_both s t _ th (snd (call_of uo ops)) (mkThread [fst (call_of uo ops)] Idle) H0 Hn) as (Ev & Hv).
      rewrite Ev. rewrite (Hsame _ _ _ Hv); auto.
      destruct C as (_ & Hc). destruct (Hc _ _ _ H0 Hn) as (_ & _ & Hq). unfold pend1, prog_runs. cbn [fst snd prog].
      rewrite Hq. destruct uo; reflexivity.
    - destruct (Hth t) as (th & Hn); [congruence|]. rewrite (views_upd_pc _ _ _ _ _ H0 Hn).
      rewrite decided_app. rewrite (Hsame _ (CJoin i ops, th)); auto; [|apply nth_error_combine; auto].
      unfold decided at 2. cbn. lia.
    - destruct (Hth t) as (th & Hn); [congruence|]. rewrite (views_upd_pc _ _ _ _ _ H0 Hn).
      rewrite decided_app. rewrite (Hsame _ (CJoin i ops, th)); auto; [|apply nth_error_combine; auto].
      unfold decided at 2. cbn. lia.
    - destruct (Hth t) as (th & Hn); [congruence|]. rewrite (views_upd_pc _ _ _ _ _ H0 Hn).
      rewrite decided_app. rewrite (Hsame _ (WInit, th)); auto; [|apply nth_error_combine; auto].
      unfold decided at 2. cbn. lia.
    - destruct (Hth t) as (th & Hn); [congruence|]. rewrite (views_upd_pc _ _ _ _ _ H0 Hn).
      rewrite decided_app. rewrite (Hsame _ (CJoin i ops, th)); auto; [|apply nth_error_combine; auto].
      unfold decided at 2. cbn. lia.
  Qed.

  Lemma PInv_init : forall progs, PInv progs (pinit nw progs).
  Proof.
    intros progs k. unfold decided, pending, pinit. cbn [evs pcs mon threads init_sys accepted rejected inlined flat_map count_occ].
    rewrite map_app, combine_app_eq by (rewrite map_length, !repeat_length; reflexivity). rewrite flat_map_app, count_occ_app.
    assert (E1 : flat_map (fun x : pc * thread pop => prog_runs (snd x) ++ runs_of (pc_ops (fst x)))
                   (combine (repeat WInit nw) (map (fun p : list pop => mkThread p Idle) (repeat [] nw))) = []).
    { apply flat_map_nil_all. intros [p th] Hin. pose proof (in_combine_l _ _ _ _ Hin) as Hp.
      pose proof (in_combine_r _ _ _ _ Hin) as Ht. apply repeat_spec in Hp. apply in_map_iff in Ht.
      destruct Ht as (q & <- & Hq). apply repeat_spec in Hq. subst. reflexivity. }
    rewrite E1. cbn [count_occ Nat.add]. unfold submitted. f_equal. rewrite map_map.
    induction progs as [|p r IH]; cbn [map combine flat_map]; auto. rewrite IH. reflexivity.
  Qed.

  Theorem PInv_reach : forall progs s, preach nw maxq (pinit nw progs) s -> PInv progs s.
  Proof.
    intros progs s Hr. assert (coh s /\ PInv progs s) as (_ & I); auto. revert s Hr. apply preach_inv.
    - split; [apply coh_init|apply PInv_init].
    - intros s l s' _ (C & I) H. split; [eapply coh_step|eapply PInv_step]; eauto.
  Qed.

  (* every run(k) of every client program is decided exactly once (accepted, rejected because the pool
     was stopped, or run inline) or still pending; distinct submitted tasks start at most once *)
  Theorem every_run_decided_once : forall progs s, preach nw maxq (pinit nw progs) s ->
    (forall k, count_occ Nat.eq_dec (accepted (evs s)) k + count_occ Nat.eq_dec (rejected (evs s)) k +
               count_occ Nat.eq_dec (inlined (evs s)) k + count_occ Nat.eq_dec (pending s) k =
               count_occ Nat.eq_dec (submitted progs) k) /\
    (NoDup (submitted progs) -> forall k, count_occ Nat.eq_dec (started (evs s)) k + count_occ Nat.eq_dec (inlined (evs s)) k <= 1).
  Proof.
    intros progs s Hr. pose proof (PInv_reach _ _ Hr) as I. split; [exact I|].
    intros Hnd k. specialize (I k). unfold decided in I. pose proof (at_most_once _ _ Hr k) as Ha.
    rewrite (NoDup_count_occ Nat.eq_dec) in Hnd. specialize (Hnd k). unfold task in *. lia.
  Qed.

  (* ================================================================ per client: its run() calls are decided in program order *)
  Definition CInv (progs : list (list uop)) (s : psys) : Prop :=
    forall x v, nth_error (views s) x = Some v -> nw <= x ->
      runs_of (nth (x - nw) progs []) = decided_by x (evs s) ++ pend1 v.

  Lemma decided_by_app : forall x e e', decided_by x (e ++ e') = decided_by x e ++ decided_by x e'.
  Proof. intros. unfold decided_by. apply flat_map_app. Qed.

  Lemma decided_by_other : forall x t ev, (forall y, In y ev -> event_thread y = t) -> x <> t -> decided_by x ev = [].
  Proof.
    intros x t ev H Hne. unfold decided_by. apply flat_map_nil_all. intros y Hy. specialize (H _ Hy).
    destruct y; auto; cbn in H; subst; (destruct (Nat.eqb t x) eqn:E; [apply Nat.eqb_eq in E; congruence|reflexivity]).
  Qed.

  Lemma CInv_upd : forall progs s t v v' ev, CInv progs s -> nth_error (views s) t = Some v ->
    (forall y, In y ev -> event_thread y = t) ->
    (nw <= t -> pend1 v = decided_by t ev ++ pend1 v') ->
    forall x v2, nth_error (upd t v' (views s)) x = Some v2 -> nw <= x ->
      runs_of (nth (x - nw) progs []) = decided_by x (evs s ++ ev) ++ pend1 v2.
  Proof.
    intros progs s t v v' ev I Hv Hby He x v2 Hx Hle. rewrite decided_by_app.
    destruct (Nat.eq_dec t x) as [->|Hne].
    - rewrite (nth_error_upd_eq _ _ _ _ Hv) in Hx. inversion Hx; subst.
      rewrite (I _ _ Hv Hle), (He Hle), app_assoc. reflexivity.
    - rewrite nth_error_upd_neq in Hx by auto. rewrite (decided_by_other x t ev Hby) by auto.
      rewrite app_nil_r. apply I; auto.
  Qed.

  Lemma combine_wakes_nth : forall (ps : list pc) (ths ths' : list (thread pop)) x p b, wakes ths ths' ->
    nth_error (combine ps ths') x = Some (p, b) ->
    exists a, nth_error (combine ps ths) x = Some (p, a) /\ prog b = prog a.
  Proof.
    intros ps ths ths' x p b H. revert ps x. induction H as [|a0 b0 l l' Hk Hw IH]; intros [|p0 ps] [|x] Hn; cbn in Hn; try discriminate.
    - inversion Hn; subst. exists a0. split; [reflexivity|apply (wk_prog _ _ Hk)].
    - cbn. apply IH. exact Hn.
  Qed.

  Lemma CInv_step : forall progs s l s', coh s -> CInv progs s -> pstep s l = Some s' -> CInv progs s'.
  Proof.
    intros progs s l s' C I H. pose proof (pstep_sound _ _ _ H) as R.
    assert (Hth : forall t, pc_at s t <> None -> exists th, nth_error (threads (mon s)) t = Some th).
    { intros t Hp. destruct (nth_error (threads (mon s)) t) eqn:E; eauto. exfalso. apply nth_error_None in E.
      destruct C as (Hlen & _). apply nth_error_Some in Hp. lia. }
    assert (Hnil : forall x v2, nth_error (views s) x = Some v2 -> nw <= x ->
              runs_of (nth (x - nw) progs []) = decided_by x (evs s ++ []) ++ pend1 v2).
    { intros. rewrite app_nil_r. apply I; auto. }
    inversion R; subst; unfold CInv, views; cbn [pcs mon threads evs]; intros x v2 Hx Hle.
    - pose proof (cohL_pc_at _ _ _ _ C H0) as Hpc. rewrite (views_upd_th _ _ _ _ _ Hpc H0) in Hx.
      rewrite <- (app_nil_r (evs s)). eapply (CInv_upd progs s t (nth t (pcs s) WDone, th)); eauto.
      + apply nth_error_combine; auto.
      + intros y [].
      + intros _. unfold pend1, prog_runs. cbn [fst snd prog]. rewrite H2. reflexivity.
    - pose proof (cohL_pc_at _ _ _ _ C H0) as Hpc. rewrite (views_upd_th _ _ _ _ _ Hpc H0) in Hx.
      rewrite <- (app_nil_r (evs s)). eapply (CInv_upd progs s t (nth t (pcs s) WDone, th)); eauto.
      + apply nth_error_combine; auto.
      + intros y [].
      + intros _. unfold pend1, prog_runs. cbn [fst snd prog]. rewrite H2. reflexivity.
    - pose proof (cohL_pc_at _ _ _ _ C H0) as Hpc. rewrite (views_upd_th _ _ _ _ _ Hpc H0) in Hx.
      rewrite <- (app_nil_r (evs s)). eapply (CInv_upd progs s t (nth t (pcs s) WDone, th)); eauto.
      + apply nth_error_combine; auto.
      + intros y [].
      + intros _. reflexivity.
    - pose proof (cohL_pc_at _ _ _ _ C H0) as Hpc. rewrite (views_upd_th _ _ _ _ _ Hpc H0) in Hx.
      rewrite <- (app_nil_r (evs s)). eapply (CInv_upd progs s t (nth t (pcs s) WDone, th)); eauto.
      + apply nth_error_combine; auto.
      + intros y [].
      + intros _. reflexivity.
    - (* return from a section *)
      pose proof (cohL_pc_at _ _ _ _ C H0) as Hpc.
      assert (Hv : nth_error (views s) t = Some (nth t (pcs s) WDone, th)) by (apply nth_error_combine; auto).
      destruct v2 as [p2 b].
      destruct (combine_wakes_nth _ _ _ _ _ _ (apply_signals_wakes sg picks _) Hx) as (a & Ha & Hpa).
      rewrite combine_upd in Ha. fold (views s) in Ha.
      assert (Ep : pend1 (p2, b) = pend1 (p2, a)) by (unfold pend1, prog_runs; cbn [fst snd]; rewrite Hpa; reflexivity).
      rewrite Ep. eapply (CInv_upd progs s t _ _ (ev_of t o r) I Hv); eauto.
      + intros y Hy. destruct o; destruct r as [| |[k1|]| |]; cbn in Hy; try tauto; destruct Hy as [<-|[]]; reflexivity.
      + intros _. unfold pend1, prog_runs. cbn [fst snd prog]. rewrite H2, pc_ops_after_ret. cbn [flat_map].
        rewrite <- app_assoc. f_equal.
        destruct o as [k0| | |]; destruct r as [| |[k1|]| |]; cbn; rewrite ?Nat.eqb_refl; reflexivity.
    - destruct (set_prog_spec _ _ _ _ _ _ _ H2) as (th & Hn & Hs & ->). cbn [threads] in Hx.
      destruct (views_upd_both s t WLoop th WTake (mkThread [PTake] Idle) H0 Hn) as (Ev & Hv). unfold views in Ev. rewrite Ev in Hx.
      rewrite <- (app_nil_r (evs s)). eapply (CInv_upd progs s t _ _ [] I Hv); eauto.
      + intros y [].
      + intros _. destruct C as (_ & Hc). destruct (Hc _ _ _ H0 Hn) as (_ & _ & Hq). unfold pend1, prog_runs. cbn [fst snd prog pc_ops].
        rewrite Hq. reflexivity.
    - destruct (Hth t) as (th & Hn); [congruence|]. rewrite (views_upd_pc _ _ _ _ _ H0 Hn) in Hx.
      rewrite <- (app_nil_r (evs s)). eapply (CInv_upd progs s t (WLoop, th)); eauto.
      + apply nth_error_combine; auto.
      + intros y [].
      + intros _. reflexivity.
    - destruct (Hth t) as (th & Hn); [congruence|]. rewrite (views_upd_pc _ _ _ _ _ H0 Hn) in Hx.
      eapply (CInv_upd progs s t (WGot k, th)); eauto.
      + apply nth_error_combine; auto.
      + intros y [<-|[]]. reflexivity.
      + intros _. reflexivity.
    - destruct (Hth t) as (th & Hn); [congruence|]. rewrite (views_upd_pc _ _ _ _ _ H0 Hn) in Hx.
      eapply (CInv_upd progs s t (CIdle (URun k :: ops), th)); eauto.
      + apply nth_error_combine; auto.
      + intros y [<-|[]]. reflexivity.
      + intros _. destruct C as (_ & Hc). destruct (Hc _ _ _ H0 Hn) as (_ & _ & Hq). unfold pend1, prog_runs. cbn [fst snd pc_ops].
        rewrite Hq. cbn. rewrite Nat.eqb_refl. reflexivity.
    - destruct (set_prog_spec _ _ _ _ _ _ _ H2) as (th & Hn & Hs & ->). cbn [threads] in Hx.
      destruct (views_upd_both s t _ th (snd (call_of uo ops)) (mkThread [fst (call_of uo ops)] Idle) H0 Hn) as (Ev & Hv).
      unfold views in Ev. rewrite Ev in Hx.
      rewrite <- (app_nil_r (evs s)). eapply (CInv_upd progs s t _ _ [] I Hv); eauto.
      + intros y [].
      + intros _. destruct C as (_ & Hc). destruct (Hc _ _ _ H0 Hn) as (_ & _ & Hq). unfold pend1, prog_runs. cbn [fst snd prog].
        rewrite Hq. destruct uo; reflexivity.
    - destruct (Hth t) as (th & Hn); [congruence|]. rewrite (views_upd_pc _ _ _ _ _ H0 Hn) in Hx.
      eapply (CInv_upd progs s t (CJoin i ops, th)); eauto.
      + apply nth_error_combine; auto.
      + intros y [<-|[]]. reflexivity.
      + intros _. reflexivity.
    - destruct (Hth t) as (th & Hn); [congruence|]. rewrite (views_upd_pc _ _ _ _ _ H0 Hn) in Hx.
      eapply (CInv_upd progs s t (CJoin i ops, th)); eauto.
      + apply nth_error_combine; auto.
      + intros y [<-|[]]. reflexivity.
      + intros _. reflexivity.
    - destruct (Hth t) as (th & Hn); [congruence|]. rewrite (views_upd_pc _ _ _ _ _ H0 Hn) in Hx.
      eapply (CInv_upd progs s t (WInit, th)); eauto.
      + apply nth_error_combine; auto.
      + intros y [<-|[]]. reflexivity.
      + intros _. reflexivity.
    - destruct (Hth t) as (th & Hn); [congruence|]. rewrite (views_upd_pc _ _ _ _ _ H0 Hn) in Hx.
      eapply (CInv_upd progs s t (CJoin i ops, th)); eauto.
      + apply nth_error_combine; auto.
      + intros y [<-|[]]. reflexivity.
      + intros _. reflexivity.
  Qed.

  Lemma CInv_init : forall progs, CInv progs (pinit nw progs).
  Proof.
    intros progs x v Hx Hle. unfold views, pinit in Hx. cbn [pcs mon threads init_sys evs] in *.
    rewrite map_app, combine_app_eq in Hx by (rewrite map_length, !repeat_length; reflexivity).
    rewrite nth_error_app2 in Hx by (rewrite combine_length, map_length, !repeat_length; lia).
    rewrite combine_length, map_length, !repeat_length, Nat.min_id in Hx.
    rewrite !map_map in Hx. cbn [decided_by flat_map app].
    revert Hx. generalize (x - nw). intros n. revert n. induction progs as [|p r IH]; intros [|n] Hx; cbn in Hx; try discriminate.
    - inversion Hx; subst. unfold pend1, prog_runs. cbn. reflexivity.
    - cbn [nth]. apply IH. exact Hx.
  Qed.

  Theorem CInv_reach : forall progs s, preach nw maxq (pinit nw progs) s -> CInv progs s.
  Proof.
    intros progs s Hr. assert (coh s /\ CInv progs s) as (_ & I); auto. revert s Hr. apply preach_inv.
    - split; [apply coh_init|apply CInv_init].
    - intros s l s' _ (C & I) H. split; [eapply coh_step|eapply CInv_step]; eauto.
  Qed.

  (* client t (thread index nw + c) has had its run() calls decided in program order: what has been
     accepted / rejected / run inline so far is a prefix of the run() calls of its program, and the
     rest is the call in progress followed by what is left of the program *)
  Theorem client_program_order : forall progs s c p th, preach nw maxq (pinit nw progs) s ->
    nth_error (pcs s) (nw + c) = Some p -> nth_error (threads (mon s)) (nw + c) = Some th ->
    runs_of (nth c progs []) = decided_by (nw + c) (evs s) ++ prog_runs th ++ runs_of (pc_ops p).
  Proof.
    intros progs s c p th Hr Hp Hn. pose proof (CInv_reach _ _ Hr (nw + c) (p, th)) as I.
    replace (nw + c - nw) with c in I by lia. apply I; [apply nth_error_combine; auto|lia].
  Qed.

  (* a pool without threads: every run() is executed inline, in program order, at the call *)
  Theorem inline_program_order : forall progs s c p, preach nw maxq (pinit nw progs) s -> nw = 0 ->
    nth_error (pcs s) c = Some p ->
    runs_of (nth c progs []) = decided_by c (evs s) ++ runs_of (pc_ops p).
  Proof.
    intros progs s c p Hr Hz Hp. pose proof (coh_reach _ _ Hr) as C.
    destruct (nth_error (threads (mon s)) c) as [th|] eqn:Hn.
    - pose proof (client_program_order progs s c p th Hr) as E. rewrite Hz in E. cbn [Nat.add] in E.
      rewrite (E Hp Hn).
      assert (Hq : prog_runs th = []).
      { destruct C as (_ & Hc). pose proof (Hc _ _ _ Hp Hn) as Hc1. unfold prog_runs.
        destruct p; cbn in Hc1; try (destruct Hc1 as (_ & _ & ->); reflexivity).
        - destruct Hc1 as (Hlt & _). lia.
        - destruct Hc1 as (_ & o & -> & [->|(Hnz & _)]); [reflexivity|congruence].
        - destruct Hc1 as (_ & ->). reflexivity. }
      rewrite Hq. reflexivity.
    - exfalso. apply nth_error_None in Hn. destruct C as (Hlen & _).
      assert (nth_error (pcs s) c <> None) as Hx by congruence. apply nth_error_Some in Hx. lia.
  Qed.
End Pool.

(* ================================================================ link to the generated guards (Gen_C15) *)
(* the body of the model with every guard replaced by the one regenerated from ThreadPool.cc *)
Definition gen_body (maxq : nat) (o : pop) (s : pool) : outcome pool pres :=
  let full := gen_isFull (Z.of_nat maxq) (Z.of_nat (length (queue s))) in
  let empty := match queue s with [] => true | _ => false end in
  match o with
  | PRun k =>
      if gen_run_waits full (running s) then Block notFull
      else if gen_run_rejects (running s) then Ret s RRejected []
      else Ret (mkPool (queue s ++ [k]) (running s)) RAccepted [Notify notEmpty]
  | PTake =>
      if gen_take_waits empty (running s) then Block notEmpty
      else if gen_take_pops empty then
             match queue s with
             | k :: q' => Ret (mkPool q' (running s)) (RTask (Some k))
                            (if gen_take_notifies (Z.of_nat maxq) then [Notify notFull] else [])
             | [] => Ret s (RTask None) []
             end
           else Ret s (RTask None) []
  | PStop => Ret (mkPool (queue s) false) RUnit [NotifyAll notEmpty; NotifyAll notFull]
  | PSize => Ret s (RSize (length (queue s))) []
  end.

(* the link lemmas are proved by case analysis on the comparisons / booleans, so that a harmless
   rewriting of a guard (commuted operands, ...) still checks while a changed guard does not *)
Ltac cmp_cases :=
  repeat match goal with
         | |- context [Z.gtb ?a ?b] => rewrite (Z.gtb_ltb a b)
         | |- context [Z.geb ?a ?b] => rewrite (Z.geb_leb a b)
         end;
  repeat match goal with
         | |- context [Z.ltb ?a ?b] => destruct (Z.ltb_spec a b)
         | |- context [Z.leb ?a ?b] => destruct (Z.leb_spec a b)
         | |- context [Z.eqb ?a ?b] => destruct (Z.eqb_spec a b)
         | |- context [Nat.ltb ?a ?b] => destruct (Nat.ltb_spec a b)
         | |- context [Nat.leb ?a ?b] => destruct (Nat.leb_spec a b)
         end;
  cbn; try reflexivity; try lia.

Lemma link_isFull : forall m (q : list task), gen_isFull (Z.of_nat m) (Z.of_nat (length q)) = isFull m q.
Proof. intros m q. unfold gen_isFull, isFull. cmp_cases. Qed.

Lemma link_take_notifies : forall m, gen_take_notifies (Z.of_nat m) = (0 <? m).
Proof. intros m. unfold gen_take_notifies. cmp_cases. Qed.

Lemma link_take_waits : forall (q : list task) r,
  gen_take_waits (match q with [] => true | _ => false end) r = take_waits q r.
Proof. intros [|k q] [|]; reflexivity. Qed.

Lemma link_take_pops : forall b, gen_take_pops b = negb b.
Proof. intros [|]; reflexivity. Qed.

Lemma link_run_waits : forall m (q : list task) r,
  gen_run_waits (gen_isFull (Z.of_nat m) (Z.of_nat (length q))) r = run_waits m q r.
Proof. intros m q r. unfold run_waits. rewrite <- link_isFull. destruct (gen_isFull _ _), r; reflexivity. Qed.

Lemma link_run_rejects : forall r, gen_run_rejects r = negb r.
Proof. intros [|]; reflexivity. Qed.

Lemma link_worker_loops : forall r, gen_worker_loops r = r.
Proof. intros [|]; reflexivity. Qed.

Theorem link_body : forall maxq o s, gen_body maxq o s = pool_body maxq o s.
Proof.
  intros maxq o s. unfold gen_body, pool_body. destruct o as [k| | |]; auto.
  - rewrite link_run_waits, link_run_rejects. reflexivity.
  - rewrite link_take_waits, link_take_notifies, link_take_pops.
    destruct (queue s); cbn [negb]; destruct (take_waits _ _); reflexivity.
Qed.
