(* C18_EncProofs: fillEmptyBuffer over the C10 Buffer model produces exactly the wire format;
   the final prepend depends on the cheap-prepend area (C10); onMessage over the Buffer model
   is the list-level decoder of C18_Model; the error path. *)
From Coq Require Import List ZArith Lia Bool Arith NArith.
From Coq.Strings Require Import Byte.
From Muduo Require Import Base_Bytes Gen_Consts C10_Model C10_Proofs C18_Model C18_StreamProofs C18_CodecProofs C18_Proofs C18_EncModel.
Import ListNotations.

Local Opaque kCheapPrepend kInitialSize kExtraBuf.

Lemma hdr_len_val : hdr_len = 4. Proof. reflexivity. Qed.
Lemma cks_len_val : cks_len = 4. Proof. reflexivity. Qed.

(* the dependency on C10, as a fact about the two regenerated constants: the length header
   fits into Buffer's cheap-prepend area *)
Lemma header_fits_cheap_prepend : hdr_len <= kCheapPrepend.
Proof. Local Transparent kCheapPrepend. vm_compute. repeat constructor. Local Opaque kCheapPrepend. Qed.

Lemma be_encode_checksum32 d : be_encode 4 (checksum32 d) = be_encode 4 (adler32 d).
Proof.
  unfold checksum32. rewrite to_signed4.
  destruct (adler32 d <? 2147483648)%Z; [reflexivity|].
  rewrite <- (be_encode_mod 4 (adler32 d - 4294967296)), <- (be_encode_mod 4 (adler32 d)).
  f_equal. change (256 ^ Z.of_nat 4)%Z with 4294967296%Z.
  rewrite <- (Z.mod_add (adler32 d - 4294967296) 1 4294967296) by lia. f_equal. lia.
Qed.

Lemma last_app_nonempty {A} (a b : list A) d : b <> [] -> last (a ++ b) d = last b d.
Proof.
  intros Hb. induction a as [|x a IH]; [reflexivity|].
  cbn [app last]. destruct (a ++ b) eqn:E; [|exact IH].
  apply app_eq_nil in E as [_ E]. contradiction.
Qed.

Section EncProofs.
  Variable msg : Type.
  Variable parse : list byte -> option msg.
  Variable ser : msg -> list byte.
  Variable tag : list byte.

  Notation fill := (fillEmptyBuffer msg ser tag).

  (* ---- fillEmptyBuffer --------------------------------------------------------------- *)
  Lemma fillEmptyBuffer_ok m b : Inv b [] -> 4 <= prependableBytes b ->
    exists b', fill m b = Ok b' /\ Inv b' (encode tag (ser m)).
  Proof.
    intros HI Hp. pose proof (inv_sizes b [] HI) as (_ & _ & Hr0 & _). cbn [length] in Hr0.
    unfold fillEmptyBuffer. rewrite Hr0. cbn [Nat.eqb].
    (* append(tag_) *)
    destruct (append_ok tag b [] HI) as (b1 & E1 & HI1). rewrite E1. cbn [bind app] in *.
    pose proof (append_ridx _ _ _ E1) as R1.
    (* serializeToBuffer *)
    unfold serializeToBuffer.
    destruct (ensureWritable_ok (length (ser m) + cks_len) b1 tag HI1) as (b1' & E2 & HI1' & Hw & _).
    rewrite E2. cbn [bind]. pose proof (ensureWritable_ridx _ _ _ E2) as R2.
    destruct (hasWritten_ok (ser m) b1' tag HI1') as (b2 & E3 & HI2); [lia|].
    rewrite E3. cbn [bind fst snd]. pose proof (hasWritten_ridx _ _ _ E3) as R3.
    (* checksum over peek() .. readableBytes() *)
    pose proof (inv_sizes b2 _ HI2) as (_ & _ & Hr2 & _).
    unfold toStringPiece. rewrite (peekBytes_ok _ b2 _ HI2 (le_n _)), Hr2, firstn_all. cbn [bind].
    (* appendInt32 *)
    unfold appendInt. cbn [wbytes].
    destruct (append_ok (be_encode 4 (checksum32 (tag ++ ser m))) b2 _ HI2) as (b3 & E4 & HI3).
    rewrite E4. cbn [bind]. pose proof (append_ridx _ _ _ E4) as R4.
    pose proof (inv_sizes b3 _ HI3) as (_ & _ & Hr3 & _).
    rewrite !app_length, be_encode_length in Hr3.
    rewrite Hr3, cks_len_val.
    destruct (Nat.eqb_spec (length tag + length (ser m) + 4) (length tag + length (ser m) + 4)); [|lia].
    (* prepend the length: 4 <= prependable, whatever makeSpace did *)
    pose proof header_fits_cheap_prepend as HC. rewrite hdr_len_val in HC.
    unfold prependableBytes in Hp.
    destruct (prepend_ok (be_encode 4 (Z.of_nat (length tag + length (ser m) + 4))) b3 _ HI3) as (b' & E5 & HI').
    { rewrite be_encode_length. unfold prependableBytes. lia. }
    exists b'. split; [exact E5|].
    unfold encode. rewrite be_encode_checksum32 in HI'.
    replace (Z.of_nat (length tag) + Z.of_nat (length (ser m)) + 4)%Z
      with (Z.of_nat (length tag + length (ser m) + 4)) by lia.
    rewrite <- app_assoc in HI'. exact HI'.
  Qed.

  (* on a buffer whose prepend area the caller has not used (any history without prepend /
     prependIntN that left it empty: `Buffer buf;` in ProtobufCodecLite::send, an output buffer
     drained by retrieveAll, ...) the final prepend is accepted: this is exactly where
     C10_cheap_prepend_unused is needed *)
  Lemma fillEmptyBuffer_unused n k ops st outs m :
    C10_Model.run (new_buf n, new_buf k) ops = Ok (st, outs) ->
    forallb (fun o => negb (prepends o)) ops = true ->
    readable (fst st) = [] ->
    exists b', fill m (fst st) = Ok b' /\ readable b' = encode tag (ser m).
  Proof.
    intros Hrun Hall Hempty.
    destruct (cheap_prepend_unused n k ops st outs Hrun Hall) as [Hp _].
    pose proof (run_reach _ ([], []) ops st outs (reach_init n k) Hrun) as Hr.
    destruct (reach_inv _ _ Hr) as [HI _].
    rewrite (inv_readable _ _ HI) in Hempty. rewrite Hempty in HI.
    pose proof header_fits_cheap_prepend as HC. rewrite hdr_len_val in HC.
    destruct (fillEmptyBuffer_ok m (fst st) HI) as (b' & E & HI'); [lia|].
    exists b'. split; [exact E|]. apply inv_readable. exact HI'.
  Qed.

  Lemma fillEmptyBuffer_fresh n m :
    exists b', fill m (new_buf n) = Ok b' /\ readable b' = encode tag (ser m) /\ Inv b' (encode tag (ser m)).
  Proof.
    pose proof header_fits_cheap_prepend as HC. rewrite hdr_len_val in HC.
    destruct (fillEmptyBuffer_ok m (new_buf n) (new_buf_inv n)) as (b' & E & HI').
    { unfold prependableBytes, new_buf. cbn [ridx]. lia. }
    exists b'. split; [exact E|]. split; [apply inv_readable|]; exact HI'.
  Qed.

  (* ---- the decoder over the Buffer model = the list-level decoder ---------------------- *)
  Notation cstepL := (cstep msg parse tag).

  Lemma peek_at_eq b l off len : Inv b l -> peek_at b off len = C18_Model.read_at l off len.
  Proof.
    intros HI. pose proof (inv_sizes b l HI) as (H1 & H2 & H3 & H4).
    destruct HI as (pre & post & Hs & Hp & Hw & _ & _).
    unfold peek_at, C18_Model.read_at. rewrite H3.
    destruct ((0 <=? off)%Z && (0 <=? len)%Z && (off + len <=? Z.of_nat (length l))%Z) eqn:G; [|reflexivity].
    apply andb_true_iff in G as [G G3]. apply andb_true_iff in G as [G1 G2].
    apply Z.leb_le in G1, G2, G3.
    unfold C10_Model.read_at.
    destruct (Nat.leb_spec (ridx b + Z.to_nat off + Z.to_nat len) (length (store b))); [|lia].
    f_equal. rewrite Hs, <- Hp, <- skipn_add, skipn_app_exact.
    rewrite skipn_app. replace (Z.to_nat off - length l) with 0 by lia. cbn [skipn].
    rewrite firstn_app. rewrite skipn_length.
    replace (Z.to_nat len - (length l - Z.to_nat off)) with 0 by lia.
    cbn [firstn]. apply app_nil_r.
  Qed.

  Lemma validateChecksum_buf_eq b l off len : Inv b l ->
    validateChecksum_buf b off len = validateChecksum l off len.
  Proof.
    intros HI. unfold validateChecksum_buf, validateChecksum.
    rewrite !(peek_at_eq b l) by exact HI. reflexivity.
  Qed.

  Lemma parse_frame_buf_eq b l off len : Inv b l ->
    parse_frame_buf msg parse tag b off len = parse_frame msg parse tag l off len.
  Proof.
    intros HI. unfold parse_frame_buf, parse_frame.
    rewrite (validateChecksum_buf_eq b l) by exact HI.
    rewrite !(peek_at_eq b l) by exact HI. reflexivity.
  Qed.

  (* one loop iteration *)
  Definition step_rel (b : buf) (l : list byte) : Prop :=
    match cstep_buf msg parse tag b, cstepL tt l with
    | BWait, SWait => True
    | BEmit m b', SEmit evs _ r => evs = [CMsg m] /\ Inv b' r
    | BStop e, SStop evs => evs = [e]
    | _, _ => False
    end.

  Lemma kMin_ge4 : (4 <= kMinMessageLen tag)%Z.
  Proof. unfold kMinMessageLen. rewrite kChecksumLen_val. lia. Qed.

  Lemma cstep_buf_eq b l : Inv b l -> step_rel b l.
  Proof.
    intros HI. pose proof (inv_sizes b l HI) as (H1 & H2 & H3 & H4).
    unfold step_rel, cstep_buf, cstep. rewrite H3.
    destruct (Z.of_nat (length l) >=? kMinMessageLen tag + kHeaderLen)%Z eqn:G; [|exact I].
    assert (H4l : 4 <= length l).
    { pose proof kMin_ge4. rewrite kHeaderLen_val in G. apply Z.geb_le in G. lia. }
    rewrite (peekInt_ok W32 b l HI) by (cbn [wbytes]; lia). cbn [wbytes].
    rewrite (read_at_ok l 0 4) by lia.
    change (Z.to_nat 0) with 0. change (Z.to_nat 4) with 4. change (skipn 0 l) with l.
    set (len := be_decode_signed (firstn 4 l)).
    destruct (length_bad tag len) eqn:GB; [exact eq_refl|].
    destruct (Z.of_nat (length l) >=? kHeaderLen + len)%Z eqn:G2; [|exact I].
    rewrite (parse_frame_buf_eq b l) by exact HI.
    destruct (parse_frame msg parse tag l kHeaderLen len) as [m|e|]; try exact eq_refl.
    (* retrieve(kHeaderLen + len) *)
    unfold retrieveUntil, ptr_ok, C18_Model.retrieve. rewrite H3.
    destruct ((0 <=? kHeaderLen + len)%Z && (kHeaderLen + len <=? Z.of_nat (length l))%Z) eqn:G3.
    - apply andb_true_iff in G3 as [G3a G3b]. apply Z.leb_le in G3a, G3b.
      destruct (C10_Proofs.retrieve_ok (Z.to_nat (kHeaderLen + len)) b l HI) as (b' & E & HI'); [lia|].
      rewrite E. split; [reflexivity|exact HI'].
    - exact eq_refl.
  Qed.

  (* the whole loop *)
  Lemma onMessage_buf_eq : forall fuel b l, Inv b l ->
    let '(evs, b', oof) := onMessage_buf msg parse tag fuel b in
    let r := C18_Model.run cstepL fuel tt l in
    fst r = evs /\ Inv b' (d_buf (snd r)) /\ d_oof (snd r) = oof.
  Proof.
    induction fuel as [|f IH]; intros b l HI; cbn [onMessage_buf C18_Model.run].
    - cbn. repeat split; [exact HI].
    - pose proof (cstep_buf_eq b l HI) as R. unfold step_rel in R.
      destruct (cstep_buf msg parse tag b) as [|m b1|e]; destruct (cstepL tt l) as [|evs u r|evs];
        try contradiction.
      + cbn. repeat split. exact HI.
      + destruct R as [-> HI1]. destruct u.
        specialize (IH b1 r HI1).
        destruct (onMessage_buf msg parse tag f b1) as [[evs1 b2] oof].
        destruct (C18_Model.run cstepL f tt r) as [e2 d]. cbn [fst snd] in *.
        destruct IH as (-> & HI2 & Ho). repeat split; assumption.
      + subst evs. cbn. repeat split. exact HI.
  Qed.

  (* ---- deliveries on the connection ------------------------------------------------------- *)
  Notation deliverC := (deliver msg parse tag).
  Notation live := (live_feed msg parse tag).

  Lemma deliver_eq c l chunk : Inv (c_in c) l ->
    exists c', deliverC c chunk = Ok (fst (live l chunk), c') /\
               Inv (c_in c') (snd (live l chunk)) /\
               c' = (if existsb (is_err msg) (fst (live l chunk))
                     then default_error_callback (mkConn (c_in c') (c_connected c) (c_shutdowns c))
                     else mkConn (c_in c') (c_connected c) (c_shutdowns c)).
  Proof.
    intros HI. unfold deliver, live_feed.
    destruct (append_ok chunk (c_in c) l HI) as (b1 & -> & HI1). cbn [bind].
    pose proof (inv_sizes b1 _ HI1) as (_ & _ & Hr & _). rewrite Hr.
    pose proof (onMessage_buf_eq (S (length (l ++ chunk))) b1 _ HI1) as H.
    destruct (onMessage_buf msg parse tag (S (length (l ++ chunk))) b1) as [[evs b2] oof].
    pose proof (run_no_oof unit (cevent msg) cstepL (cstep_shrinks msg parse tag)
                  (S (length (l ++ chunk))) tt (l ++ chunk) (Nat.lt_succ_diag_r _)) as Hno.
    destruct (C18_Model.run cstepL (S (length (l ++ chunk))) tt (l ++ chunk)) as [e2 d].
    cbn [fst snd] in *. destruct H as (-> & HI2 & Ho). rewrite Hno in Ho. subst oof.
    eexists. split; [reflexivity|]. split.
    - destruct (existsb (is_err msg) evs); [unfold default_error_callback; cbn [c_connected c_in]|];
        [destruct (c_connected c)|]; exact HI2.
    - destruct (existsb (is_err msg) evs); [unfold default_error_callback; cbn [c_connected c_in]|];
        [destruct (c_connected c)|]; reflexivity.
  Qed.

  (* a reported error is sticky: once the loop stopped with error e on the unconsumed bytes l,
     every later delivery -- whatever arrives -- stops with the same error, delivers no
     message and consumes nothing (cstep is prefix-determined) *)
  Lemma live_after_error l e chunk :
    cstepL tt l = SStop [CErr e] -> live l chunk = ([CErr e], l ++ chunk).
  Proof.
    intros H. unfold live_feed. cbn [C18_Model.run].
    rewrite (cstep_stop_mono msg parse tag tt l [CErr e] chunk H). reflexivity.
  Qed.

  Lemma live_after_stop l evs chunk :
    cstepL tt l = SStop evs -> live l chunk = (evs, l ++ chunk).
  Proof.
    intros H. unfold live_feed. cbn [C18_Model.run].
    rewrite (cstep_stop_mono msg parse tag tt l evs chunk H). reflexivity.
  Qed.

  (* the state of the list-level loop after it returned: waiting, or stopped on an error that
     every later iteration will find again *)
  Lemma run_final : forall fuel l, length l < fuel ->
    let r := C18_Model.run cstepL fuel tt l in
    d_oof (snd r) = false /\
    (if d_abandoned (snd r)
     then exists x, cstepL tt (d_buf (snd r)) = SStop [x] /\ exists pre, fst r = pre ++ [x]
     else cstepL tt (d_buf (snd r)) = SWait).
  Proof.
    induction fuel as [|f IH]; intros l Hl; [lia|]. cbn [C18_Model.run].
    destruct (cstepL tt l) as [|ev1 u r|ev1] eqn:E.
    - cbn. split; [reflexivity|exact E].
    - pose proof (cstep_shrinks msg parse tag _ _ _ _ _ E) as Hs. destruct u.
      specialize (IH r ltac:(lia)).
      destruct (C18_Model.run cstepL f tt r) as [e2 d]. cbn [fst snd] in *.
      destruct IH as [Ho IH]. split; [exact Ho|].
      destruct (d_abandoned d); [|exact IH].
      destruct IH as (x & Hx & pre & ->). exists x. split; [exact Hx|].
      exists (ev1 ++ pre). rewrite app_assoc. reflexivity.
    - cbn [fst snd d_oof d_abandoned d_buf]. split; [reflexivity|].
      assert (exists x, ev1 = [x]) as [x ->].
      { unfold cstep in E. repeat match type of E with
          | context [if ?c then _ else _] => destruct c
          | context [match ?o with _ => _ end] => destruct o
          end; try discriminate; injection E as <-; eexists; reflexivity. }
      exists x. split; [exact E|]. exists []. reflexivity.
  Qed.

  (* all deliveries, list level, loop run on every delivery (no abandoned flag) *)
  Fixpoint live_all (l : list byte) (chunks : list (list byte)) : list (list (cevent msg)) * list byte :=
    match chunks with
    | [] => ([], l)
    | c :: cs => let '(e1, l1) := live l c in
                 let '(es, lf) := live_all l1 cs in (e1 :: es, lf)
    end.

  Notation cfeed := (codec_feed msg parse tag).
  Notation cfeed_all := (codec_feed_all msg parse tag).

  (* relation between "loop on every delivery" (the real codec) and "abandoned after the first
     error" (the decoder of the property text), from any consistent pair of states *)
  Definition consistent (l : list byte) (d : dstate unit) : Prop :=
    d_buf d = l /\ d_oof d = false /\
    (if d_abandoned d then exists x, cstepL tt l = SStop [x] else True).

  Lemma live_vs_feed_step l d c : consistent l d ->
    let '(e1, l1) := live l c in
    let '(e2, d2) := cfeed d c in
    consistent l1 d2 /\
    (if d_abandoned d
     then exists x, cstepL tt l = SStop [x] /\ e1 = [x] /\ e2 = [] /\
                    d_abandoned d2 = true /\ cstepL tt l1 = SStop [x]
     else e1 = e2 /\ (d_abandoned d2 = true -> exists x, cstepL tt l1 = SStop [x] /\ In x e1)).
  Proof.
    intros (Hb & Ho & Hab). unfold codec_feed, feed. rewrite Ho, Hb.
    destruct (d_abandoned d) eqn:Ea; cbn [orb].
    - destruct Hab as (x & Hx). rewrite (live_after_stop l [x] c Hx).
      split.
      + split; [reflexivity|]. split; [reflexivity|]. cbn [d_abandoned].
        exists x. apply (cstep_stop_mono msg parse tag). exact Hx.
      + exists x. repeat split; try exact Hx.
        apply (cstep_stop_mono msg parse tag). exact Hx.
    - unfold live_feed. destruct (d_st d).
      pose proof (run_final (S (length (l ++ c))) (l ++ c) (Nat.lt_succ_diag_r _)) as HF.
      destruct (C18_Model.run cstepL (S (length (l ++ c))) tt (l ++ c)) as [e2 d2].
      cbn [fst snd] in HF. destruct HF as [Ho2 HF]. split.
      + split; [reflexivity|]. split; [exact Ho2|].
        destruct (d_abandoned d2); [|exact I]. destruct HF as (x & Hx & _). exists x. exact Hx.
      + split; [reflexivity|]. intros Hab2. rewrite Hab2 in HF. destruct HF as (x & Hx & pre & ->).
        exists x. split; [exact Hx|]. apply in_or_app. right. left. reflexivity.
  Qed.

  Lemma live_all_vs_feed_all : forall chunks l d, consistent l d ->
    let '(es, lf) := live_all l chunks in
    let '(evs, df) := cfeed_all d chunks in
    consistent lf df /\ length es = length chunks /\
    (d_abandoned d = true -> evs = [] /\ d_abandoned df = true /\
                             exists x, cstepL tt l = SStop [x] /\ es = repeat [x] (length chunks)) /\
    (d_abandoned df = false -> concat es = evs) /\
    (d_abandoned d = false -> d_abandoned df = true ->
       exists x, In x (concat es) /\ In x evs /\ exists l', cstepL tt l' = SStop [x]).
  Proof.
    induction chunks as [|c cs IH]; intros l d HC; cbn [live_all codec_feed_all feed_all].
    - split; [exact HC|]. split; [reflexivity|]. split; [|split; [reflexivity|]].
      + intros Hab. split; [reflexivity|]. split; [exact Hab|].
        destruct HC as (_ & _ & H). rewrite Hab in H. destruct H as (x & Hx).
        exists x. split; [exact Hx|reflexivity].
      + intros H1 H2. rewrite H1 in H2. discriminate.
    - pose proof (live_vs_feed_step l d c HC) as HS.
      destruct (live l c) as [e1 l1]. unfold codec_feed_all in *.
      change (feed (cstep msg parse tag) d c) with (cfeed d c).
      destruct (cfeed d c) as [e2 d2]. destruct HS as [HC2 HS].
      specialize (IH l1 d2 HC2).
      destruct (live_all l1 cs) as [es lf].
      destruct (feed_all (cstep msg parse tag) d2 cs) as [evs df].
      destruct IH as (HCf & Hlen & Hdead & Hlive & Hstop). split; [exact HCf|].
      split; [cbn [length]; f_equal; exact Hlen|].
      destruct (d_abandoned d) eqn:Ea.
      + destruct HS as (x & Hx & -> & -> & Ea2 & Hx1). cbn [app].
        destruct (Hdead Ea2) as (-> & Eaf & y & Hy & ->).
        rewrite Hx1 in Hy. injection Hy as <-.
        split; [|split].
        * intros _. split; [reflexivity|]. split; [exact Eaf|].
          exists x. split; [exact Hx|reflexivity].
        * intros Hf. rewrite Hf in Eaf. discriminate.
        * intros Hx0. discriminate Hx0.
      + destruct HS as [-> HS]. split; [intros Hx; discriminate Hx|]. split.
        * intros Hf. cbn [concat]. rewrite (Hlive Hf). reflexivity.
        * intros _ Hf. cbn [concat].
          destruct (d_abandoned d2) eqn:Ea2.
          -- destruct (HS eq_refl) as (x & Hx & Hin). exists x.
             split; [apply in_or_app; left; exact Hin|].
             split; [apply in_or_app; left; exact Hin|]. exists l1. exact Hx.
          -- destruct (Hstop eq_refl Hf) as (x & Hin1 & Hin2 & Hx). exists x.
             split; [apply in_or_app; right; exact Hin1|].
             split; [apply in_or_app; right; exact Hin2|]. exact Hx.
  Qed.

  (* the abandoned-flag decoder: once abandoned, its events end with the error that every later
     loop iteration finds again *)
  Lemma feed_all_dead : forall cs d, d_abandoned d = true ->
    cfeed_all d cs = ([], mkD (d_st d) (d_buf d ++ concat cs) true (d_oof d)).
  Proof.
    induction cs as [|c cs IH]; intros d Hab; cbn [codec_feed_all feed_all concat].
    - rewrite app_nil_r. destruct d; cbn in *; subst; reflexivity.
    - unfold codec_feed_all in *. unfold feed at 1. rewrite Hab. cbn [orb].
      rewrite (IH (mkD (d_st d) (d_buf d ++ c) true (d_oof d)) eq_refl).
      cbn [d_st d_buf d_oof]. rewrite <- app_assoc. reflexivity.
  Qed.

  Lemma feed_all_abandoned : forall chunks d evs df,
    cfeed_all d chunks = (evs, df) -> d_oof d = false -> d_abandoned d = false ->
    d_abandoned df = true ->
    exists x pre, evs = pre ++ [x] /\ exists l0 cs, d_buf df = l0 ++ concat cs /\ cstepL tt l0 = SStop [x].
  Proof.
    induction chunks as [|c cs IH]; intros d evs df H Ho Ha Hf; cbn [codec_feed_all feed_all] in H.
    - injection H as <- <-. rewrite Ha in Hf. discriminate.
    - unfold codec_feed_all in *. unfold feed at 1 in H. rewrite Ho, Ha in H. cbn [orb] in H.
      pose proof (run_final (S (length (d_buf d ++ c))) (d_buf d ++ c) (Nat.lt_succ_diag_r _)) as HF.
      destruct (d_st d).
      destruct (C18_Model.run cstepL (S (length (d_buf d ++ c))) tt (d_buf d ++ c)) as [e1 d1].
      cbn [fst snd] in HF. destruct HF as [Ho1 HF].
      destruct (d_abandoned d1) eqn:Ea1.
      + destruct HF as (x & Hx & pre & ->).
        pose proof (feed_all_dead cs d1 Ea1) as HD. unfold codec_feed_all in HD. rewrite HD in H.
        injection H as <- <-. exists x, pre. rewrite app_nil_r. split; [reflexivity|].
        exists (d_buf d1), cs. split; [reflexivity|exact Hx].
      + destruct (feed_all (cstep msg parse tag) d1 cs) as [e2 d2] eqn:E2.
        injection H as <- <-.
        destruct (IH d1 e2 d2 E2 Ho1 Ea1 Hf) as (x & pre & -> & l0 & cs0 & Hb & Hx).
        exists x, (e1 ++ pre). rewrite app_assoc. split; [reflexivity|].
        exists l0, cs0. split; assumption.
  Qed.

  (* ---- all deliveries on the connection ---------------------------------------------------- *)
  Notation deliver_allC := (deliver_all msg parse tag).
  Definition any_err (es : list (list (cevent msg))) : bool := existsb (existsb (is_err msg)) es.

  Lemma deliver_all_spec : forall chunks c l, Inv (c_in c) l ->
    exists c', deliver_allC c chunks = Ok (fst (live_all l chunks), c') /\
      Inv (c_in c') (snd (live_all l chunks)) /\
      c_connected c' = c_connected c && negb (any_err (fst (live_all l chunks))) /\
      c_shutdowns c' = c_shutdowns c + (if c_connected c && any_err (fst (live_all l chunks)) then 1 else 0).
  Proof.
    induction chunks as [|ch cs IH]; intros c l HI; cbn [deliver_all live_all].
    - exists c. cbn [fst snd any_err existsb]. rewrite andb_true_r, andb_false_r, Nat.add_0_r.
      repeat split. exact HI.
    - destruct (deliver_eq c l ch HI) as (c1 & E & HI1 & Hc1). rewrite E. cbn [bind snd fst].
      destruct (live l ch) as [e1 l1] eqn:EL. cbn [fst snd] in *.
      destruct (IH c1 l1 HI1) as (c2 & E2 & HI2 & Hcon & Hsh). rewrite E2. cbn [bind fst snd].
      destruct (live_all l1 cs) as [es lf]. cbn [fst snd] in *.
      exists c2. split; [reflexivity|]. split; [exact HI2|].
      unfold any_err in *. cbn [existsb].
      rewrite Hcon, Hsh. rewrite Hc1.
      destruct (existsb (is_err msg) e1); cbn [orb negb andb].
      + unfold default_error_callback. cbn [c_connected c_shutdowns].
        destruct (c_connected c); cbn [c_connected c_shutdowns andb]; split; try reflexivity; lia.
      + cbn [c_connected c_shutdowns]. split; reflexivity.
  Qed.
End EncProofs.

(* ======================= statements used by Properties_C18 ================================ *)
Lemma cstep_stop_kind (msg : Type) parse tag l (x : cevent msg) :
  cstep msg parse tag tt l = SStop [x] -> x = CFault \/ exists e, x = CErr e.
Proof.
  unfold cstep. intros E.
  repeat match type of E with
    | context [if ?c then _ else _] => destruct c
    | context [match ?o with _ => _ end] => destruct o
    end; try discriminate; injection E as <-; first [left; reflexivity | right; eexists; reflexivity].
Qed.

Lemma live_all_app (msg : Type) parse tag : forall c1 c2 l,
  live_all msg parse tag l (c1 ++ c2) =
  (fst (live_all msg parse tag l c1) ++ fst (live_all msg parse tag (snd (live_all msg parse tag l c1)) c2),
   snd (live_all msg parse tag (snd (live_all msg parse tag l c1)) c2)).
Proof.
  induction c1 as [|c cs IH]; intros c2 l; cbn [app live_all].
  - cbn [fst snd app]. destruct (live_all msg parse tag l c2); reflexivity.
  - destruct (live_feed msg parse tag l c) as [e1 l1]. rewrite IH.
    destruct (live_all msg parse tag l1 cs) as [es lf]. cbn [fst snd].
    destruct (live_all msg parse tag lf c2) as [es2 lf2]. reflexivity.
Qed.

Lemma consistent_init (msg : Type) parse tag : consistent msg parse tag [] codec_init.
Proof. repeat split. Qed.

Theorem encode_matches_wire_format :
  forall (msg : Type) (ser : msg -> list byte) (tag : list byte) (m : msg),
    (forall n, exists b', fillEmptyBuffer msg ser tag m (new_buf n) = Ok b' /\
                          readable b' = encode tag (ser m)) /\
    (forall st s, reach st s -> fst s = [] -> 4 <= prependableBytes (fst st) ->
       exists b', fillEmptyBuffer msg ser tag m (fst st) = Ok b' /\
                  readable b' = encode tag (ser m)) /\
    (forall st s, reach st s -> fst s <> [] -> fillEmptyBuffer msg ser tag m (fst st) = Rejected).
Proof.
  intros msg ser tag m. split; [|split].
  - intros n. destruct (fillEmptyBuffer_fresh msg ser tag n m) as (b' & E & R & _).
    exists b'. split; assumption.
  - intros st s Hr Hs Hp. destruct (reach_inv _ _ Hr) as [HI _]. rewrite Hs in HI.
    destruct (fillEmptyBuffer_ok msg ser tag m (fst st) HI Hp) as (b' & E & HI').
    exists b'. split; [exact E|apply inv_readable; exact HI'].
  - intros st s Hr Hs. destruct (reach_inv _ _ Hr) as [HI _].
    pose proof (inv_sizes _ _ HI) as (_ & _ & H3 & _).
    unfold fillEmptyBuffer. destruct (Nat.eqb_spec (readableBytes (fst st)) 0) as [E|]; [|reflexivity].
    destruct (fst s); [contradiction|cbn [length] in H3; lia].
Qed.

(* the dependency of the encoder on C10's cheap-prepend area, spelled out *)
Theorem encode_needs_cheap_prepend :
  hdr_len <= kCheapPrepend /\
  (forall (msg : Type) (ser : msg -> list byte) (tag : list byte) (m : msg) n k ops st outs,
     C10_Model.run (new_buf n, new_buf k) ops = Ok (st, outs) ->
     forallb (fun o => negb (prepends o)) ops = true ->
     readable (fst st) = [] ->
     exists b', fillEmptyBuffer msg ser tag m (fst st) = Ok b' /\ readable b' = encode tag (ser m)) /\
  (exists st outs,
     C10_Model.run (new_buf 16, new_buf 0) [PrependInt W64 0%Z; Unwrite 8] = Ok (st, outs) /\
     readable (fst st) = [] /\
     fillEmptyBuffer (list byte) (fun x => x) [] [] (fst st) = Rejected).
Proof.
  split; [exact header_fits_cheap_prepend|]. split.
  - intros msg ser tag m n k ops st outs. apply fillEmptyBuffer_unused.
  - destruct (C10_Model.run (new_buf 16, new_buf 0) [PrependInt W64 0%Z; Unwrite 8]) as [[st outs]| |] eqn:E;
      try (vm_compute in E; discriminate).
    exists st, outs. split; [reflexivity|].
    vm_compute in E. injection E as <- _. vm_compute. split; reflexivity.
Qed.

Lemma no_err_in_msgs (msg : Type) (es : list (list (cevent msg))) (ms : list msg) :
  concat es = map CMsg ms -> any_err msg es = false.
Proof.
  intros H. unfold any_err. apply not_true_is_false. intros Hex.
  apply existsb_exists in Hex as (e & Hin & Hex). apply existsb_exists in Hex as (x & Hinx & Hx).
  assert (Hc : In x (concat es)) by (apply in_concat; exists e; split; assumption).
  rewrite H in Hc. apply in_map_iff in Hc as (m & <- & _). discriminate.
Qed.

Lemma err_in_any (msg : Type) (es : list (list (cevent msg))) e :
  In (CErr e) (concat es) -> any_err msg es = true.
Proof.
  intros H. apply in_concat in H as (l & Hl & Hx). unfold any_err.
  apply existsb_exists. exists l. split; [exact Hl|].
  apply existsb_exists. exists (CErr e). split; [exact Hx|reflexivity].
Qed.

(* the decoder run over the Buffer model on a connection = the list-level decoder; it never
   faults; as long as no error occurred it is the abandoned-flag decoder of the other theorems *)
Theorem decoder_over_buffer :
  forall (msg : Type) (parse : list byte -> option msg) (tag : list byte) (chunks : list (list byte)) (n0 : nat),
    let r := codec_feed_all msg parse tag codec_init chunks in
    exists evss c', deliver_all msg parse tag (conn0 n0) chunks = Ok (evss, c') /\
      length evss = length chunks /\
      readable (c_in c') = d_buf (snd r) /\
      (d_abandoned (snd r) = false ->
         concat evss = fst r /\ c_connected c' = true /\ c_shutdowns c' = 0).
Proof.
  intros msg parse tag chunks n0. cbv zeta.
  destruct (deliver_all_spec msg parse tag chunks (conn0 n0) [] (new_buf_inv n0)) as (c' & E & HI & Hcon & Hsh).
  pose proof (live_all_vs_feed_all msg parse tag chunks [] codec_init (consistent_init msg parse tag)) as H.
  pose proof (consumes_only_own_bytes msg parse tag chunks) as HP. cbv zeta in HP.
  destruct (live_all msg parse tag [] chunks) as [es lf].
  destruct (codec_feed_all msg parse tag codec_init chunks) as [evs df].
  cbn [fst snd] in *. destruct H as (HC & Hlen & _ & Hlive & _).
  exists es, c'. split; [exact E|]. split; [exact Hlen|].
  split; [rewrite (inv_readable _ _ HI); destruct HC as (-> & _); reflexivity|].
  intros Hab. specialize (Hlive Hab). split; [exact Hlive|].
  destruct HP as (ps & ms & _ & _ & _ & [[Hev _]|(e & _ & Hab')]); [|rewrite Hab in Hab'; discriminate].
  rewrite Hev in Hlive. rewrite (no_err_in_msgs msg es ms Hlive) in Hcon, Hsh.
  cbn [conn0 c_connected c_shutdowns negb andb] in Hcon, Hsh. split; [exact Hcon|lia].
Qed.

(* every message encoded by the library into a fresh Buffer, the buffers' readable bytes
   concatenated and cut into deliveries in any way, fed through a connection's input Buffer:
   exactly those messages come out, the input buffer ends empty, no error, no shutdown *)
Theorem roundtrip_through_buffers :
  forall (msg : Type) (parse : list byte -> option msg) (ser : msg -> list byte) (tag : list byte),
    forall (ms : list msg) (bufs : list buf) (chunks : list (list byte)) (n0 : nat),
      Forall (fun m => parse (ser m) = Some m /\ fits tag (ser m)) ms ->
      Forall2 (fun m b => exists n, fillEmptyBuffer msg ser tag m (new_buf n) = Ok b) ms bufs ->
      concat chunks = flat_map readable bufs ->
      exists evss c', deliver_all msg parse tag (conn0 n0) chunks = Ok (evss, c') /\
        concat evss = map CMsg ms /\ readable (c_in c') = [] /\
        c_connected c' = true /\ c_shutdowns c' = 0.
Proof.
  intros msg parse ser tag ms bufs chunks n0 Hfits HF Hc.
  assert (Henc : flat_map readable bufs = flat_map (encode_msg msg ser tag) ms).
  { clear Hc Hfits. induction HF as [|m b ms' bufs' (n & E) _ IH]; [reflexivity|].
    cbn [flat_map]. rewrite IH. f_equal.
    destruct (fillEmptyBuffer_fresh msg ser tag n m) as (b' & E' & R & _).
    rewrite E in E'. injection E' as <-. exact R. }
  rewrite Henc in Hc.
  pose proof (roundtrip_on msg parse ser tag ms chunks Hfits Hc) as HR.
  destruct (decoder_over_buffer msg parse tag chunks n0) as (evss & c' & E & _ & Hb & Hlive).
  rewrite HR in Hb, Hlive. cbn [fst snd d_buf d_abandoned] in *.
  destruct (Hlive eq_refl) as (H1 & H2 & H3).
  exists evss, c'. repeat split; assumption.
Qed.


(* the error path: once the decoder of the property text has abandoned the stream (its events
   end with the error e), the real codec -- which TcpConnection keeps calling for whatever still
   arrives -- has shut the connection down exactly once, and from then on every delivery
   re-reports that same error, delivers no message and consumes nothing *)
Theorem error_abandons_stream :
  forall (msg : Type) (parse : list byte -> option msg) (tag : list byte)
         (chunks1 chunks2 : list (list byte)) (n0 : nat),
    let r1 := codec_feed_all msg parse tag codec_init chunks1 in
    d_abandoned (snd r1) = true ->
    exists e pre evss1 c',
      fst r1 = pre ++ [CErr e] /\
      deliver_all msg parse tag (conn0 n0) (chunks1 ++ chunks2) =
        Ok (evss1 ++ repeat [CErr e] (length chunks2), c') /\
      length evss1 = length chunks1 /\
      c_connected c' = false /\ c_shutdowns c' = 1 /\
      readable (c_in c') = d_buf (snd r1) ++ concat chunks2.
Proof.
  intros msg parse tag chunks1 chunks2 n0. cbv zeta. intros Hab.
  destruct (deliver_all_spec msg parse tag (chunks1 ++ chunks2) (conn0 n0) [] (new_buf_inv n0))
    as (c' & E & HI & Hcon & Hsh).
  rewrite live_all_app in E, HI, Hcon, Hsh. cbn [fst snd] in E, HI, Hcon, Hsh.
  pose proof (live_all_vs_feed_all msg parse tag chunks1 [] codec_init (consistent_init msg parse tag)) as H.
  pose proof (reads_in_bounds msg parse tag chunks1) as [HNF _].
  destruct (live_all msg parse tag [] chunks1) as [es1 lf1].
  destruct (codec_feed_all msg parse tag codec_init chunks1) as [evs1 d1] eqn:EF.
  cbn [fst snd] in *. destruct H as (HC1 & Hlen1 & _ & _ & Hstop).
  destruct (Hstop eq_refl Hab) as (x0 & Hin0 & Hin0' & l' & Hx0').
  destruct (feed_all_abandoned msg parse tag chunks1 codec_init evs1 d1 EF eq_refl eq_refl Hab)
    as (x & pre & Hev & l0 & cs0 & Hb0 & Hx0).
  assert (Hx : cstep msg parse tag tt (d_buf d1) = SStop [x]).
  { rewrite Hb0. apply (cstep_stop_mono msg parse tag). exact Hx0. }
  assert (Hxe : exists e, x = CErr e).
  { destruct (cstep_stop_kind msg parse tag _ x Hx) as [->|He]; [|exact He].
    exfalso. apply HNF. rewrite Hev. apply in_or_app. right. left. reflexivity. }
  destruct Hxe as (e & ->).
  assert (Hx0e : exists e0, x0 = CErr e0).
  { destruct (cstep_stop_kind msg parse tag _ x0 Hx0') as [->|He]; [|exact He].
    exfalso. apply HNF. exact Hin0'. }
  destruct Hx0e as (e0 & ->).
  pose proof (live_all_vs_feed_all msg parse tag chunks2 lf1 d1 HC1) as H2.
  pose proof (feed_all_dead msg parse tag chunks2 d1 Hab) as HD.
  destruct (live_all msg parse tag lf1 chunks2) as [es2 lf2].
  rewrite HD in H2. cbn [fst snd] in *. destruct H2 as (HC2 & _ & Hdead & _ & _).
  destruct (Hdead Hab) as (_ & _ & y & Hy & ->).
  destruct HC1 as (Hb1 & _ & _). rewrite <- Hb1 in Hy. rewrite Hx in Hy. injection Hy as <-.
  assert (Herr : any_err msg (es1 ++ repeat [CErr e] (length chunks2)) = true).
  { apply err_in_any with (e := e0). rewrite concat_app. apply in_or_app. left. exact Hin0. }
  rewrite Herr in Hcon, Hsh. cbn [conn0 c_connected c_shutdowns negb andb] in Hcon, Hsh.
  exists e, pre, es1, c'. split; [exact Hev|]. split; [exact E|]. split; [exact Hlen1|].
  split; [exact Hcon|]. split; [lia|].
  rewrite (inv_readable _ _ HI). destruct HC2 as (Hb2 & _). cbn [d_buf] in Hb2. symmetry. exact Hb2.
Qed.
