(* C20_TzProofs: time-zone lookup (binary search = last transition <= t) for all tables
   whose utc column is sorted, hence for all well-formed tables. *)
From Coq Require Import List ZArith Bool Arith Lia.
From Muduo Require Import Gen_C20 C20_Model.
Import ListNotations.
Local Open Scope Z_scope.

(* ---- sorted lists of Z, counting prefix ---------------------------------------- *)

Fixpoint sorted_z (l : list Z) : bool :=
  match l with
  | [] => true
  | a :: rest => match rest with [] => true | b :: _ => a <=? b end && sorted_z rest
  end.

Definition cnt (key : Z) (l : list Z) : nat := length (filter (fun x => x <=? key) l).

Lemma sorted_z_head a l : sorted_z (a :: l) = true -> Forall (fun x => a <= x) l /\ sorted_z l = true.
Proof.
  revert a. induction l as [|b r IH]; intros a H.
  - split; [constructor|reflexivity].
  - cbn [sorted_z] in H. apply andb_true_iff in H. destruct H as [Hab Hr]. apply Z.leb_le in Hab.
    split; [|exact Hr].
    destruct (IH b Hr) as [Hall _]. constructor; [exact Hab|].
    eapply Forall_impl; [|exact Hall]. cbv beta. intros x Hx. lia.
Qed.

Lemma cnt_all_gt key l : Forall (fun x => key < x) l -> cnt key l = 0%nat.
Proof.
  unfold cnt. induction 1 as [|x r Hx _ IH]; [reflexivity|].
  cbn [filter]. destruct (Z.leb_spec x key); [lia|exact IH].
Qed.

Lemma cnt_le_length key l : (cnt key l <= length l)%nat.
Proof.
  unfold cnt. induction l as [|a r IH]; [cbn; lia|].
  cbn [filter]. destruct (a <=? key); cbn [length]; lia.
Qed.

(* in a sorted list the elements <= key are exactly the first [cnt key l] ones *)
Lemma cnt_prefix key l : sorted_z l = true ->
  forall i, (i < length l)%nat -> (nth i l 0 <= key <-> (i < cnt key l)%nat).
Proof.
  induction l as [|a r IH]; intros Hs i Hi; [cbn in Hi; lia|].
  destruct (sorted_z_head _ _ Hs) as [Hall Hr].
  unfold cnt. cbn [filter]. destruct (Z.leb_spec a key) as [Hle|Hgt].
  - cbn [length]. destruct i as [|i]; cbn [nth]; [split; intros; [lia|exact Hle]|].
    cbn [length] in Hi. specialize (IH Hr i ltac:(lia)). unfold cnt in IH. rewrite IH. lia.
  - assert (Hz : cnt key r = 0%nat).
    { apply cnt_all_gt. eapply Forall_impl; [|exact Hall]. cbv beta. intros x Hx. lia. }
    unfold cnt in Hz. rewrite Hz. split; [|lia]. intros Hn. exfalso.
    destruct i as [|i]; cbn [nth] in Hn; [lia|].
    rewrite Forall_forall in Hall. cbn [length] in Hi.
    specialize (Hall (nth i r 0) ltac:(apply nth_In; lia)). lia.
Qed.

(* the libstdc++ binary search returns that count *)
Lemma ub_loop_correct key l : sorted_z l = true ->
  forall fuel first len, (len <= fuel)%nat -> (first + len <= length l)%nat ->
    (first <= cnt key l <= first + len)%nat ->
    ub_loop fuel key (fun i => nth i l 0) first len = cnt key l.
Proof.
  intros Hs. induction fuel as [|fu IH]; intros first len Hf Hlen Hc.
  - cbn [ub_loop]. lia.
  - cbn [ub_loop]. destruct len as [|len']; [lia|].
    set (len := S len') in *.
    assert (Hhalf : (Nat.div2 len < len)%nat) by (apply Nat.lt_div2; lia).
    set (half := Nat.div2 len) in *. cbv zeta.
    assert (Hmid : (first + half < length l)%nat) by lia.
    pose proof (cnt_prefix key l Hs (first + half)%nat Hmid) as Hp.
    destruct (Z.ltb_spec key (nth (first + half) l 0)) as [Hlt|Hge].
    + apply IH; lia.
    + apply IH; lia.
Qed.

Lemma upper_bound_correct key l : sorted_z l = true -> upper_bound key l = cnt key l.
Proof.
  intros Hs. unfold upper_bound. apply ub_loop_correct; auto.
  pose proof (cnt_le_length key l). lia.
Qed.

(* ---- transitions ------------------------------------------------------------------ *)

Lemma sorted_utc_map l : sorted_utc l = true -> sorted_z (map tutc l) = true.
Proof.
  induction l as [|a r IH]; [reflexivity|].
  cbn [sorted_utc map sorted_z]. destruct r as [|b r']; [reflexivity|].
  cbn [map]. rewrite !andb_true_iff. intros [H1 H2]. split; [exact H1|apply IH; exact H2].
Qed.

Definition le_t (t : Z) (tr : transition) : bool := tutc tr <=? t.

Lemma cnt_map t l : cnt t (map tutc l) = length (filter (le_t t) l).
Proof.
  unfold cnt. induction l as [|a r IH]; [reflexivity|].
  cbn [map filter]. change (le_t t a) with (tutc a <=? t). destruct (tutc a <=? t); cbn [length]; rewrite IH; reflexivity.
Qed.

Lemma filter_prefix t l : sorted_utc l = true ->
  filter (le_t t) l = firstn (length (filter (le_t t) l)) l.
Proof.
  induction l as [|a r IH]; intros Hs; [reflexivity|].
  pose proof (sorted_utc_map _ Hs) as Hz. cbn [map] in Hz.
  destruct (sorted_z_head _ _ Hz) as [Hall _].
  assert (Hr : sorted_utc r = true).
  { cbn [sorted_utc] in Hs. apply andb_true_iff in Hs. tauto. }
  cbn [filter]. destruct (le_t t a) eqn:E; unfold le_t in E.
  - cbn [length firstn]. f_equal. apply IH. exact Hr.
  - apply Z.leb_gt in E.
    assert (Hz0 : cnt t (map tutc r) = 0%nat).
    { apply cnt_all_gt. eapply Forall_impl; [|exact Hall]. cbv beta. intros x Hx. lia. }
    rewrite cnt_map in Hz0. apply length_zero_iff_nil in Hz0. rewrite Hz0. reflexivity.
Qed.

Lemma last_firstn {A} (l : list A) d c : (1 <= c <= length l)%nat ->
  last (firstn c l) d = nth (c - 1) l d.
Proof.
  revert c. induction l as [|a r IH]; intros c Hc; [cbn in Hc; lia|].
  destruct c as [|c]; [lia|]. cbn [firstn]. cbn [length] in Hc.
  destruct c as [|c].
  - cbn. destruct r; reflexivity.
  - replace (S (S c) - 1)%nat with (S c) by lia. cbn [nth].
    specialize (IH (S c) ltac:(lia)). replace (S c - 1)%nat with c in IH by lia.
    rewrite <- IH. cbn [firstn]. destruct r as [|b r']; [cbn in Hc; lia|]. reflexivity.
Qed.

(* findLocalTime(utc) selects the record of the last transition <= t; record 0 when there is
   none (no transitions at all, or t before the first) *)
Lemma lookup_is_last_le tb t : sorted_utc (trans tb) = true -> find_utc tb t = spec_type tb t.
Proof.
  intros Hs. unfold find_utc, spec_type, last_le.
  pose proof (filter_prefix t _ Hs) as Hpre. fold (le_t t).
  pose proof (cnt_map t (trans tb)) as Hcm.
  pose proof (upper_bound_correct t (map tutc (trans tb)) (sorted_utc_map _ Hs)) as Hub.
  pose proof (cnt_le_length t (map tutc (trans tb))) as Hcl. rewrite map_length in Hcl.
  destruct (trans tb) as [|a r] eqn:Et; [reflexivity|].
  set (l := a :: r) in *. set (c := length (filter (le_t t) l)) in *.
  destruct (Z.ltb_spec t (tutc a)) as [Hlt|Hge].
  - (* before the first transition: nothing is <= t *)
    assert (Hc0 : c = 0%nat).
    { unfold c, l. cbn [filter]. destruct (le_t t a) eqn:E; unfold le_t in E; [apply Z.leb_le in E; lia|].
      pose proof (sorted_utc_map _ Hs) as Hz. cbn [map] in Hz.
      destruct (sorted_z_head _ _ Hz) as [Hall _].
      rewrite <- cnt_map. apply cnt_all_gt. eapply Forall_impl; [|exact Hall]. cbv beta. intros x Hx. lia. }
    unfold c in Hc0. apply length_zero_iff_nil in Hc0. rewrite Hc0. reflexivity.
  - assert (Hc1 : (1 <= c)%nat).
    { unfold c, l. cbn [filter]. destruct (le_t t a) eqn:E; unfold le_t in E; [cbn; lia|apply Z.leb_gt in E; lia]. }
    cbv zeta. rewrite Hub, Hcm. fold c.
    assert (Hne : filter (le_t t) l <> []).
    { intros E. unfold c in Hc1. rewrite E in Hc1. cbn in Hc1. lia. }
    destruct (filter (le_t t) l) as [|x xs] eqn:Ef; [congruence|].
    rewrite Hpre. rewrite last_firstn by (fold c; rewrite Hcm in Hcl; fold c in Hcl; lia).
    fold c. rewrite Hcm in Hcl. fold c in Hcl.
    destruct (Nat.ltb_spec c (length l)) as [Hl|Hl]; [reflexivity|].
    replace c with (length l) by lia. reflexivity.
Qed.

(* ---- well-formed tables have a sorted utc column ------------------------------------ *)

Lemma wf_from_sorted tb o0 l : wf_from tb o0 l = true -> sorted_utc l = true.
Proof.
  revert o0. induction l as [|a r IH]; intros o0 H; [reflexivity|].
  cbn [wf_from] in H. cbn [sorted_utc].
  apply andb_true_iff in H. destruct H as [H1 H2].
  apply andb_true_iff in H1. destruct H1 as [_ H1].
  apply andb_true_iff. split; [|eapply IH; exact H2].
  destruct r as [|b r']; [reflexivity|].
  rewrite !andb_true_iff in H1. destruct H1 as [[[Hlt _] _] _].
  apply Z.ltb_lt in Hlt. apply Z.leb_le. lia.
Qed.

Lemma wf_sorted tb : wf tb = true -> sorted_utc (trans tb) = true.
Proof.
  unfold wf. rewrite andb_true_iff. intros [_ H]. eapply wf_from_sorted; exact H.
Qed.

Lemma lookup_wf tb t : wf tb = true -> find_utc tb t = spec_type tb t.
Proof. intros H. apply lookup_is_last_le. apply wf_sorted. exact H. Qed.

(* ==== lookup by local time: fromLocalTime (toLocalTime t) =================================== *)

Definition U (tb : tzdata) (i : nat) : Z := tutc (nth i (trans tb) tr0).
Definition O (tb : tzdata) (i : nat) : Z := off_of tb (tidx (nth i (trans tb) tr0)).
(* the offset in force before transition i: record 0 before the first one *)
Definition OB (tb : tzdata) (i : nat) : Z := match i with 0%nat => off_of tb 0 | S k => O tb k end.
Definition nT (tb : tzdata) : nat := length (trans tb).
(* number of transitions at or before t: t lies in segment [U (s-1), U s) *)
Definition seg (tb : tzdata) (t : Z) : nat := length (filter (le_t t) (trans tb)).

Lemma wf_from_nth tb : forall l o0, wf_from tb o0 l = true ->
  forall i, (S i < length l)%nat ->
    let a := nth i l tr0 in let b := nth (S i) l tr0 in
    let ob := match i with 0%nat => o0 | S k => off_of tb (tidx (nth k l tr0)) end in
    tutc a < tutc b /\
    tutc a + off_of tb (tidx a) <= tutc b + off_of tb (tidx b) /\
    tutc a + ob <= tutc b + off_of tb (tidx a) /\
    tutc a + ob <= tutc b + off_of tb (tidx b).
Proof.
  induction l as [|x r IH]; intros o0 H i Hi; [cbn in Hi; lia|].
  cbn [wf_from] in H. apply andb_true_iff in H. destruct H as [H1 H2].
  apply andb_true_iff in H1. destruct H1 as [_ H1].
  destruct r as [|y r']; [cbn in Hi; lia|].
  destruct i as [|i].
  - cbn [nth]. cbv zeta. rewrite !andb_true_iff in H1. destruct H1 as [[[A B] C] D].
    apply Z.ltb_lt in A. apply Z.leb_le in B, C, D. lia.
  - cbn [length] in Hi. specialize (IH _ H2 i ltac:(cbn [length]; lia)). cbv zeta in IH.
    cbv zeta. change (nth (S i) (x :: y :: r') tr0) with (nth i (y :: r') tr0).
    change (nth (S (S i)) (x :: y :: r') tr0) with (nth (S i) (y :: r') tr0).
    destruct i as [|i]; [exact IH|].
    change (nth (S i) (x :: y :: r') tr0) with (nth i (y :: r') tr0). exact IH.
Qed.

Lemma wf_nth tb : wf tb = true -> forall i, (S i < nT tb)%nat ->
  U tb i < U tb (S i) /\ U tb i + O tb i <= U tb (S i) + O tb (S i) /\
  U tb i + OB tb i <= U tb (S i) + O tb i /\ U tb i + OB tb i <= U tb (S i) + O tb (S i).
Proof.
  unfold wf. rewrite andb_true_iff. intros [_ H] i Hi.
  pose proof (wf_from_nth tb _ _ H i Hi) as W. cbv zeta in W.
  unfold U, O, OB. destruct i; exact W.
Qed.

(* the shifted-local column is sorted *)
Lemma wf_from_sorted_loc tb o0 l : wf_from tb o0 l = true -> sorted_z (map (tloc tb) l) = true.
Proof.
  revert o0. induction l as [|a r IH]; intros o0 H; [reflexivity|].
  cbn [wf_from] in H. apply andb_true_iff in H. destruct H as [H1 H2].
  apply andb_true_iff in H1. destruct H1 as [_ H1].
  cbn [map sorted_z]. destruct r as [|b r']; [reflexivity|].
  cbn [map]. apply andb_true_iff. split; [|exact (IH _ H2)].
  rewrite !andb_true_iff in H1. destruct H1 as [[[_ B] _] _]. exact B.
Qed.

Lemma wf_sorted_loc tb : wf tb = true -> sorted_z (map (tloc tb) (trans tb)) = true.
Proof. unfold wf. rewrite andb_true_iff. intros [_ H]. eapply wf_from_sorted_loc; exact H. Qed.

Lemma nth_map_tutc tb i : (i < nT tb)%nat -> nth i (map tutc (trans tb)) 0 = U tb i.
Proof.
  intros Hi. unfold U. rewrite (nth_indep _ 0 (tutc tr0)) by (rewrite map_length; exact Hi).
  apply map_nth.
Qed.

Lemma nth_map_tloc tb i : (i < nT tb)%nat -> nth i (map (tloc tb) (trans tb)) 0 = U tb i + O tb i.
Proof.
  intros Hi. unfold U, O. rewrite (nth_indep _ 0 (tloc tb tr0)) by (rewrite map_length; exact Hi).
  rewrite map_nth. reflexivity.
Qed.

(* position of t among the transitions *)
Lemma seg_bounds tb t : wf tb = true ->
  (seg tb t <= nT tb)%nat /\
  (forall k, seg tb t = S k -> U tb k <= t) /\
  ((seg tb t < nT tb)%nat -> t < U tb (seg tb t)).
Proof.
  intros Hw. pose proof (sorted_utc_map _ (wf_sorted _ Hw)) as Hs.
  pose proof (cnt_prefix t _ Hs) as Hp. rewrite map_length in Hp. fold (nT tb) in Hp.
  pose proof (cnt_le_length t (map tutc (trans tb))) as Hl. rewrite map_length in Hl.
  rewrite cnt_map in Hp, Hl. fold (seg tb t) in Hp, Hl. fold (nT tb) in Hl.
  split; [exact Hl|split].
  - intros k Hk. specialize (Hp k ltac:(lia)). rewrite nth_map_tutc in Hp by lia. apply Hp. lia.
  - intros Hlt. specialize (Hp (seg tb t) Hlt). rewrite nth_map_tutc in Hp by lia.
    destruct (Z_lt_ge_dec t (U tb (seg tb t))); [assumption|]. assert (seg tb t < seg tb t)%nat by (apply Hp; lia). lia.
Qed.

Lemma offset_at_seg tb t : wf tb = true -> offset_at tb t = OB tb (seg tb t).
Proof.
  intros Hw. unfold offset_at, spec_type, last_le. fold (le_t t).
  pose proof (filter_prefix t _ (wf_sorted _ Hw)) as Hpre.
  destruct (seg_bounds tb t Hw) as (Hle & _ & _).
  unfold seg in *. destruct (filter (le_t t) (trans tb)) as [|x xs] eqn:Ef; [reflexivity|].
  cbn [length] in *. cbn [OB]. unfold O.
  replace (last (x :: xs) tr0) with (nth (length xs) (trans tb) tr0); [reflexivity|].
  rewrite Hpre. rewrite last_firstn by (fold (nT tb); lia).
  replace (S (length xs) - 1)%nat with (length xs) by lia. reflexivity.
Qed.

(* pin down the binary search on the local column *)
Lemma cnt_loc_is tb L j : wf tb = true -> (j <= nT tb)%nat ->
  (forall k, j = S k -> U tb k + O tb k <= L) ->
  ((j < nT tb)%nat -> L < U tb j + O tb j) ->
  upper_bound L (map (tloc tb) (trans tb)) = j.
Proof.
  intros Hw Hj Hlo Hhi. rewrite (upper_bound_correct _ _ (wf_sorted_loc _ Hw)).
  pose proof (cnt_prefix L _ (wf_sorted_loc _ Hw)) as Hp. rewrite map_length in Hp. fold (nT tb) in Hp.
  pose proof (cnt_le_length L (map (tloc tb) (trans tb))) as Hl. rewrite map_length in Hl. fold (nT tb) in Hl.
  set (c := cnt L (map (tloc tb) (trans tb))) in *.
  assert (H1 : (j <= c)%nat).
  { destruct j as [|k]; [lia|]. specialize (Hp k ltac:(lia)). rewrite nth_map_tloc in Hp by lia.
    apply Hp. apply Hlo. reflexivity. }
  assert (H2 : (c <= j)%nat).
  { destruct (Nat.lt_ge_cases j c) as [Hc|Hc]; [|exact Hc]. exfalso.
    specialize (Hp j ltac:(lia)). rewrite nth_map_tloc in Hp by lia.
    apply Hp in Hc. specialize (Hhi ltac:(lia)). lia. }
  lia.
Qed.

(* one evaluation lemma for the code path behind the first-transition guard *)
Lemma find_local_eval tb L post j : (1 <= nT tb)%nat -> U tb 0 + O tb 0 <= L ->
  upper_bound L (map (tloc tb) (trans tb)) = j ->
  off_of tb (find_local tb L post) =
    if (j =? nT tb)%nat then O tb (nT tb - 1)
    else if U tb j - 1 + O tb (j - 1) <? L then (if post then O tb j else O tb (j - 1))
    else if (j - 1 =? 0)%nat then
           (if L <=? U tb j - 1 + O tb (j - 1) then (if post then O tb (j - 1) else O tb (j - 1)) else O tb (j - 1))
         else (if L <=? U tb (j - 1) - 1 + O tb (j - 1 - 1) then (if post then O tb (j - 1) else O tb (j - 1 - 1))
               else O tb (j - 1)).
Proof.
  intros Hn H0 Hj. unfold find_local. unfold nT, U, O in *.
  destruct (trans tb) as [|a r] eqn:Et; [cbn in Hn; lia|].
  rewrite <- Et in *. rewrite Hj.
  assert (Ha : nth 0 (trans tb) tr0 = a) by (rewrite Et; reflexivity).
  rewrite Ha in H0. unfold tloc at 1.
  destruct (Z.ltb_spec L (tutc a + off_of tb (tidx a))) as [Hlt|_]; [lia|].
  cbv zeta.
  destruct (j =? length (trans tb))%nat; [reflexivity|].
  destruct (tutc (nth j (trans tb) tr0) - 1 + off_of tb (tidx (nth (j - 1) (trans tb) tr0)) <? L).
  - destruct post; reflexivity.
  - destruct (j - 1 =? 0)%nat.
    + destruct (L <=? _); destruct post; reflexivity.
    + destruct (L <=? _); destruct post; reflexivity.
Qed.

Lemma find_local_first tb L post : (nT tb = 0%nat \/ L < U tb 0 + O tb 0) ->
  off_of tb (find_local tb L post) = off_of tb 0.
Proof.
  intros H. unfold find_local. unfold nT, U, O in H.
  destruct (trans tb) as [|a r] eqn:Et; [reflexivity|].
  destruct H as [H|H]; [cbn in H; lia|]. cbn [nth] in H. unfold tloc.
  destruct (Z.ltb_spec L (tutc a + off_of tb (tidx a))); [reflexivity|lia].
Qed.

Ltac nat_if := match goal with
  | |- context [(?a =? ?b)%nat] => destruct (Nat.eqb_spec a b); try lia
  end.
Ltac z_if := match goal with
  | |- context [?a <? ?b] => destruct (Z.ltb_spec a b); try lia
  | |- context [?a <=? ?b] => destruct (Z.leb_spec a b); try lia
  end.

Lemma loc_mono tb : wf tb = true -> forall i j, (i <= j < nT tb)%nat ->
  U tb i + O tb i <= U tb j + O tb j.
Proof.
  intros Hw i j. induction j as [|j IH]; intros Hij.
  - replace i with 0%nat by lia. lia.
  - destruct (Nat.eq_dec i (S j)) as [->|Hne]; [lia|].
    pose proof (wf_nth tb Hw j ltac:(lia)). specialize (IH ltac:(lia)). lia.
Qed.

(* A: t is the latest (or only) instant of its local time: postTransition = true gives it back *)
Lemma local_later tb t : wf tb = true ->
  let s := seg tb t in let L := t + offset_at tb t in
  (s = nT tb \/ L < U tb s + O tb s) ->
  fromLocalSeconds tb L true = t.
Proof.
  intros Hw s L Hside. unfold fromLocalSeconds.
  pose proof (offset_at_seg tb t Hw) as Hoff. fold s in Hoff.
  destruct (seg_bounds tb t Hw) as (Hsn & Hlo & Hhi). fold s in Hsn, Hlo, Hhi.
  assert (HL : L = t + OB tb s) by (unfold L; rewrite Hoff; reflexivity).
  destruct s as [|k] eqn:Es.
  - (* before the first transition *)
    rewrite find_local_first; [cbn [OB] in HL; lia|].
    destruct Hside as [Hs|Hs]; [left; lia|right; exact Hs].
  - cbn [OB] in HL. specialize (Hlo k eq_refl).
    pose proof (loc_mono tb Hw) as Hmono.
    assert (Hj : upper_bound L (map (tloc tb) (trans tb)) = S k).
    { apply cnt_loc_is; auto.
      - intros k' Hk'. injection Hk' as <-. lia.
      - intros Hlt. destruct Hside as [Hs|Hs]; [lia|exact Hs]. }
    rewrite (find_local_eval tb L true (S k)); [|lia|specialize (Hmono 0%nat k ltac:(lia)); lia|exact Hj].
    replace (S k - 1)%nat with k by lia.
    nat_if; [replace (nT tb - 1)%nat with k by lia; lia|].
    specialize (Hhi ltac:(lia)).
    z_if. nat_if.
    + z_if.
    + z_if.
Qed.

(* B: t lies in the repeated window before transition s (neither the first nor the last
   transition of the table): postTransition = false gives t back (the earlier instant),
   postTransition = true gives the later instant *)
Lemma local_earlier tb t : wf tb = true ->
  let s := seg tb t in let L := t + offset_at tb t in
  (1 <= s)%nat -> (S s < nT tb)%nat -> U tb s + O tb s <= L ->
  fromLocalSeconds tb L false = t /\ fromLocalSeconds tb L true = L - O tb s.
Proof.
  intros Hw s L Hs1 Hs2 Hwin. unfold fromLocalSeconds.
  pose proof (offset_at_seg tb t Hw) as Hoff. fold s in Hoff.
  destruct (seg_bounds tb t Hw) as (Hsn & Hlo & Hhi). fold s in Hsn, Hlo, Hhi.
  assert (HL : L = t + OB tb s) by (unfold L; rewrite Hoff; reflexivity).
  specialize (Hhi ltac:(lia)).
  pose proof (wf_nth tb Hw s Hs2) as (W1 & W2 & W3 & W4).
  pose proof (loc_mono tb Hw 0%nat s ltac:(lia)) as Hm.
  assert (Hj : upper_bound L (map (tloc tb) (trans tb)) = S s).
  { apply cnt_loc_is; auto; [lia| |].
    - intros k' Hk'. injection Hk' as <-. lia.
    - intros _. lia. }
  destruct s as [|k] eqn:Es; [lia|]. cbn [OB] in HL, W3, W4.
  split.
  - rewrite (find_local_eval tb L false (S (S k))); [|lia|lia|exact Hj].
    replace (S (S k) - 1)%nat with (S k) by lia. replace (S k - 1)%nat with k by lia.
    nat_if. z_if. nat_if. z_if.
  - rewrite (find_local_eval tb L true (S (S k))); [|lia|lia|exact Hj].
    replace (S (S k) - 1)%nat with (S k) by lia. replace (S k - 1)%nat with k by lia.
    nat_if. z_if. nat_if. z_if.
Qed.

(* C: t is the earliest (or only) instant of its local time: postTransition = false gives it back *)
Lemma local_only_or_first tb t : wf tb = true ->
  let s := seg tb t in let L := t + offset_at tb t in
  (s = 0%nat \/ U tb (s - 1) + OB tb (s - 1) <= L) ->
  (s = nT tb \/ L < U tb s + O tb s) ->
  fromLocalSeconds tb L false = t.
Proof.
  intros Hw s L Hprev Hside. unfold fromLocalSeconds.
  pose proof (offset_at_seg tb t Hw) as Hoff. fold s in Hoff.
  destruct (seg_bounds tb t Hw) as (Hsn & Hlo & Hhi). fold s in Hsn, Hlo, Hhi.
  assert (HL : L = t + OB tb s) by (unfold L; rewrite Hoff; reflexivity).
  destruct s as [|k] eqn:Es.
  - rewrite find_local_first; [cbn [OB] in HL; lia|].
    destruct Hside as [Hs|Hs]; [left; lia|right; exact Hs].
  - cbn [OB] in HL. specialize (Hlo k eq_refl).
    pose proof (loc_mono tb Hw) as Hmono.
    assert (Hj : upper_bound L (map (tloc tb) (trans tb)) = S k).
    { apply cnt_loc_is; auto.
      - intros k' Hk'. injection Hk' as <-. lia.
      - intros Hlt. destruct Hside as [Hs|Hs]; [lia|exact Hs]. }
    rewrite (find_local_eval tb L false (S k)); [|lia|specialize (Hmono 0%nat k ltac:(lia)); lia|exact Hj].
    replace (S k - 1)%nat with k by lia.
    nat_if; [replace (nT tb - 1)%nat with k by lia; lia|].
    specialize (Hhi ltac:(lia)).
    destruct Hprev as [Hp|Hp]; [lia|]. replace (S k - 1)%nat with k in Hp by lia.
    z_if. nat_if.
    + z_if.
    + destruct k as [|k']; [lia|]. cbn [OB] in Hp. replace (S k' - 1)%nat with k' by lia. z_if.
Qed.

(* D: a skipped local time at transition j (not the first of the table): the requested side
   of the transition decides the offset *)
Lemma local_skipped tb j L post : wf tb = true -> (1 <= j < nT tb)%nat ->
  U tb j + OB tb j <= L < U tb j + O tb j ->
  fromLocalSeconds tb L post = L - (if post then O tb j else OB tb j).
Proof.
  intros Hw Hj HL. unfold fromLocalSeconds.
  destruct j as [|k]; [lia|]. cbn [OB] in *.
  pose proof (wf_nth tb Hw k ltac:(lia)) as (W1 & W2 & W3 & W4).
  pose proof (loc_mono tb Hw 0%nat k ltac:(lia)) as Hm.
  assert (Hub : upper_bound L (map (tloc tb) (trans tb)) = S k).
  { apply cnt_loc_is; auto; [lia| |].
    - intros k' Hk'. injection Hk' as <-. lia.
    - intros _. lia. }
  rewrite (find_local_eval tb L post (S k)); [|lia|lia|exact Hub].
  replace (S k - 1)%nat with k by lia.
  nat_if. z_if.
Qed.

(* the full statement (every instant, the side that names it) is false for the code as it is:
   a repeated hour at the LAST transition of a table cannot be resolved to its earlier instant *)
Definition tb_witness : tzdata := mkTz [mkTr 100 1; mkTr 20000 2] [3600; 7200; 3600].

Lemma local_roundtrip_refuted :
  exists tb t, wf tb = true /\
    forall post, fromLocalSeconds tb (t + offset_at tb t) post <> t.
Proof.
  exists tb_witness, 19000. split; [reflexivity|]. intros [|]; vm_compute; discriminate.
Qed.

(* same at the FIRST transition: earlier instant of a repeated hour, and the post side of a
   skipped hour *)
Definition tb_witness_first : tzdata := mkTz [mkTr 100000 1; mkTr 900000 0] [7200; 3600].
Definition tb_witness_skip : tzdata := mkTz [mkTr 100000 1; mkTr 900000 0] [3600; 7200].

Lemma local_first_transition_refuted :
  (wf tb_witness_first = true /\
   forall post, fromLocalSeconds tb_witness_first (99000 + offset_at tb_witness_first 99000) post <> 99000) /\
  (wf tb_witness_skip = true /\
   (* 100000 + 3600 <= L < 100000 + 7200 does not exist; the post side would be L - 7200 *)
   fromLocalSeconds tb_witness_skip 104000 true <> 104000 - 7200).
Proof.
  split; split; try reflexivity.
  - intros [|]; vm_compute; discriminate.
  - vm_compute; discriminate.
Qed.

(* ==== what the code does at the edges of the table (all well-formed tables) ================= *)

(* any local time at or after the local image of the LAST transition is mapped with the last
   transition's record, whatever the flag: the repeated window before it included *)
Lemma local_at_last tb L post : wf tb = true -> (1 <= nT tb)%nat ->
  U tb (nT tb - 1) + O tb (nT tb - 1) <= L ->
  fromLocalSeconds tb L post = L - O tb (nT tb - 1).
Proof.
  intros Hw Hn HL. unfold fromLocalSeconds.
  pose proof (loc_mono tb Hw 0%nat (nT tb - 1)%nat ltac:(lia)) as Hm.
  assert (Hj : upper_bound L (map (tloc tb) (trans tb)) = nT tb).
  { apply cnt_loc_is; auto; [|lia].
    intros k Hk. replace k with (nT tb - 1)%nat by lia. exact HL. }
  rewrite (find_local_eval tb L post (nT tb)); [|lia|lia|exact Hj].
  rewrite Nat.eqb_refl. reflexivity.
Qed.

(* before the local image of the FIRST transition: record 0, whatever the flag (a skipped local
   time at the first transition included); in the repeated window of the first transition: the
   first transition's record, whatever the flag *)
Lemma local_at_first tb L post : wf tb = true -> (1 <= nT tb)%nat ->
  (L < U tb 0 + O tb 0 -> fromLocalSeconds tb L post = L - off_of tb 0) /\
  (U tb 0 + O tb 0 <= L < U tb 0 + OB tb 0 -> fromLocalSeconds tb L post = L - O tb 0).
Proof.
  intros Hw Hn. unfold fromLocalSeconds. split.
  - intros HL. rewrite find_local_first by (right; exact HL). reflexivity.
  - intros HL. destruct (Nat.eq_dec (nT tb) 1) as [E1|E1].
    + pose proof (local_at_last tb L post Hw Hn) as H. unfold fromLocalSeconds in H.
      rewrite E1 in H. cbn [Nat.sub] in H. apply H. lia.
    + pose proof (wf_nth tb Hw 0%nat ltac:(lia)) as (W1 & W2 & W3 & W4).
      assert (Hj : upper_bound L (map (tloc tb) (trans tb)) = 1%nat).
      { apply cnt_loc_is; auto.
        - intros k Hk. injection Hk as <-. lia.
        - intros _. lia. }
      rewrite (find_local_eval tb L post 1); [|lia|lia|exact Hj].
      cbn [Nat.sub]. nat_if. z_if. cbn [Nat.eqb]. z_if; destruct post; reflexivity.
Qed.

(* ==== every local time is accounted for ====================================================== *)

Lemma seg_is tb t s : wf tb = true -> (s <= nT tb)%nat ->
  (forall k, s = S k -> U tb k <= t) -> ((s < nT tb)%nat -> t < U tb s) -> seg tb t = s.
Proof.
  intros Hw Hs Hlo Hhi. unfold seg. rewrite <- cnt_map.
  pose proof (sorted_utc_map _ (wf_sorted _ Hw)) as Hsz.
  pose proof (cnt_prefix t _ Hsz) as Hp. rewrite map_length in Hp. fold (nT tb) in Hp.
  pose proof (cnt_le_length t (map tutc (trans tb))) as Hl. rewrite map_length in Hl. fold (nT tb) in Hl.
  set (c := cnt t (map tutc (trans tb))) in *.
  assert (H1 : (s <= c)%nat).
  { destruct s as [|k]; [lia|]. specialize (Hp k ltac:(lia)). rewrite nth_map_tutc in Hp by lia.
    apply Hp. apply Hlo. reflexivity. }
  assert (H2 : (c <= s)%nat).
  { destruct (Nat.lt_ge_cases s c) as [Hc|Hc]; [|exact Hc]. exfalso.
    specialize (Hp s ltac:(lia)). rewrite nth_map_tutc in Hp by lia.
    apply Hp in Hc. specialize (Hhi ltac:(lia)). lia. }
  lia.
Qed.

(* a local time L is the local time of some instant, or it falls into the gap of exactly the
   kind C20_local_skipped describes *)
Lemma local_cover_from tb L : wf tb = true -> forall d k, (k + d = nT tb)%nat ->
  (k = 0%nat \/ U tb (k - 1) + O tb (k - 1) <= L) ->
  (exists t, t + offset_at tb t = L) \/
  (exists j, (j < nT tb)%nat /\ U tb j + OB tb j <= L < U tb j + O tb j).
Proof.
  intros Hw. induction d as [|d IH]; intros k Hk Hprev.
  - (* k = nT: the segment after the last transition *)
    left. exists (L - OB tb k).
    assert (Hs : seg tb (L - OB tb k) = k).
    { apply seg_is; auto; [lia| |lia].
      intros j Hj. subst k. cbn [OB]. destruct Hprev as [H|H]; [lia|].
      replace (S j - 1)%nat with j in H by lia. lia. }
    rewrite (offset_at_seg tb _ Hw), Hs. lia.
  - destruct (Z_lt_ge_dec L (U tb k + OB tb k)) as [Hlt|Hge].
    + left. exists (L - OB tb k).
      assert (Hs : seg tb (L - OB tb k) = k).
      { apply seg_is; auto; [lia| |intros _; lia].
        intros j Hj. subst k. cbn [OB]. destruct Hprev as [H|H]; [lia|].
        replace (S j - 1)%nat with j in H by lia. lia. }
      rewrite (offset_at_seg tb _ Hw), Hs. lia.
    + destruct (Z_lt_ge_dec L (U tb k + O tb k)) as [Hgap|Hnext].
      * right. exists k. split; [lia|lia].
      * apply (IH (S k)); [lia|]. right. replace (S k - 1)%nat with k by lia. lia.
Qed.

Lemma local_cover tb L : wf tb = true ->
  (exists t, t + offset_at tb t = L) \/
  (exists j, (j < nT tb)%nat /\ U tb j + OB tb j <= L < U tb j + O tb j).
Proof. intros Hw. apply (local_cover_from tb L Hw (nT tb) 0%nat); [lia|left; reflexivity]. Qed.

(* the recorded finding, exactly: for EVERY well-formed table and EVERY instant t in the repeated
   window before its last transition, both flags return the later instant (never t) *)
Lemma local_last_defect tb t : wf tb = true ->
  let s := seg tb t in let L := t + offset_at tb t in
  S s = nT tb -> U tb s + O tb s <= L ->
  forall post, fromLocalSeconds tb L post = t + (OB tb s - O tb s) /\ t < t + (OB tb s - O tb s).
Proof.
  intros Hw s L Hs Hwin post.
  pose proof (offset_at_seg tb t Hw) as Hoff. fold s in Hoff.
  destruct (seg_bounds tb t Hw) as (_ & _ & Hhi). fold s in Hhi. specialize (Hhi ltac:(lia)).
  assert (HL : L = t + OB tb s) by (unfold L; rewrite Hoff; reflexivity).
  rewrite (local_at_last tb L post Hw ltac:(lia)); replace (nT tb - 1)%nat with s by lia; lia.
Qed.

(* the other recorded finding, exactly: for EVERY well-formed table, (a) every instant t before
   the first transition whose local time is repeated after it is answered with the later instant
   for both flags, (b) every local time in the gap of the first transition is answered with
   record 0 for postTransition=true as well, never with the first transition's offset *)
Lemma local_first_defect tb : wf tb = true -> (1 <= nT tb)%nat ->
  (forall t, let L := t + offset_at tb t in
     seg tb t = 0%nat -> U tb 0 + O tb 0 <= L ->
     forall post, fromLocalSeconds tb L post = t + (OB tb 0 - O tb 0) /\ t < t + (OB tb 0 - O tb 0)) /\
  (forall L, U tb 0 + OB tb 0 <= L < U tb 0 + O tb 0 ->
     fromLocalSeconds tb L true = L - OB tb 0 /\ L - OB tb 0 <> L - O tb 0).
Proof.
  intros Hw Hn. split.
  - intros t L Hs Hwin post.
    pose proof (offset_at_seg tb t Hw) as Hoff. rewrite Hs in Hoff.
    destruct (seg_bounds tb t Hw) as (_ & _ & Hhi). rewrite Hs in Hhi. specialize (Hhi ltac:(lia)).
    assert (HL : L = t + OB tb 0) by (unfold L; rewrite Hoff; reflexivity).
    destruct (local_at_first tb L post Hw Hn) as [_ H2]. rewrite H2 by lia. lia.
  - intros L HL. destruct (local_at_first tb L true Hw Hn) as [H1 _].
    rewrite H1 by lia. cbn [OB] in *. lia.
Qed.
