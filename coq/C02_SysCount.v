(* C02_SysCount: the observations of the owners model counted per connection - every OUp / ODown that a
   run emits for connection c is accounted for by c's ghost counters, which the invariant bounds. *)
From Coq Require Import List Bool Arith Lia.
From Muduo Require Import Conn_Model C02_Model C02_SysProofs.
Import ListNotations.

Definition cntU (c : nat) (o : list obs) : nat :=
  length (filter (fun x => match x with OUp _ c' => c' =? c | _ => false end) o).
Definition cntD (c : nat) (o : list obs) : nat :=
  length (filter (fun x => match x with ODown _ c' => c' =? c | _ => false end) o).

Lemma cntU_app c o1 o2 : cntU c (o1 ++ o2) = cntU c o1 + cntU c o2.
Proof. unfold cntU. rewrite filter_app, app_length. reflexivity. Qed.
Lemma cntD_app c o1 o2 : cntD c (o1 ++ o2) = cntD c o1 + cntD c o2.
Proof. unfold cntD. rewrite filter_app, app_length. reflexivity. Qed.

Definition upsof (s : sys) (c : nat) : nat := match getc s c with Some k => k_ups k | None => 0 end.
Definition downsof (s : sys) (c : nat) : nat := match getc s c with Some k => k_downs k | None => 0 end.

Definition same_ud (s s' : sys) : Prop := forall c, upsof s' c = upsof s c /\ downsof s' c = downsof s c.

Definition cgood (s : sys) (m : M) : Prop :=
  match m with
  | Ok (s', o) => forall c, upsof s' c = upsof s c + cntU c o /\ downsof s' c = downsof s c + cntD c o
  | _ => True
  end.

Lemma same_ud_refl s : same_ud s s.
Proof. intros c. auto. Qed.
Lemma same_ud_trans s1 s2 s3 : same_ud s1 s2 -> same_ud s2 s3 -> same_ud s1 s3.
Proof. intros H1 H2 c. destruct (H1 c), (H2 c). split; congruence. Qed.

Lemma same_ud_put s c k' : (forall k, getc s c = Some k -> k_ups k' = k_ups k /\ k_downs k' = k_downs k) -> same_ud s (put s c k').
Proof.
  intros H c1. unfold upsof, downsof. destruct (Nat.eq_dec c c1) as [<-|Hn].
  - destruct (getc s c) as [k|] eqn:Hg.
    + rewrite getc_put_eq by (eapply getc_lt, Hg). apply (H k eq_refl).
    + assert (E : getc (put s c k') c = None).
      { unfold getc, put in *. cbn. apply nth_error_None. rewrite length_upd. apply nth_error_None, Hg. }
      rewrite E. auto.
  - rewrite getc_put_neq by exact Hn. auto.
Qed.

Lemma same_ud_conns s s' : s_conns s' = s_conns s -> same_ud s s'.
Proof. intros E c. unfold upsof, downsof, getc. rewrite E. auto. Qed.

Lemma same_ud_enq s l t : same_ud s (enq s l t).
Proof. apply same_ud_conns, conns_enq. Qed.

Lemma cgood_ret s s' : same_ud s s' -> cgood s (ret s').
Proof. intros H c. destruct (H c). cbn. lia. Qed.

Lemma cgood_bind s m f : cgood s m -> (forall s1, cgood s1 (f s1)) -> cgood s (bind m f).
Proof.
  intros Hm Hf. unfold bind. destruct m as [[s1 o1]| |]; [|exact I|exact I].
  specialize (Hf s1). destruct (f s1) as [[s2 o2]| |]; [|exact I|exact I].
  intros c. destruct (Hm c), (Hf c). rewrite cntU_app, cntD_app. lia.
Qed.

Lemma cgood_weaken s0 s m : same_ud s0 s -> cgood s m -> cgood s0 m.
Proof. intros H. destruct m as [[s' o]| |]; auto. intros Hm c. destruct (H c), (Hm c). lia. Qed.

Lemma cu_ups r k w d : k_ups (chan_update r k w d) = k_ups k.
Proof. pose proof (chan_update_fields r k w d) as F. cbv zeta in F. apply F. Qed.
Lemma cu_downs r k w d : k_downs (chan_update r k w d) = k_downs k.
Proof. pose proof (chan_update_fields r k w d) as F. cbv zeta in F. apply F. Qed.

Ltac ud_same := intros; cbn [set_life set_own set_rflag set_fin set_chan kill k_ups k_downs unmapped];
  rewrite ?cu_ups, ?cu_downs; cbn [set_life set_own set_rflag set_fin set_chan kill k_ups k_downs unmapped]; auto.

(* one connection's counters move by one together with the observation *)
Lemma cgood_put_obs s c k k' x du dd :
  getc s c = Some k -> k_ups k' = k_ups k + du -> k_downs k' = k_downs k + dd ->
  (forall c1, cntU c1 [x] = if c1 =? c then du else 0) -> (forall c1, cntD c1 [x] = if c1 =? c then dd else 0) ->
  cgood s (emit (put s c k') [x]).
Proof.
  intros Hg Hu Hd HU HD c1. unfold emit, upsof, downsof. rewrite HU, HD. destruct (Nat.eq_dec c c1) as [<-|Hn].
  - rewrite getc_put_eq by (eapply getc_lt, Hg). rewrite Hg, Nat.eqb_refl. lia.
  - rewrite getc_put_neq by exact Hn. assert (E : (c1 =? c) = false) by (apply Nat.eqb_neq; auto). rewrite E. lia.
Qed.

Lemma cntU_up thr c c1 : cntU c1 [OUp thr c] = if c1 =? c then 1 else 0.
Proof. unfold cntU. cbn. rewrite (Nat.eqb_sym c c1). destruct (c1 =? c); reflexivity. Qed.
Lemma cntD_up thr c c1 : cntD c1 [OUp thr c] = if c1 =? c then 0 else 0.
Proof. destruct (c1 =? c); reflexivity. Qed.
Lemma cntD_down thr c c1 : cntD c1 [ODown thr c] = if c1 =? c then 1 else 0.
Proof. unfold cntD. cbn. rewrite (Nat.eqb_sym c c1). destruct (c1 =? c); reflexivity. Qed.
Lemma cntU_down thr c c1 : cntU c1 [ODown thr c] = if c1 =? c then 0 else 0.
Proof. destruct (c1 =? c); reflexivity. Qed.

Lemma cgood_establish s thr c : cgood s (establish s thr c).
Proof.
  unfold establish. destruct (getc s c) as [k|] eqn:Hg; [|exact I].
  destruct (negb (k_alive k)); [exact I|]. destruct (negb (thr =? k_loop k)); [exact I|].
  destruct (negb (cstate_eqb (k_st k) Connecting)); [exact I|].
  apply (cgood_put_obs s c k _ _ 1 0 Hg); [ud_same; lia|ud_same|apply cntU_up|apply cntD_up].
Qed.

Lemma cgood_remove_in_loop s thr c : cgood s (remove_in_loop s thr c).
Proof.
  unfold remove_in_loop. destruct (negb (s_srv s)); [exact I|]. destruct (negb (thr =? 0)); [exact I|].
  destruct (getc s c) as [k|] eqn:Hg; [|exact I]. destruct (negb (k_mapped k)); [exact I|].
  apply cgood_ret. eapply same_ud_trans; [|apply same_ud_enq].
  apply same_ud_put. intros k0 Hk0. rewrite Hg in Hk0. injection Hk0 as <-. auto.
Qed.

Lemma cgood_close_cb s thr c : cgood s (close_cb s thr c).
Proof.
  unfold close_cb. destruct (getc s c) as [k|] eqn:Hg; [|exact I]. destruct (k_ccb k).
  - destruct (negb (s_srv s) && (thr =? 0)); [exact I|]. destruct (thr =? 0); [apply cgood_remove_in_loop|apply cgood_ret, same_ud_enq].
  - destruct (negb (s_cli s)); [exact I|]. destruct (negb (thr =? 0)); [exact I|]. destruct (s_cliconn s) as [c'|]; [|exact I].
    destruct (negb (c' =? c)); [exact I|]. apply cgood_ret.
    apply (same_ud_trans _ (put s c (set_own k CbClient false (k_urefs k) (k_delayed k)))).
    + apply same_ud_put. intros k0 Hk0. rewrite Hg in Hk0. injection Hk0 as <-. auto.
    + eapply same_ud_trans; [|apply same_ud_enq]. apply same_ud_conns. reflexivity.
  - apply cgood_ret, same_ud_enq.
Qed.

Lemma cgood_handle_close s thr c : cgood s (handle_close s thr c).
Proof.
  unfold handle_close. destruct (getc s c) as [k|] eqn:Hg; [|exact I].
  destruct (negb (thr =? k_loop k)); [exact I|]. destruct (negb (k_closable k)); [exact I|].
  apply cgood_bind; [|intros s1; apply cgood_close_cb].
  apply (cgood_put_obs s c k _ _ 0 1 Hg); [ud_same|ud_same; lia|apply cntU_down|apply cntD_down].
Qed.

Lemma cgood_connect_destroyed s thr c : cgood s (connect_destroyed s thr c).
Proof.
  unfold connect_destroyed. destruct (getc s c) as [k|] eqn:Hg; [|exact I].
  destruct (negb (k_alive k)); [exact I|]. destruct (negb (thr =? k_loop k)); [exact I|].
  destruct (k_closable k).
  - unfold chan_remove. destruct (negb (k_none _)); [exact I|]. destruct (pidx_eqb _ PNew); [exact I|].
    apply (cgood_put_obs s c k _ _ 0 1 Hg); [ud_same|ud_same; lia|apply cntU_down|apply cntD_down].
  - unfold chan_remove. destruct (negb (k_none k)); [exact I|]. destruct (pidx_eqb _ PNew); [exact I|].
    unfold emit. intros c1. cbn. destruct (same_ud_put s c (set_chan k (k_wr k) (k_rd k) false PNew)
      ltac:(intros k0 Hk0; rewrite Hg in Hk0; injection Hk0 as <-; auto) c1). lia.
Qed.

Lemma ud_force_close s c : same_ud s (force_close s c).
Proof.
  unfold force_close. destruct (getc s c) as [k|] eqn:Hg; [|apply same_ud_refl]. destruct (k_closable k); [|apply same_ud_refl].
  eapply same_ud_trans; [|apply same_ud_enq]. apply same_ud_put. intros k0 Hk0. rewrite Hg in Hk0. injection Hk0 as <-. auto.
Qed.

Lemma ud_start_read s c : same_ud s (start_read s c).
Proof.
  unfold start_read. destruct (getc s c) as [k|] eqn:Hg; [|apply same_ud_refl]. destruct (_ && _); [|apply same_ud_refl].
  apply same_ud_put. intros k0 Hk0. rewrite Hg in Hk0. injection Hk0 as <-. ud_same.
Qed.

Lemma ud_stop_read s c : same_ud s (stop_read s c).
Proof.
  unfold stop_read. destruct (getc s c) as [k|] eqn:Hg; [|apply same_ud_refl]. destruct (_ && _); [|apply same_ud_refl].
  apply same_ud_put. intros k0 Hk0. rewrite Hg in Hk0. injection Hk0 as <-. ud_same.
Qed.

Lemma ud_send_in_loop s c full wc : same_ud s (send_in_loop s c full wc).
Proof.
  unfold send_in_loop. destruct (getc s c) as [k|] eqn:Hg; [|apply same_ud_refl].
  destruct (cstate_eqb (k_st k) Disconnected); [apply same_ud_refl|]. destruct (k_wr k); [apply same_ud_refl|]. destruct (k_fin k); [apply same_ud_refl|].
  destruct full; [destruct wc; [apply same_ud_enq|apply same_ud_refl]|].
  apply same_ud_put. intros k0 Hk0. rewrite Hg in Hk0. injection Hk0 as <-. ud_same.
Qed.

Lemma ud_sweep_from n : forall s thr c, same_ud s (fst (sweep_from s thr n c)).
Proof.
  induction n as [|n IH]; intros s thr c; cbn [sweep_from]; [apply same_ud_refl|].
  destruct (getc s c) as [k|] eqn:Hg; [|apply same_ud_refl].
  destruct (k_alive k && (holders s c =? 0)).
  - specialize (IH (put s c (kill k)) thr (S c)). destruct (sweep_from (put s c (kill k)) thr n (S c)) as [s' o]. cbn [fst] in *.
    eapply same_ud_trans; [|exact IH]. apply same_ud_put. intros k0 Hk0. rewrite Hg in Hk0. injection Hk0 as <-. auto.
  - apply IH.
Qed.

Lemma cnt_dtors c d : (forall x, In x d -> exists t c0 b, x = ODtor t c0 b) -> cntU c d = 0 /\ cntD c d = 0.
Proof.
  induction d as [|x d IH]; intros H; [auto|]. destruct (H x (or_introl eq_refl)) as (t & c0 & b & ->).
  destruct IH as [I1 I2]; [intros y Hy; apply H; right; exact Hy|]. unfold cntU, cntD in *. cbn. auto.
Qed.

Lemma cgood_finish s m thr : cgood s m -> cgood s (finish m thr).
Proof.
  unfold finish. destruct m as [[s1 o1]| |]; auto. intros Hm.
  pose proof (ud_sweep_from (length (s_conns s1)) s1 thr 0) as Ls. pose proof (sweep_from_obs (length (s_conns s1)) s1 thr 0) as Os.
  unfold sweep. destruct (sweep_from s1 thr (length (s_conns s1)) 0) as [s2 d]. cbn [fst snd] in *.
  destruct (all_clean d); [|exact I]. intros c. destruct (Hm c), (Ls c).
  destruct (cnt_dtors c d) as [Z1 Z2]; [intros x Hx; destruct (Os x Hx) as (c0 & b & ->); eauto|].
  rewrite cntU_app, cntD_app. lia.
Qed.

Lemma ud_add s k rr cc : k_ups k = 0 -> k_downs k = 0 -> same_ud s (add_conn s k rr cc).
Proof.
  intros Hu Hd c. unfold upsof, downsof. destruct (Nat.lt_ge_cases c (length (s_conns s))) as [Hlt|Hge].
  - rewrite getc_add_old by exact Hlt. auto.
  - assert (E : getc s c = None) by (apply nth_error_None; exact Hge). rewrite E.
    destruct (Nat.eq_dec c (length (s_conns s))) as [->|Hn].
    + rewrite getc_add_new. auto.
    + assert (E2 : getc (add_conn s k rr cc) c = None) by (unfold getc, add_conn; cbn; apply nth_error_None; rewrite app_length; cbn; lia).
      rewrite E2. auto.
Qed.

Lemma cgood_accept s : cgood s (accept s).
Proof.
  unfold accept. destruct (negb (s_srv s) || s_dying s); [exact I|].
  match goal with |- cgood s (if ?b then establish ?s1 0 ?c else _) => assert (L : same_ud s s1) by (apply (ud_add s (fresh _ CbServer)); reflexivity) end.
  destruct (_ =? 0).
  - eapply cgood_weaken; [exact L|apply cgood_establish].
  - apply cgood_ret. eapply same_ud_trans; [exact L|apply same_ud_enq].
Qed.

Lemma cgood_srv_hand s c : cgood s (srv_hand s c).
Proof.
  unfold srv_hand. destruct (getc s c) as [k|] eqn:Hg; [|exact I].
  assert (L : same_ud s (put s c (set_own k (k_ccb k) false (k_urefs k) (k_delayed k)))).
  { apply same_ud_put. intros k0 Hk0. rewrite Hg in Hk0. injection Hk0 as <-. auto. }
  destruct (k_loop k =? 0).
  - eapply cgood_weaken; [exact L|apply cgood_connect_destroyed].
  - apply cgood_ret. eapply same_ud_trans; [exact L|apply same_ud_enq].
Qed.

Lemma cgood_cli_connect s : cgood s (cli_connect s).
Proof.
  unfold cli_connect. destruct (negb (s_cli s)); [exact I|]. destruct (s_cliconn s); [exact I|].
  match goal with |- cgood s (establish ?s1 0 ?c) => assert (L : same_ud s s1) by (apply (ud_add s (fresh 0 CbClient) (s_rr s)); reflexivity) end.
  eapply cgood_weaken; [exact L|apply cgood_establish].
Qed.

Lemma cgood_cli_destroy strict s : cgood s (cli_destroy strict s).
Proof.
  unfold cli_destroy. destruct (negb (s_cli s)); [exact I|]. destruct (s_cliconn s) as [c|].
  - destruct (getc s c) as [k|] eqn:Hg; [|exact I]. destruct (_ && _ && _); [exact I|].
    set (s1 := put s c (set_own k CbDetail (k_mapped k) (k_urefs k) (k_delayed k))).
    assert (L1 : same_ud s s1) by (apply same_ud_put; intros k0 Hk0; rewrite Hg in Hk0; injection Hk0 as <-; auto).
    set (s2 := if holders s c =? 1 then force_close s1 c else s1).
    assert (L2 : same_ud s s2) by (unfold s2; destruct (holders s c =? 1); [eapply same_ud_trans; [exact L1|apply ud_force_close]|exact L1]).
    destruct (getc s2 c) as [k2|] eqn:Hg2; [|exact I]. apply cgood_ret.
    eapply same_ud_trans; [exact L2|]. eapply same_ud_trans; [|apply same_ud_conns; reflexivity].
    apply same_ud_put. intros k0 Hk0. rewrite Hg2 in Hk0. injection Hk0 as <-. auto.
  - apply cgood_ret. eapply same_ud_trans; [|apply same_ud_enq]. apply same_ud_conns. reflexivity.
Qed.

Lemma cgood_run_task s l t full wc : cgood s (run_task s l t full wc).
Proof.
  destruct t; cbn [run_task].
  - apply cgood_establish.
  - apply cgood_remove_in_loop.
  - apply cgood_connect_destroyed.
  - destruct (getc s c) as [k|]; [|exact I]. destruct (k_closable k); [apply cgood_handle_close|apply cgood_ret, same_ud_refl].
  - apply cgood_ret, same_ud_refl.
  - destruct (getc s c) as [k|] eqn:Hg; [|exact I]. destruct (k_alive k); [|exact I]. apply cgood_ret.
    apply same_ud_put. intros k0 Hk0. rewrite Hg in Hk0. injection Hk0 as <-. unfold shutdown_in_loop. destruct (k_wr k); auto.
  - destruct (match getc s c with Some k => k_alive k | None => false end); [apply cgood_ret, ud_start_read|exact I].
  - destruct (match getc s c with Some k => k_alive k | None => false end); [apply cgood_ret, ud_stop_read|exact I].
  - destruct (match getc s c with Some k => k_alive k | None => false end); [apply cgood_ret, ud_send_in_loop|exact I].
  - destruct (getc s c) as [k|] eqn:Hg; [|exact I]. apply cgood_ret.
    apply same_ud_put. intros k0 Hk0. rewrite Hg in Hk0. injection Hk0 as <-. auto.
  - apply cgood_ret, same_ud_refl.
  - destruct (getc s c) as [k|] eqn:Hg; [|exact I]. destruct (k_alive k); [|exact I]. apply cgood_ret.
    apply same_ud_put. intros k0 Hk0. rewrite Hg in Hk0. injection Hk0 as <-. auto.
Qed.

Lemma cgood_ev_step strict s c e : cgood s (ev_step strict s c e).
Proof.
  unfold ev_step. destruct (getc s c) as [k|] eqn:Hg; [|exact I]. destruct (negb _); [exact I|].
  destruct e.
  - destruct (k_rd k); [|exact I]. intros c1. cbn. lia.
  - destruct (k_rd k); [|exact I]. destruct (_ && _); [exact I|apply cgood_handle_close].
  - destruct (k_rd k); [apply cgood_ret, same_ud_refl|exact I].
  - destruct (_ && _); [exact I|apply cgood_handle_close].
  - apply cgood_ret, same_ud_refl.
  - destruct (k_wr k); [|exact I]. destruct drained; [|apply cgood_ret, same_ud_refl]. apply cgood_ret.
    assert (L : same_ud s (put s c (if cstate_eqb (k_st k) Disconnecting then shutdown_in_loop (chan_update (s_readd s) k false (k_rd k)) else chan_update (s_readd s) k false (k_rd k)))).
    { apply same_ud_put. intros k0 Hk0. rewrite Hg in Hk0. injection Hk0 as <-. unfold shutdown_in_loop.
      destruct (cstate_eqb (k_st k) Disconnecting); [destruct (k_wr _)|]; ud_same. }
    destruct wc; [eapply same_ud_trans; [exact L|apply same_ud_enq]|exact L].
Qed.

Lemma cgood_on_conn s c f : (forall k, getc s c = Some k -> cgood s (f k)) -> cgood s (on_conn s c f).
Proof. intros H. unfold on_conn. destruct (getc s c) as [k|] eqn:Hg; [|exact I]. destruct (_ && _); [apply H; reflexivity|exact I]. Qed.

Lemma cgood_on_lconn s c f : (forall k, getc s c = Some k -> cgood s (f k)) -> cgood s (on_lconn s c f).
Proof. intros H. unfold on_lconn. apply cgood_on_conn. intros k Hg. destruct (gone s (k_loop k)); [exact I|apply H, Hg]. Qed.

Lemma cgood_step strict s o : cgood s (step strict s o).
Proof.
  destruct o; cbn [step].
  - apply cgood_finish, cgood_accept.
  - destruct (negb (s_srv s)); [exact I|]. destruct (_ && _); [exact I|]. destruct (next_entry (s_conns s) 0) as [c0|].
    + apply cgood_finish. eapply cgood_weaken; [|apply cgood_srv_hand]. apply same_ud_conns. reflexivity.
    + apply cgood_finish, cgood_ret, same_ud_conns. reflexivity.
  - apply cgood_finish, cgood_cli_connect.
  - apply cgood_finish, cgood_cli_destroy.
  - destruct (getl s l) as [v|]; [|exact I]. destruct (q_idle v && negb (gone s l)); [|exact I]. apply cgood_ret, same_ud_conns. reflexivity.
  - destruct (getl s l) as [v|]; [|exact I]. destruct (q_batch v) as [|t rest]; [exact I|]. apply cgood_finish.
    eapply cgood_weaken; [|apply cgood_run_task]. apply same_ud_conns. reflexivity.
  - destruct (getl s l) as [v|]; [|exact I]. destruct (q_batch v); [|exact I]. destruct (negb (q_drain v)); [exact I|].
    destruct (quitting s l); [destruct (_ && _); [exact I|]; destruct (_ && _); [exact I|]|]; apply cgood_finish, cgood_ret, same_ud_conns; reflexivity.
  - destruct (getc s c) as [k|]; [|exact I]. apply cgood_finish, cgood_ev_step.
  - destruct (getc s c) as [k|] eqn:Hg; [|exact I]. destruct (k_delayed k); [exact I|]. destruct (negb _); [exact I|].
    apply cgood_finish, cgood_ret.
    assert (L : same_ud s (put s c (set_own k (k_ccb k) (k_mapped k) (k_urefs k) n))) by (apply same_ud_put; intros k0 Hk0; rewrite Hg in Hk0; injection Hk0 as <-; auto).
    destruct (k_alive k); [eapply same_ud_trans; [exact L|apply ud_force_close]|exact L].
  - apply cgood_on_lconn. intros k Hg. apply cgood_ret. destruct (cstate_eqb (k_st k) Connected); [|apply same_ud_refl].
    apply same_ud_put. intros k0 Hk0. rewrite Hg in Hk0. injection Hk0 as <-. unfold shutdown_in_loop. destruct (k_wr _); auto.
  - apply cgood_on_lconn. intros k Hg. apply cgood_ret, ud_force_close.
  - apply cgood_on_lconn. intros k Hg. apply cgood_ret. destruct (k_closable k); [|apply same_ud_refl].
    apply same_ud_put. intros k0 Hk0. rewrite Hg in Hk0. injection Hk0 as <-. auto.
  - apply cgood_on_lconn. intros k Hg. apply cgood_ret. destruct (cstate_eqb (k_st k) Connected); [apply ud_send_in_loop|apply same_ud_refl].
  - apply cgood_on_lconn. intros k Hg. destruct (k_added k); [apply cgood_ret, ud_start_read|exact I].
  - apply cgood_on_lconn. intros k Hg. destruct (k_added k); [apply cgood_ret, ud_stop_read|exact I].
  - apply cgood_on_conn. intros k Hg. apply cgood_ret. apply same_ud_put. intros k0 Hk0. rewrite Hg in Hk0. injection Hk0 as <-. auto.
  - destruct (getc s c) as [k|] eqn:Hg; [|exact I]. destruct (k_urefs k); [exact I|]. destruct (_ && _ && _ && _ && _); [exact I|].
    apply cgood_finish, cgood_ret. apply same_ud_put. intros k0 Hk0. rewrite Hg in Hk0. injection Hk0 as <-. auto.
  - destruct (strict && is_dtor a); [exact I|]. destruct (find_call u (s_calls s)); [exact I|].
    destruct (is_dtor a); [destruct (_ && _); [|exact I]|]; apply cgood_on_conn; intros k Hg; apply cgood_ret, same_ud_conns; reflexivity.
  - destruct (find_call u (s_calls s)) as [a|]; [|exact I]. destruct (a_stored a); [exact I|].
    destruct (getc s (a_conn a)) as [k|] eqn:Hg; [|exact I].
    destruct (is_dtor (a_api a)).
    { apply cgood_ret.
      match goal with |- same_ud s (if _ then force_close ?s2 _ else _) => assert (L : same_ud s s2) by (apply same_ud_conns; rewrite conns_enq; reflexivity) end.
      destruct (a_loaded a); [eapply same_ud_trans; [exact L|apply ud_force_close]|exact L]. }
    destruct (_ && _ && _); [exact I|]. apply cgood_ret.
    destruct (_ && _); [|apply same_ud_conns; reflexivity].
    match goal with |- same_ud s (put ?s1 _ _) => apply (same_ud_trans s s1); [apply same_ud_conns; reflexivity|] end.
    apply same_ud_put. intros k0 Hk0. change (getc s (a_conn a) = Some k0) in Hk0.
    rewrite Hg in Hk0. injection Hk0 as <-. auto.
  - destruct (find_call u (s_calls s)) as [a|]; [|exact I]. destruct (negb (a_stored a)); [exact I|].
    destruct (getc s (a_conn a)) as [k|] eqn:Hg; [|exact I].
    destruct (is_dtor (a_api a)).
    { apply cgood_finish, cgood_ret.
      match goal with |- same_ud s (set_cli (put ?s1 _ _) _ _) => apply (same_ud_trans s s1); [apply same_ud_conns; reflexivity|];
        apply (same_ud_trans s1 (put s1 (a_conn a) (set_own k (k_ccb k) false (k_urefs k) (k_delayed k)))); [|apply same_ud_conns; reflexivity] end.
      apply same_ud_put. intros k0 Hk0. change (getc s (a_conn a) = Some k0) in Hk0. rewrite Hg in Hk0. injection Hk0 as <-. auto. }
    destruct (_ && _ && _ && _); [exact I|]. destruct (a_loaded a && gone s (k_loop k)); [destruct strict; exact I|].
    apply cgood_finish, cgood_ret. destruct (a_loaded a); [|apply same_ud_conns; reflexivity].
    destruct (a_api a); try (apply same_ud_conns; reflexivity); match goal with |- same_ud s (enq ?s1 _ _) => apply (same_ud_trans s s1); [apply same_ud_conns; reflexivity|apply same_ud_enq] end.
Qed.

Lemma cgood_run strict ops : forall s, cgood s (run strict s ops).
Proof.
  induction ops as [|o ops IH]; intros s; cbn [run]; [apply cgood_ret, same_ud_refl|].
  apply cgood_bind; [apply cgood_step|exact IH].
Qed.

(* every UP / DOWN a run emits for connection c is counted by c's ghost counters *)
Theorem S02_counted : forall strict nio readd ops s obs, run strict (init_sys nio readd) ops = Ok (s, obs) ->
  forall c, cntU c obs = upsof s c /\ cntD c obs = downsof s c.
Proof.
  intros strict nio readd ops s obs H c. pose proof (cgood_run strict ops (init_sys nio readd)) as Hg. rewrite H in Hg.
  destruct (Hg c) as [A B].
  assert (Z : upsof (init_sys nio readd) c = 0 /\ downsof (init_sys nio readd) c = 0) by (unfold upsof, downsof, getc; cbn; destruct c; auto).
  destruct Z as [Z1 Z2]. lia.
Qed.

(* exactly one UP, at most one DOWN, DOWN exactly when closed - for every connection of every run
   under the environment hypotheses (without H3 the second DOWN of F-19 is reachable: W_f19) *)
Theorem S02_up_down_once : forall nio readd ops s obs, run true (init_sys nio readd) ops = Ok (s, obs) ->
  forall c k, getc s c = Some k ->
  cntU c obs = k_ups k /\ cntD c obs = k_downs k /\ cntU c obs <= 1 /\ cntD c obs <= cntU c obs /\
  (cntU c obs = 0 <-> k_st k = Connecting) /\ (cntD c obs = 1 <-> k_st k = Disconnected).
Proof.
  intros nio readd ops s obs H c k Hg.
  destruct (S02_counted true nio readd ops s obs H c) as [A B]. unfold upsof, downsof in A, B. rewrite Hg in A, B.
  assert (Hr : sreach s) by (eapply run_sreach; [apply sreach_init|exact H]).
  destruct (sreach_inv s Hr) as [[G HC] _]. pose proof (HC c k Hg) as HCk.
  split; [exact A|]. split; [exact B|]. rewrite A, B.
  destruct (k_alive k) eqn:Ha.
  - pose proof (ci_cnt s c k HCk Ha) as Hc. unfold counters_ok in Hc.
    destruct (k_st k); destruct Hc as [-> ->]; repeat split; intros; try lia; try discriminate; reflexivity.
  - destruct (ci_deadst s c k HCk Ha) as (E & _ & _ & -> & ->). rewrite E. repeat split; intros; try lia; try discriminate; reflexivity.
Qed.

Lemma W_f19_counts : exists s o, run false (init_sys 0 false) w_f19 = Ok (s, o) /\ cntU 0 o = 1 /\ cntD 0 o = 2.
Proof. vm_compute. eexists _, _. repeat split. Qed.
