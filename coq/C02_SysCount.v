(* C02_SysCount: the observations of the owners model counted per connection - every OUp / ODown that a
   run emits for connection c is accounted for by c's ghost counters, which the invariant bounds. *)
From Coq Require Import List Bool Arith Lia.
From Muduo Require Import Conn_Model C02_Model C02_SysProofs.
Import ListNotations.

Definition cntU (c : nat) (o : list obs) : nat :=
  length (filter (fun x => match x with OUp _ c' => c' =? c | _ => false end) o).
Definition cntD (c : nat) (o : list obs) : nat :=
  length (filter (fun x => match x with ODown _ c' => c' =? c | _ => false end) o).

Lemma cntU_app c o1 o2 : cntU c (o1 ++ o2) = cntU c o1 + cntU c o2.
Proof. unfold cntU. rewrite filter_app, app_length. reflexivity. Qed.
Lemma cntD_app c o1 o2 : cntD c (o1 ++ o2) = cntD c o1 + cntD c o2.
Proof. unfold cntD. rewrite filter_app, app_length. reflexivity. Qed.

Definition upsof (s : sys) (c : nat) : nat := match getc s c with Some k => k_ups k | None => 0 end.
Definition downsof (s : sys) (c : nat) : nat := match getc s c with Some k => k_downs k | None => 0 end.

Definition same_ud (s s' : sys) : Prop := forall c, upsof s' c = upsof s c /\ downsof s' c = downsof s c.

Definition cgood (s : sys) (m : M) : Prop :=
  match m with
  | Ok (s', o) => forall c, upsof s' c = upsof s c + cntU c o /\ downsof s' c = downsof s c + cntD c o
  | _ => True
  end.

Lemma same_ud_refl s : same_ud s s.
Proof. intros c. auto. Qed.
Lemma same_ud_trans s1 s2 s3 : same_ud s1 s2 -> same_ud s2 s3 -> same_ud s1 s3.
Proof. intros H1 H2 c. destruct (H1 c), (H2 c). split; congruence. Qed.

Lemma same_ud_put s c k' : (forall k, getc s c = Some k -> k_ups k' = k_ups k /\ k_downs k' = k_downs k) -> same_ud s (put s c k').
Proof.
  intros H c1. unfold upsof, downsof. destruct (Nat.eq_dec c c1) as [<-|Hn].
  - destruct (getc s c) as [k|] eqn:Hg.
    + rewrite getc_put_eq by (eapply getc_lt, Hg). apply (H k eq_refl).
    + assert (E : getc (put s c k') c = None).
      { unfold getc, put in *. cbn. apply nth_error_None. rewrite length_upd. apply nth_error_None, Hg. }
      rewrite E. auto.
  - rewrite getc_put_neq by exact Hn. auto.
Qed.

Lemma same_ud_conns s s' : s_conns s' = s_conns s -> same_ud s s'.
Proof. intros E c. unfold upsof, downsof, getc. rewrite E. auto. Qed.

Lemma same_ud_enq s l t : same_ud s (enq s l t).
Proof. apply same_ud_conns, conns_enq. Qed.

Lemma cgood_ret s s' : same_ud s s' -> cgood s (ret s').
Proof. intros H c. destruct (H c). cbn. lia. Qed.

Lemma cgood_bind s m f : cgood s m -> (forall s1, cgood s1 (f s1)) -> cgood s (bind m f).
Proof.
  intros Hm Hf. unfold bind. destruct m as [[s1 o1]| |]; [|exact I|exact I].
  specialize (Hf s1). destruct (f s1) as [[s2 o2]| |]; [|exact I|exact I].
  intros c. destruct (Hm c), (Hf c). rewrite cntU_app, cntD_app. lia.
Qed.

Lemma cgood_weaken s0 s m : same_ud s0 s -> cgood s m -> cgood s0 m.
Proof. intros H. destruct m as [[s' o]| |]; auto. intros Hm c. destruct (H c), (Hm c). lia. Qed.

Ltac ud_same := intros; repeat match goal with
  | |- context [chan_update ?r ?k ?w ?d] =>
      let F := fresh "F" in pose proof (chan_update_fields r k w d) as F; cbv zeta in F;
      destruct F as (_ & _ & _ & _ & _ & _ & _ & _ & _ & _ & _ & _ & ?FU & ?FD & _); rewrite ?FU, ?FD
  end; cbn [set_life set_own set_rflag set_fin set_chan kill k_ups k_downs unmapped]; auto.

(* one connection's counters move by one together with the observation *)
Lemma cgood_put_obs s c k k' x du dd :
  getc s c = Some k -> k_ups k' = k_ups k + du -> k_downs k' = k_downs k + dd ->
  (forall c1, cntU c1 [x] = if c1 =? c then du else 0) -> (forall c1, cntD c1 [x] = if c1 =? c then dd else 0) ->
  cgood s (emit (put s c k') [x]).
Proof.
  intros Hg Hu Hd HU HD c1. unfold emit, upsof, downsof. rewrite HU, HD. destruct (Nat.eq_dec c c1) as [<-|Hn].
  - rewrite getc_put_eq by (eapply getc_lt, Hg). rewrite Hg, Nat.eqb_refl. lia.
  - rewrite getc_put_neq by exact Hn. assert (E : (c1 =? c) = false) by (apply Nat.eqb_neq; auto). rewrite E. lia.
Qed.

Lemma cntU_up thr c c1 : cntU c1 [OUp thr c] = if c1 =? c then 1 else 0.
Proof. unfold cntU. cbn. rewrite (Nat.eqb_sym c c1). destruct (c1 =? c); reflexivity. Qed.
Lemma cntD_up thr c c1 : cntD c1 [OUp thr c] = if c1 =? c then 0 else 0.
Proof. destruct (c1 =? c); reflexivity. Qed.
Lemma cntD_down thr c c1 : cntD c1 [ODown thr c] = if c1 =? c then 1 else 0.
Proof. unfold cntD. cbn. rewrite (Nat.eqb_sym c c1). destruct (c1 =? c); reflexivity. Qed.
Lemma cntU_down thr c c1 : cntU c1 [ODown thr c] = if c1 =? c then 0 else 0.
Proof. destruct (c1 =? c); reflexivity. Qed.

Lemma cgood_establish s thr c : cgood s (establish s thr c).
Proof.
  unfold establish. destruct (getc s c) as [k|] eqn:Hg; [|exact I].
  destruct (negb (k_alive k)); [exact I|]. destruct (negb (thr =? k_loop k)); [exact I|].
  destruct (negb (cstate_eqb (k_st k) Connecting)); [exact I|].
  apply (cgood_put_obs s c k _ _ 1 0 Hg); [ud_same; lia|ud_same|apply cntU_up|apply cntD_up].
Qed.

Lemma cgood_remove_in_loop s thr c : cgood s (remove_in_loop s thr c).
Proof.
  unfold remove_in_loop. destruct (negb (s_srv s)); [exact I|]. destruct (negb (thr =? 0)); [exact I|].
  destruct (getc s c) as [k|] eqn:Hg; [|exact I]. destruct (negb (k_mapped k)); [exact I|].
  apply cgood_ret. eapply same_ud_trans; [|apply same_ud_enq].
  apply same_ud_put. intros k0 Hk0. rewrite Hg in Hk0. injection Hk0 as <-. auto.
Qed.

Lemma cgood_close_cb s thr c : cgood s (close_cb s thr c).
Proof.
  unfold close_cb. destruct (getc s c) as [k|] eqn:Hg; [|exact I]. destruct (k_ccb k).
  - destruct (negb (s_srv s)); [exact I|]. destruct (thr =? 0); [apply cgood_remove_in_loop|apply cgood_ret, same_ud_enq].
  - destruct (negb (s_cli s)); [exact I|]. destruct (negb (thr =? 0)); [exact I|]. destruct (s_cliconn s) as [c'|]; [|exact I].
    destruct (negb (c' =? c)); [exact I|]. apply cgood_ret.
    apply (same_ud_trans _ (put s c (set_own k CbClient false (k_urefs k) (k_delayed k)))).
    + apply same_ud_put. intros k0 Hk0. rewrite Hg in Hk0. injection Hk0 as <-. auto.
    + eapply same_ud_trans; [|apply same_ud_enq]. apply same_ud_conns. reflexivity.
  - apply cgood_ret, same_ud_enq.
Qed.

Lemma cgood_handle_close s thr c : cgood s (handle_close s thr c).
Proof.
  unfold handle_close. destruct (getc s c) as [k|] eqn:Hg; [|exact I].
  destruct (negb (thr =? k_loop k)); [exact I|]. destruct (negb (k_closable k)); [exact I|].
  apply cgood_bind; [|intros s1; apply cgood_close_cb].
  apply (cgood_put_obs s c k _ _ 0 1 Hg); [ud_same|ud_same; lia|apply cntU_down|apply cntD_down].
Qed.

Lemma cgood_connect_destroyed s thr c : cgood s (connect_destroyed s thr c).
Proof.
  unfold connect_destroyed. destruct (getc s c) as [k|] eqn:Hg; [|exact I].
  destruct (negb (k_alive k)); [exact I|]. destruct (negb (thr =? k_loop k)); [exact I|].
  destruct (k_closable k).
  - unfold chan_remove. destruct (negb (k_none _)); [exact I|]. destruct (pidx_eqb _ PNew); [exact I|].
    apply (cgood_put_obs s c k _ _ 0 1 Hg); [ud_same|ud_same; lia|apply cntU_down|apply cntD_down].
  - unfold chan_remove. destruct (negb (k_none k)); [exact I|]. destruct (pidx_eqb _ PNew); [exact I|].
    unfold emit. intros c1. cbn. destruct (same_ud_put s c (set_chan k (k_wr k) (k_rd k) false PNew)
      ltac:(intros k0 Hk0; rewrite Hg in Hk0; injection Hk0 as <-; auto) c1). lia.
Qed.
