(* Link_ConnBuf: the connection model over two concrete Buffers (Link_ConnBuf_Model) refines, step
   by step, the connection model over plain byte lists (Conn_Model), and conversely realises every
   Conn_Model step whose read delivery fits into what readFd offers to readv.  Hence "outb/inb =
   readable bytes of outputBuffer_/inputBuffer_ (abstract view justified by C10)" of Conn_Model is a
   theorem, TcpConnection never violates a precondition of Buffer, and every Conn_Model theorem about
   outb / inb / wire is a theorem about the readable contents of the two C10 buffers.

   Names used from other owners' files (read-only):
     C10_Model : buf readable readableBytes writableBytes append retrieve retrieveAll readFd
                 toStringPiece kres(KData,KErr) rfd(rf_n) readFd_capacity readFd_iovcnt delivered
                 new_buf kInitialSize kExtraBuf step op(Append,Retrieve,RetrieveAll,ReadFd,
                 ToStringPiece,Swap) spec_step guard res(Ok,Rejected,Fault) out
     C10_Proofs: reach reach_init reach_step refines_fifo sizes_consistent
     Conn_Model: everything (the control part IS Conn_Model's)
     Conn_Proofs: Inv init_inv step_inv no_fault reach reach_init reach_step
     Conn_Trace: trace step_block read_of is_read outbound_trace inbound_trace *)
From Coq Require Import List ZArith Lia Bool Arith NArith.
From Coq.Strings Require Import Byte.
From Muduo Require C10_Model C10_Proofs.
From Muduo Require Import Conn_Model Conn_Proofs Conn_Trace Link_ConnBuf_Model.
Import ListNotations.

Module BP := Muduo.C10_Proofs.

Arguments Nat.min : simpl never.
Arguments N.leb : simpl never.
Arguments N.ltb : simpl never.
Arguments N.of_nat : simpl never.

Local Opaque B.kCheapPrepend B.kInitialSize B.kExtraBuf.

(* ========================================================================================== *)
(* 1. What C10's refinement theorem says about the five Buffer operations TcpConnection uses    *)
(* ========================================================================================== *)
(* everything below is derived from C10_Proofs.refines_fifo (= Properties_C10.C10_refines_fifo)
   and sizes_consistent (= C10_sizes_consistent) only *)

Lemma reach_swap b1 b2 l1 l2 : BP.reach (b1, b2) (l1, l2) -> BP.reach (b2, b1) (l2, l1).
Proof. intros H. exact (BP.reach_step _ _ B.Swap _ B.OUnit H eq_refl). Qed.

Lemma buf_readable b1 b2 l1 l2 : BP.reach (b1, b2) (l1, l2) -> B.readable b1 = l1 /\ B.readable b2 = l2.
Proof. intros H. destruct (BP.refines_fifo _ _ H) as (H1 & H2 & _). auto. Qed.

Lemma buf_len b1 b2 l1 l2 : BP.reach (b1, b2) (l1, l2) -> B.readableBytes b1 = length l1.
Proof. intros H. destruct (BP.sizes_consistent _ _ H) as (_ & _ & H3 & _). exact H3. Qed.

Lemma buf_append d b1 b2 l1 l2 : BP.reach (b1, b2) (l1, l2) ->
  exists b1', B.append d b1 = B.Ok b1' /\ BP.reach (b1', b2) (l1 ++ d, l2).
Proof.
  intros H. destruct (BP.refines_fifo _ _ H) as (_ & _ & Hs). specialize (Hs (B.Append d)).
  cbn [B.guard B.step B.spec_step fst snd B.on_fst] in Hs. destruct Hs as (st' & E & Hr).
  destruct (B.append d b1) as [b1'| |]; cbn [B.bind] in E; try discriminate.
  injection E as <-. exists b1'. split; [reflexivity|exact Hr].
Qed.

Lemma buf_retrieve n b1 b2 l1 l2 : BP.reach (b1, b2) (l1, l2) ->
  if n <=? length l1
  then exists b1', B.retrieve n b1 = B.Ok b1' /\ BP.reach (b1', b2) (skipn n l1, l2)
  else B.retrieve n b1 = B.Rejected.
Proof.
  intros H. destruct (BP.refines_fifo _ _ H) as (_ & _ & Hs). specialize (Hs (B.Retrieve n)).
  cbn [B.guard B.step B.spec_step fst snd B.on_fst] in Hs. rewrite (buf_len _ _ _ _ H) in Hs.
  destruct (n <=? length l1).
  - destruct Hs as (st' & E & Hr).
    destruct (B.retrieve n b1) as [b1'| |]; cbn [B.bind] in E; try discriminate.
    injection E as <-. exists b1'. split; [reflexivity|exact Hr].
  - destruct (B.retrieve n b1) as [b1'| |]; cbn [B.bind] in Hs; try discriminate. reflexivity.
Qed.

Lemma buf_retrieveAll b1 b2 l1 l2 : BP.reach (b1, b2) (l1, l2) ->
  BP.reach (B.retrieveAll b1, b2) ([], l2).
Proof. intros H. exact (BP.reach_step _ _ B.RetrieveAll _ B.OUnit H eq_refl). Qed.

Lemma buf_peek b1 b2 l1 l2 : BP.reach (b1, b2) (l1, l2) -> B.toStringPiece b1 = B.Ok l1.
Proof.
  intros H. destruct (BP.refines_fifo _ _ H) as (_ & _ & Hs). specialize (Hs B.ToStringPiece).
  cbn [B.guard B.step B.spec_step fst snd] in Hs. destruct Hs as (st' & E & _).
  destruct (B.toStringPiece b1) as [x| |]; cbn [B.bind] in E; try discriminate.
  injection E as _ <-. reflexivity.
Qed.

Lemma buf_readFd k b1 b2 l1 l2 : BP.reach (b1, b2) (l1, l2) ->
  let d := B.delivered (B.readFd_capacity b1) k in
  exists b1' r, B.readFd k b1 = B.Ok (b1', r) /\
    B.rf_n r = (match k with B.KData _ => Z.of_nat (length d) | B.KErr _ => (-1)%Z end) /\
    B.rf_iovcnt r = B.readFd_iovcnt b1 /\
    BP.reach (b1', b2) (l1 ++ d, l2).
Proof.
  intros H d. destruct (BP.refines_fifo _ _ H) as (_ & _ & Hs). specialize (Hs (B.ReadFd k)).
  cbn [B.guard B.step B.spec_step fst snd] in Hs. destruct Hs as (st' & E & Hr).
  destruct (B.readFd k b1) as [[b1' r]| |]; cbn [B.bind fst snd] in E; try discriminate.
  injection E as <- ->. exists b1'. eexists. split; [reflexivity|]. cbn [B.rf_n B.rf_iovcnt].
  split; [reflexivity|]. split; [reflexivity|exact Hr].
Qed.

Lemma taken_le k len n : taken k len = Some n -> n <= len.
Proof. destruct k; cbn [taken]; intros [= <-]; [apply Nat.le_min_r|lia]. Qed.

(* ========================================================================================== *)
(* 2. The relation                                                                              *)
(* ========================================================================================== *)
(* both buffers are reachable Buffer states (C10's reach: any accepted operation history from
   freshly constructed buffers), representing SOME byte lists - necessarily their readable bytes *)
Definition bufs_ok (c : cconn) : Prop := exists lo li, BP.reach (obuf c, ibuf c) (lo, li).

Lemma bufs_ok_readable c : bufs_ok c ->
  BP.reach (obuf c, ibuf c) (B.readable (obuf c), B.readable (ibuf c)).
Proof. intros (lo & li & H). destruct (buf_readable _ _ _ _ H) as [-> ->]. exact H. Qed.

(* the simulation relation between a Conn_Model state and a concrete state *)
Definition R (a : conn) (c : cconn) : Prop :=
  a = abs c /\ BP.reach (obuf c, ibuf c) (outb a, inb a).

Lemma R_abs c : bufs_ok c -> R (abs c) c.
Proof. intros H. split; [reflexivity|]. exact (bufs_ok_readable c H). Qed.

Lemma R_bufs_ok a c : R a c -> bufs_ok c.
Proof. intros [_ H]. exists (outb a), (inb a). exact H. Qed.

(* R spelled out: the two list fields are the readable bytes of the two buffers, every other
   field coincides with the control part, and the buffers are reachable Buffer states *)
Lemma R_spelled a c : R a c <->
  (B.readable (obuf c) = outb a /\ B.readable (ibuf c) = inb a /\
   BP.reach (obuf c, ibuf c) (outb a, inb a) /\
   st a = st (ctl c) /\ writing a = writing (ctl c) /\ rd_chan a = rd_chan (ctl c) /\
   rd_flag a = rd_flag (ctl c) /\ registered a = registered (ctl c) /\ hwm a = hwm (ctl c) /\
   has_wc a = has_wc (ctl c) /\ has_hwm a = has_hwm (ctl c) /\ wire a = wire (ctl c) /\
   fin a = fin (ctl c) /\ pending a = pending (ctl c) /\ chk a = chk (ctl c) /\
   delayed a = delayed (ctl c) /\ accepted a = accepted (ctl c) /\ consumed a = consumed (ctl c) /\
   delivered a = delivered (ctl c) /\ enq a = enq (ctl c) /\ ran a = ran (ctl c) /\
   ups a = ups (ctl c) /\ downs a = downs (ctl c)).
Proof.
  split.
  - intros [-> H]. cbn in *. repeat split; try reflexivity. exact H.
  - intros (Ho & Hi & H & F). split; [|exact H].
    destruct a; unfold abs, with_bufs; cbn in *.
    destruct F as (-> & -> & -> & -> & -> & -> & -> & -> & -> & -> & -> & -> & -> & -> & -> & -> & -> & -> & -> & ->).
    rewrite Ho, Hi. reflexivity.
Qed.

Lemma c_init_ok mark wc hw : bufs_ok (c_init mark wc hw).
Proof. exists [], []. apply BP.reach_init. Qed.

Lemma new_buf_readable n : B.readable (B.new_buf n) = [].
Proof.
  destruct (buf_readable _ _ _ _ (BP.reach_init n n)) as [H _]. exact H.
Qed.

Lemma abs_c_init mark wc hw : abs (c_init mark wc hw) = init mark wc hw.
Proof. unfold abs, c_init, with_bufs. cbn [ctl obuf ibuf]. rewrite new_buf_readable. reflexivity. Qed.

(* ========================================================================================== *)
(* 3. Ops that do not touch a buffer: Conn_Model.step neither reads nor changes outb / inb      *)
(* ========================================================================================== *)
Definition nonbuf (a : conn) (o : op) : bool :=
  match o with
  | Send _ _ | EvWritable _ | EvReadData _ | EvReadEOF | EvReadErr | Retrieve _ => false
  | RunOne _ => match pending a with FSend _ _ :: _ => false | _ => true end
  | _ => true
  end.

Definition res_map (f : conn -> conn) (r : res (conn * list event)) : res (conn * list event) :=
  match r with Ok (a, e) => Ok (f a, e) | Rejected => Rejected | Fault => Fault end.

Ltac break_if :=
  repeat match goal with
         | |- context [if ?b then _ else _] => destruct b eqn:?
         end.

Lemma step_frame a lo li o : nonbuf a o = true ->
  step (with_bufs a lo li) o = res_map (fun a' => with_bufs a' lo li) (step a o).
Proof.
  destruct a as [s0 ob0 ib0 w0 rc0 rf0 rg0 hw0 hwc0 hhw0 wi0 fi0 pe0 ch0 de0 ac0 co0 dl0 en0 ra0 up0 dn0].
  destruct o; cbn [nonbuf]; try discriminate; intros Hn;
    unfold step, with_bufs; cbn [user_op andb]; projs.
  - (* Establish *) destruct s0; reflexivity.
  - (* FSendCheck *) destruct s0; reflexivity.
  - (* FSendEnq *) destruct s0; cbn; try reflexivity; destruct (lookup t ch0); reflexivity.
  - (* RunOne *)
    destruct pe0 as [|f rest]; [reflexivity|]. cbn [pending] in Hn.
    destruct f; try discriminate; unfold run_functor, ok, set_pending; projs; cbn [res_map].
    + (* FShutdown *) unfold shutdownInLoop; projs. destruct w0; reflexivity.
    + (* FForceClose *) unfold forceCloseInLoop, closable, handleClose; projs.
      destruct s0; reflexivity.
    + (* FStartRead *) unfold startReadInLoop, set_reading; projs.
      destruct s0, rf0, rc0; reflexivity.
    + (* FStopRead *) unfold stopReadInLoop, set_reading; projs.
      destruct s0, rf0, rc0; reflexivity.
    + reflexivity.
    + reflexivity.
    + (* FDestroy *) unfold connectDestroyed, closable; projs.
      destruct rg0; cbn [negb]; [|reflexivity].
      destruct s0; cbn; try reflexivity; destruct w0, rc0; reflexivity.
  - (* EvHup *) unfold handleCloseChecked, closable, handleClose; projs.
    destruct rc0, w0, rg0, s0; reflexivity.
  - (* EvError *) destruct rc0, w0, rg0; reflexivity.
  - (* Shutdown *) unfold shutdownInLoop, set_st; projs. destruct s0, w0; reflexivity.
  - (* XShutdown *) unfold set_pending, set_st; projs. destruct s0; reflexivity.
  - (* ForceClose *) unfold forceClose, closable, set_pending, set_st; projs. destruct s0; reflexivity.
  - (* ForceCloseDelay *) unfold closable, set_st; projs. destruct s0; reflexivity.
  - (* DelayFire *) unfold forceClose, closable, set_pending, set_st; projs.
    destruct de0; [reflexivity|]. destruct s0; reflexivity.
  - (* StartRead *) unfold startReadInLoop, set_reading; projs.
    destruct s0, rg0, rf0, rc0; reflexivity.
  - (* StopRead *) unfold stopReadInLoop, set_reading; projs.
    destruct s0, rg0, rf0, rc0; reflexivity.
  - (* XStartRead *) unfold set_pending; projs. destruct s0; reflexivity.
  - (* XStopRead *) unfold set_pending; projs. destruct s0; reflexivity.
  - (* OwnerDestroy *) unfold connectDestroyed, closable; projs.
    destruct rg0; cbn [andb negb]; [|reflexivity].
    destruct (existsb is_destroy pe0); cbn [negb]; [reflexivity|].
    destruct s0; cbn; try reflexivity; destruct w0, rc0; reflexivity.
Qed.

(* ========================================================================================== *)
(* 4. The three functions that do touch a buffer                                                *)
(* ========================================================================================== *)
Ltac cprojs :=
  unfold abs, with_bufs in *;
  cbn [ctl obuf ibuf abs with_bufs effective
       st outb inb writing rd_chan rd_flag registered hwm has_wc has_hwm wire fin pending chk
       delayed accepted consumed delivered enq ran ups downs fst snd] in *.

(* sendInLoop: the append of TcpConnection.cc:186 is always accepted by Buffer *)
Lemma c_sendInLoop_ok c d k : bufs_ok c ->
  exists c', c_sendInLoop c d k = Ok (c', snd (sendInLoop (abs c) d k)) /\
             abs c' = fst (sendInLoop (abs c) d k) /\ bufs_ok c'.
Proof.
  intros Hb. pose proof (bufs_ok_readable c Hb) as H. destruct c as [a ob ib].
  destruct a as [s0 ob0 ib0 w0 rc0 rf0 rg0 hw0 hwc0 hhw0 wi0 fi0 pe0 ch0 de0 ac0 co0 dl0 en0 ra0 up0 dn0].
  cprojs.
  pose proof (buf_len _ _ _ _ H) as Hlen.
  unfold c_sendInLoop, sendInLoop, effective. cprojs. rewrite Hlen.
  destruct (cstate_eqb s0 Disconnected).
  { eexists. split; [reflexivity|]. split; [reflexivity|exact Hb]. }
  match goal with
  | |- context [match ?X with pair _ _ => _ end] =>
      match type of X with
      | (nat * bool * bool)%type => destruct X as [[nwrote fatal] wrote_ok]
      end
  end.
  destruct (negb fatal && (0 <? length d - nwrote)) eqn:Eq.
  - destruct (buf_append (skipn nwrote d) _ _ _ _ H) as (ob' & -> & Hr).
    eexists. split; [reflexivity|]. cprojs.
    destruct (buf_readable _ _ _ _ Hr) as [-> _].
    split; [reflexivity|]. eexists; eexists; exact Hr.
  - eexists. split; [reflexivity|]. cprojs. split; [reflexivity|exact Hb].
Qed.

(* handleWrite: the retrieve(n) of TcpConnection.cc:378 is always accepted (n <= readableBytes()
   because the kernel cannot take more than it was offered) *)
Lemma c_handleWrite_ok c k : bufs_ok c ->
  exists c', c_handleWrite c k = Ok (c', snd (handleWrite (abs c) k)) /\
             abs c' = fst (handleWrite (abs c) k) /\ bufs_ok c'.
Proof.
  intros Hb. pose proof (bufs_ok_readable c Hb) as H. destruct c as [a ob ib].
  destruct a as [s0 ob0 ib0 w0 rc0 rf0 rg0 hw0 hwc0 hhw0 wi0 fi0 pe0 ch0 de0 ac0 co0 dl0 en0 ra0 up0 dn0].
  cprojs.
  unfold c_handleWrite, handleWrite, effective. cprojs.
  destruct w0; [|eexists; split; [reflexivity|]; split; [reflexivity|exact Hb]].
  rewrite (buf_peek _ _ _ _ H).
  destruct (taken (if fi0 then Err EPIPE else k) (length (B.readable ob))) as [n'|] eqn:Et;
    [|eexists; split; [reflexivity|]; split; [reflexivity|exact Hb]].
  destruct (0 <? n'); [|eexists; split; [reflexivity|]; split; [reflexivity|exact Hb]].
  pose proof (buf_retrieve n' _ _ _ _ H) as Hr.
  destruct (Nat.leb_spec n' (length (B.readable ob))) as [_|Hgt];
    [|apply taken_le in Et; lia].
  destruct Hr as (ob' & -> & Hr).
  rewrite (buf_len _ _ _ _ Hr). destruct (buf_readable _ _ _ _ Hr) as [Ero _].
  assert (Hb' : forall x, bufs_ok (mkCC x ob' ib)) by (intros x; eexists; eexists; exact Hr).
  destruct (length (skipn n' (B.readable ob)) =? 0); cbn [andb].
  - destruct (cstate_eqb s0 Disconnecting).
    + unfold shutdownInLoop. cprojs.
      eexists. split; [reflexivity|]. cprojs. rewrite Ero. split; [reflexivity|apply Hb'].
    + eexists. split; [reflexivity|]. cprojs. rewrite Ero. split; [reflexivity|apply Hb'].
  - eexists. split; [reflexivity|]. cprojs. rewrite Ero. split; [reflexivity|apply Hb'].
Qed.

(* ========================================================================================== *)
(* 5. One step                                                                                  *)
(* ========================================================================================== *)
Lemma abs_set_pending a ob ib p :
  set_pending (abs (mkCC a ob ib)) p = abs (mkCC (set_pending a p) ob ib).
Proof. reflexivity. Qed.

Lemma zpos_nat n : (0 <? Z.of_nat n)%Z = (0 <? n).
Proof.
  destruct (Nat.ltb_spec 0 n); [apply Z.ltb_lt|apply Z.ltb_ge]; lia.
Qed.

Lemma zzero_nat n : (Z.of_nat n =? 0)%Z = (n =? 0).
Proof.
  destruct (Nat.eqb_spec n 0); [apply Z.eqb_eq|apply Z.eqb_neq]; lia.
Qed.

Ltac aprojs :=
  cbn [ctl obuf ibuf abs with_bufs
       st outb inb writing rd_chan rd_flag registered hwm has_wc has_hwm wire fin pending chk
       delayed accepted consumed delivered enq ran ups downs fst snd].

Ltac aprojs_in H :=
  cbn [ctl obuf ibuf abs with_bufs
       st outb inb writing rd_chan rd_flag registered hwm has_wc has_hwm wire fin pending chk
       delayed accepted consumed delivered enq ran ups downs fst snd] in H.

(* REFINEMENT (concrete => abstract).  Whatever the concrete machine does in one step, Conn_Model
   does on the abstraction with the same result kind and the same events; buffers stay reachable
   Buffer states.  In particular c_step = Fault (a Buffer operation issued by TcpConnection was
   not accepted, or an assert of TcpConnection.cc) only where Conn_Model itself faults. *)
Theorem c_step_refines c o : bufs_ok c -> cop_wf o = true ->
  match c_step c o with
  | Ok (c', e) => step (abs c) (abs_op c o) = Ok (abs c', e) /\ bufs_ok c'
  | Rejected => step (abs c) (abs_op c o) = Rejected
  | Fault => step (abs c) (abs_op c o) = Fault
  end.
Proof.
  intros Hb Hwf. pose proof (bufs_ok_readable c Hb) as H.
  destruct o as [o|k|].
  - (* COp *)
    cbn [abs_op]. cbn [cop_wf] in Hwf.
    destruct (nonbuf (ctl c) o) eqn:Hn.
    + (* lifted *)
      assert (E : c_step c (COp o) = lift c (step (ctl c) o)).
      { unfold c_step. destruct (user_op o && cstate_eqb (st (ctl c)) Connecting) eqn:Eg.
        - unfold step. rewrite Eg. reflexivity.
        - destruct o; try discriminate; try reflexivity.
          cbn [nonbuf] in Hn. destruct (pending (ctl c)) as [|[] ?]; try discriminate; reflexivity. }
      rewrite E. unfold abs. rewrite (step_frame _ _ _ _ Hn).
      destruct (step (ctl c) o) as [[a' e]| |]; cbn [lift res_map]; [|reflexivity|reflexivity].
      split; [reflexivity|]. exact Hb.
    + destruct o; try discriminate.
      * (* Send *)
        unfold c_step, step. cbn [user_op andb]. aprojs.
        destruct (cstate_eqb (st (ctl c)) Connecting); [reflexivity|].
        destruct (cstate_eqb (st (ctl c)) Connected).
        -- destruct (c_sendInLoop_ok c d k Hb) as (c' & -> & Ha & Hb').
           unfold ok. rewrite Ha, <- surjective_pairing. split; [reflexivity|exact Hb'].
        -- split; [reflexivity|exact Hb].
      * (* RunOne, head = FSend *)
        unfold c_step, step. cbn [user_op andb]. aprojs.
        cbn [nonbuf] in Hn. destruct (pending (ctl c)) as [|f rest] eqn:Ep; [discriminate|].
        destruct f; try discriminate.
        assert (Hb0 : bufs_ok (mkCC (set_pending (ctl c) rest) (obuf c) (ibuf c))) by exact Hb.
        destruct (c_sendInLoop_ok _ d k Hb0) as (c' & -> & Ha & Hb').
        unfold run_functor.
        change (set_pending (abs c) rest) with (abs (mkCC (set_pending (ctl c) rest) (obuf c) (ibuf c))).
        destruct (sendInLoop (abs (mkCC (set_pending (ctl c) rest) (obuf c) (ibuf c))) d k) as [x evs].
        cbn [fst snd] in *. subst x. unfold ok. split; [reflexivity|].
        destruct Hb' as (lo & li & Hr). exists lo, li. exact Hr.
      * (* EvWritable *)
        unfold c_step, step. cbn [user_op andb]. aprojs.
        destruct (registered (ctl c)); [|reflexivity].
        destruct (c_handleWrite_ok c k Hb) as (c' & -> & Ha & Hb').
        unfold ok. rewrite Ha, <- surjective_pairing. split; [reflexivity|exact Hb'].
      * (* Retrieve: the user's retrieve(n) *)
        unfold c_step, step. cbn [user_op andb]. aprojs.
        destruct (cstate_eqb (st (ctl c)) Connecting); [reflexivity|].
        pose proof (buf_retrieve n _ _ _ _ (reach_swap _ _ _ _ H)) as Hr.
        destruct (n <=? length (B.readable (ibuf c))).
        -- destruct Hr as (ib' & -> & Hr). apply reach_swap in Hr.
           destruct (buf_readable _ _ _ _ Hr) as [_ Eri].
           unfold ok, abs, with_bufs. aprojs. rewrite Eri. split; [reflexivity|]. eexists; eexists; exact Hr.
        -- rewrite Hr. reflexivity.
  - (* CRead *)
    unfold c_step, step. aprojs.
    destruct (buf_readFd k _ _ _ _ (reach_swap _ _ _ _ H)) as (ib' & r & Erd & En & _ & Hr).
    apply reach_swap in Hr. destruct (buf_readable _ _ _ _ Hr) as [_ Eri].
    assert (Hb' : forall x, bufs_ok (mkCC x (obuf c) ib')) by (intros x; eexists; eexists; exact Hr).
    pose proof (buf_len _ _ _ _ (reach_swap _ _ _ _ Hr)) as Hlen'.
    destruct k as [avail|e]; cbn [abs_op B.delivered] in *.
    + (* data or end of file *)
      set (d := firstn (B.readFd_capacity (ibuf c)) avail) in *.
      destruct (0 <? length d) eqn:Ed; cbn [user_op andb].
      * destruct (rd_chan (ctl c) && registered (ctl c)); [|reflexivity]. cbn [andb].
        unfold c_handleRead. rewrite Erd, En, zpos_nat, Ed.
        unfold ok, abs, with_bufs. aprojs. rewrite Eri, Hlen'. split; [reflexivity|apply Hb'].
      * destruct (rd_chan (ctl c) && registered (ctl c)); [|reflexivity].
        unfold c_handleRead. rewrite Erd, En, zpos_nat, Ed, zzero_nat.
        apply Nat.ltb_ge in Ed. assert (Ed0 : length d = 0) by lia.
        rewrite Ed0. cbn [Nat.eqb].
        assert (Ed1 : d = []) by (destruct d; [reflexivity|discriminate]).
        rewrite Ed1, app_nil_r in Eri.
        unfold handleCloseChecked, closable, handleClose. aprojs.
        destruct (cstate_eqb (st (ctl c)) Connected || cstate_eqb (st (ctl c)) Disconnecting); [|reflexivity].
        unfold abs, with_bufs. aprojs. rewrite Eri. split; [reflexivity|apply Hb'].
    + (* readv failed *)
      cbn [user_op andb]. destruct (rd_chan (ctl c) && registered (ctl c)); [|reflexivity].
      unfold c_handleRead. rewrite Erd, En. cbn [Z.ltb Z.eqb Z.compare].
      unfold ok, abs, with_bufs. aprojs. rewrite app_nil_r in Eri. rewrite Eri. split; [reflexivity|apply Hb'].
  - (* CRetrieveAll *)
    unfold c_step, step. cbn [abs_op user_op andb]. aprojs.
    destruct (cstate_eqb (st (ctl c)) Connecting); [reflexivity|].
    pose proof (buf_len _ _ _ _ (reach_swap _ _ _ _ H)) as Hlen. rewrite Hlen, Nat.leb_refl.
    pose proof (buf_retrieveAll _ _ _ _ (reach_swap _ _ _ _ H)) as Hr. apply reach_swap in Hr.
    destruct (buf_readable _ _ _ _ Hr) as [_ Eri].
    unfold ok, abs, with_bufs. aprojs. rewrite Eri, skipn_all, firstn_all. split; [reflexivity|].
    eexists; eexists; exact Hr.
Qed.

(* ========================================================================================== *)
(* 6. Consequences of one step                                                                  *)
(* ========================================================================================== *)
(* the same, phrased with the relation R: a Conn_Model state related to the concrete one *)
Corollary c_step_refines_R a c o : R a c -> cop_wf o = true ->
  match c_step c o with
  | Ok (c', e) => exists a', step a (abs_op c o) = Ok (a', e) /\ R a' c'
  | Rejected => step a (abs_op c o) = Rejected
  | Fault => step a (abs_op c o) = Fault
  end.
Proof.
  intros HR Hwf. pose proof (R_bufs_ok a c HR) as Hb. destruct HR as [-> _].
  pose proof (c_step_refines c o Hb Hwf) as Hs.
  destruct (c_step c o) as [[c' e]| |]; [|exact Hs|exact Hs].
  destruct Hs as [Hs Hb']. exists (abs c'). split; [exact Hs|apply R_abs; exact Hb'].
Qed.

Ltac fst_conj H :=
  match type of H with
  | _ /\ _ => let H' := fresh in destruct H as [H' _]; rename H' into H
  | _ => idtac
  end.

(* the dead fields are dead: what the concrete machine does (result kind, events, abstraction
   of the next state) does not depend on the outb / inb fields of its control part *)
Corollary c_step_dead_fields a ob ib x y o : bufs_ok (mkCC a ob ib) -> cop_wf o = true ->
  match c_step (mkCC a ob ib) o, c_step (mkCC (with_bufs a x y) ob ib) o with
  | Ok (c1, e1), Ok (c2, e2) => abs c1 = abs c2 /\ e1 = e2
  | Rejected, Rejected => True
  | Fault, Fault => True
  | _, _ => False
  end.
Proof.
  intros Hb Hwf.
  assert (Hb2 : bufs_ok (mkCC (with_bufs a x y) ob ib)) by exact Hb.
  pose proof (c_step_refines _ o Hb Hwf) as H1. pose proof (c_step_refines _ o Hb2 Hwf) as H2.
  change (abs (mkCC (with_bufs a x y) ob ib)) with (abs (mkCC a ob ib)) in H2.
  change (abs_op (mkCC (with_bufs a x y) ob ib) o) with (abs_op (mkCC a ob ib) o) in H2.
  destruct (c_step (mkCC a ob ib) o) as [[c1 e1]| |], (c_step (mkCC (with_bufs a x y) ob ib) o) as [[c2 e2]| |];
    fst_conj H1; fst_conj H2; rewrite H1 in H2; try discriminate; try exact I.
  split; congruence.
Qed.

Lemma abs_conc_op c o : fits c o = true ->
  (match o with EvReadData d => d <> [] | _ => True end) ->
  cop_wf (conc_op o) = true /\ abs_op c (conc_op o) = o.
Proof.
  destruct o; cbn [conc_op cop_wf is_read_ev negb abs_op fits]; intros Hf Hd; try (split; reflexivity);
    [|rewrite firstn_nil; split; reflexivity].
  apply Nat.leb_le in Hf. rewrite firstn_all2 by exact Hf.
  destruct d; [contradiction|]. split; reflexivity.
Qed.

(* SIMULATION (abstract => concrete), the direction asked for in the design: every accepted
   Conn_Model step from a related state is matched by the concrete machine - every Buffer
   operation it issues is accepted by C10's guards (no Rejected, no Fault), the events are the
   same, the relation is re-established.  The only side condition: a single handleRead cannot
   deliver more than readFd offers to readv ([fits]; Conn_Model's EvReadData d allows any d and
   is in this respect a strict over-approximation of the environment). *)
Theorem c_step_simulates a c o a' e : R a c -> fits c o = true ->
  step a o = Ok (a', e) ->
  exists c', c_step c (conc_op o) = Ok (c', e) /\ R a' c'.
Proof.
  intros HR Hf Hs.
  assert (Hd : match o with EvReadData d => d <> [] | _ => True end).
  { destruct o; try exact I. intros ->. unfold step in Hs. cbn [user_op andb length Nat.ltb Nat.leb] in Hs.
    rewrite !andb_false_r in Hs. discriminate. }
  destruct (abs_conc_op c o Hf Hd) as [Hwf Ho].
  pose proof (c_step_refines_R a c (conc_op o) HR Hwf) as H. rewrite Ho in H.
  destruct (c_step c (conc_op o)) as [[c' e']| |].
  - destruct H as (a'' & E & HR'). rewrite Hs in E. injection E as <- <-. exists c'. auto.
  - rewrite Hs in H. discriminate.
  - rewrite Hs in H. discriminate.
Qed.

(* what one handleRead delivers: exactly the first min(available, capacity) bytes the descriptor
   has ready are appended to the input buffer, where capacity = writable + 65536 (the extrabuf
   path of readFd) when writable < 65536 and = writable otherwise; nothing else changes in
   either buffer; the message callback sees the whole buffered input *)
Theorem c_handleRead_delivers c avail : bufs_ok c ->
  rd_chan (ctl c) && registered (ctl c) = true ->
  let cap := B.readFd_capacity (ibuf c) in
  let n := Nat.min (length avail) cap in
  cap = (if B.writableBytes (ibuf c) <? B.kExtraBuf
         then B.writableBytes (ibuf c) + B.kExtraBuf else B.writableBytes (ibuf c)) /\
  (0 < n ->
   exists c', c_step c (CRead (B.KData avail)) = Ok (c', [EvMsg (length (B.readable (ibuf c)) + n)]) /\
              B.readable (ibuf c') = B.readable (ibuf c) ++ firstn n avail /\
              B.readable (obuf c') = B.readable (obuf c) /\
              delivered (ctl c') = delivered (ctl c) ++ firstn n avail).
Proof.
  intros Hb Hrd cap n. split; [reflexivity|]. intros Hn.
  pose proof (c_step_refines c (CRead (B.KData avail)) Hb eq_refl) as H.
  cbn [abs_op] in H. fold cap in H.
  assert (Ef : firstn cap avail = firstn n avail).
  { unfold n. destruct (Nat.le_ge_cases (length avail) cap).
    - rewrite Nat.min_l by assumption. rewrite !firstn_all2 by lia. reflexivity.
    - rewrite Nat.min_r by assumption. reflexivity. }
  assert (El : length (firstn n avail) = n).
  { rewrite firstn_length. unfold n. lia. }
  rewrite Ef, El in H. destruct (Nat.ltb_spec 0 n) as [_|]; [|lia].
  destruct (c_step c (CRead (B.KData avail))) as [[c' e]| |].
  - destruct H as [Hs _]. unfold step in Hs. cbn [user_op andb] in Hs. aprojs_in Hs.
    rewrite Hrd, El in Hs. destruct (Nat.ltb_spec 0 n) as [_|]; [|lia]. cbn [andb] in Hs.
    unfold ok in Hs.
    pose proof (f_equal (fun r => match r with
                                  | Ok (a, e) => (inb a, outb a, delivered a, e)
                                  | _ => ([], [], [], [])
                                  end) Hs) as Hp.
    aprojs_in Hp. injection Hp as Hi Ho Hd <-.
    exists c'. rewrite app_length, El. split; [reflexivity|]. auto.
  - unfold step in H. cbn [user_op andb] in H. aprojs_in H. rewrite Hrd, El in H.
    destruct (Nat.ltb_spec 0 n) as [_|]; [|lia]. discriminate.
  - unfold step in H. cbn [user_op andb] in H. aprojs_in H. rewrite Hrd, El in H.
    destruct (Nat.ltb_spec 0 n) as [_|]; [|lia]. discriminate.
Qed.

(* ========================================================================================== *)
(* 7. Histories                                                                                 *)
(* ========================================================================================== *)
Theorem c_run_refines ops : forall c, bufs_ok c -> forallb cop_wf ops = true ->
  match c_run c ops with
  | Ok (c', e) => run (abs c) (abs_ops c ops) = Ok (abs c', e) /\ bufs_ok c'
  | Rejected => run (abs c) (abs_ops c ops) = Rejected
  | Fault => run (abs c) (abs_ops c ops) = Fault
  end.
Proof.
  induction ops as [|o rest IH]; intros c Hb Hwf.
  - cbn [c_run abs_ops run]. split; [reflexivity|exact Hb].
  - cbn [forallb] in Hwf. apply andb_true_iff in Hwf as [Hwo Hwr].
    cbn [c_run abs_ops run]. pose proof (c_step_refines c o Hb Hwo) as Hs.
    destruct (c_step c o) as [[c1 e1]| |].
    + destruct Hs as [Hs Hb1]. rewrite Hs. specialize (IH c1 Hb1 Hwr).
      destruct (c_run c1 rest) as [[c2 e2]| |].
      * destruct IH as [-> Hb2]. split; [reflexivity|exact Hb2].
      * rewrite IH. reflexivity.
      * rewrite IH. reflexivity.
    + rewrite Hs. reflexivity.
    + rewrite Hs. reflexivity.
Qed.

(* TcpConnection never violates a precondition of Buffer, and no assert of TcpConnection.cc
   fires: from a state whose abstraction satisfies Conn_Model's invariant, no history faults *)
Theorem c_run_no_fault_inv ops c : bufs_ok c -> Inv (abs c) -> forallb cop_wf ops = true ->
  c_run c ops <> Fault.
Proof.
  intros Hb HI Hwf E. pose proof (c_run_refines ops c Hb Hwf) as H. rewrite E in H.
  exact (run_no_fault _ _ HI H).
Qed.

Theorem c_run_no_fault mark wc hw ops : forallb cop_wf ops = true ->
  c_run (c_init mark wc hw) ops <> Fault.
Proof.
  intros Hwf. apply c_run_no_fault_inv; [apply c_init_ok| |exact Hwf].
  rewrite abs_c_init. apply init_inv.
Qed.

(* reachable states of the concrete machine *)
Inductive c_reach : cconn -> Prop :=
| c_reach_init mark wc hw : c_reach (c_init mark wc hw)
| c_reach_step c o c' e : c_reach c -> cop_wf o = true -> c_step c o = Ok (c', e) -> c_reach c'.

Lemma c_reach_abs c : c_reach c -> reach (abs c) /\ bufs_ok c.
Proof.
  induction 1 as [mark wc hw|c o c' e _ [IHr IHb] Hwf Hs].
  - split; [rewrite abs_c_init; apply reach_init|apply c_init_ok].
  - pose proof (c_step_refines c o IHb Hwf) as H. rewrite Hs in H. destruct H as [H Hb'].
    split; [|exact Hb']. eapply reach_step; eassumption.
Qed.

Lemma c_run_reach ops : forall c c' e, c_reach c -> forallb cop_wf ops = true ->
  c_run c ops = Ok (c', e) -> c_reach c'.
Proof.
  induction ops as [|o rest IH]; intros c c' e Hr Hwf H; cbn [c_run] in H.
  - injection H as <- _. exact Hr.
  - cbn [forallb] in Hwf. apply andb_true_iff in Hwf as [Hwo Hwr].
    destruct (c_step c o) as [[c1 e1]| |] eqn:E1; try discriminate.
    destruct (c_run c1 rest) as [[c2 e2]| |] eqn:E2; try discriminate.
    injection H as <- _. eapply IH; [|exact Hwr|exact E2]. eapply c_reach_step; eassumption.
Qed.

(* THE TRANSFER PRINCIPLE.  Every property of the reachable states of Conn_Model holds of the
   abstraction of every reachable concrete state, i.e. with
       outb := readable bytes of outputBuffer_,  inb := readable bytes of inputBuffer_
   ([abs_fields]); and the two buffers are reachable Buffer states, so every C10 theorem
   (sizes, cheap prepend, capacity bound, ...) holds of them. *)
Theorem transfer (P : conn -> Prop) : (forall a, reach a -> P a) -> forall c, c_reach c -> P (abs c).
Proof. intros HP c Hr. apply HP. apply (c_reach_abs c Hr). Qed.

Lemma abs_fields c :
  outb (abs c) = B.readable (obuf c) /\ inb (abs c) = B.readable (ibuf c) /\
  wire (abs c) = wire (ctl c) /\ st (abs c) = st (ctl c) /\ writing (abs c) = writing (ctl c) /\
  consumed (abs c) = consumed (ctl c) /\ delivered (abs c) = delivered (ctl c) /\
  accepted (abs c) = accepted (ctl c) /\ pending (abs c) = pending (ctl c) /\ fin (abs c) = fin (ctl c).
Proof. repeat split; reflexivity. Qed.

Theorem c_reach_buffers c : c_reach c ->
  exists lo li, BP.reach (obuf c, ibuf c) (lo, li).
Proof. intros Hr. exact (proj2 (c_reach_abs c Hr)). Qed.

(* ---- instances of the transfer principle ------------------------------------------------- *)
(* C01_outbound_stream_trace on the real buffers: what the peer read, followed by the readable
   bytes of outputBuffer_, is the in-order concatenation of the blocks of the history *)
Theorem c_outbound_stream mark wc hw ops c e : forallb cop_wf ops = true ->
  c_run (c_init mark wc hw) ops = Ok (c, e) ->
  wire (ctl c) ++ B.readable (obuf c) =
  flat_map step_block (trace (init mark wc hw) (abs_ops (c_init mark wc hw) ops)).
Proof.
  intros Hwf H. pose proof (c_run_refines ops _ (c_init_ok mark wc hw) Hwf) as Hr.
  rewrite H, abs_c_init in Hr. destruct Hr as [Hr _].
  exact (outbound_trace _ _ _ _ _ _ Hr).
Qed.

(* what the readFd of one concrete op delivers *)
Definition c_read_of (c : cconn) (o : cop) : list byte :=
  match o with CRead k => B.delivered (B.readFd_capacity (ibuf c)) k | _ => [] end.

Fixpoint c_reads (c : cconn) (ops : list cop) : list byte :=
  match ops with
  | [] => []
  | o :: rest => c_read_of c o ++ match c_step c o with Ok (c', _) => c_reads c' rest | _ => [] end
  end.

Definition c_is_read (c : cconn) (o : cop) : bool :=
  match o with CRead k => 0 <? length (B.delivered (B.readFd_capacity (ibuf c)) k) | _ => false end.

Fixpoint c_nreads (c : cconn) (ops : list cop) : nat :=
  match ops with
  | [] => 0
  | o :: rest => (if c_is_read c o then 1 else 0) +
                 match c_step c o with Ok (c', _) => c_nreads c' rest | _ => 0 end
  end.

Lemma read_of_abs_op c o : cop_wf o = true ->
  read_of (abs_op c o) = c_read_of c o /\ is_read (abs_op c o) = c_is_read c o.
Proof.
  destruct o as [o|k|]; cbn [cop_wf abs_op c_read_of c_is_read].
  - destruct o; cbn [is_read_ev negb read_of is_read]; intros; try discriminate; auto.
  - intros _. destruct k as [avail|e]; cbn [B.delivered]; [|cbn; auto].
    destruct (firstn (B.readFd_capacity (ibuf c)) avail); cbn; auto.
  - auto.
Qed.

Lemma abs_ops_reads ops : forall c, forallb cop_wf ops = true ->
  flat_map read_of (abs_ops c ops) = c_reads c ops /\
  length (filter is_read (abs_ops c ops)) = c_nreads c ops.
Proof.
  induction ops as [|o rest IH]; intros c Hwf; [split; reflexivity|].
  cbn [forallb] in Hwf. apply andb_true_iff in Hwf as [Hwo Hwr].
  cbn [abs_ops flat_map c_reads c_nreads filter]. destruct (read_of_abs_op c o Hwo) as [-> ->].
  destruct (c_step c o) as [[c1 e1]| |].
  - destruct (IH c1 Hwr) as [-> <-]. split; [reflexivity|]. destruct (c_is_read c o); reflexivity.
  - split; [reflexivity|]. destruct (c_is_read c o); reflexivity.
  - split; [reflexivity|]. destruct (c_is_read c o); reflexivity.
Qed.

(* C01_inbound_stream_trace on the real buffers: what the user consumed, followed by the
   readable bytes of inputBuffer_, is the concatenation over the handleReads of the history of
   what readFd delivered - each time the first readFd_capacity bytes of what the descriptor had
   ready; one message callback per non-empty delivery *)
Theorem c_inbound_stream mark wc hw ops c e : forallb cop_wf ops = true ->
  c_run (c_init mark wc hw) ops = Ok (c, e) ->
  consumed (ctl c) ++ B.readable (ibuf c) = c_reads (c_init mark wc hw) ops /\
  length (filter is_msg e) = c_nreads (c_init mark wc hw) ops.
Proof.
  intros Hwf H. pose proof (c_run_refines ops _ (c_init_ok mark wc hw) Hwf) as Hr.
  rewrite H, abs_c_init in Hr. destruct Hr as [Hr _].
  destruct (inbound_trace _ _ _ _ _ _ Hr) as [H1 H2].
  destruct (abs_ops_reads ops (c_init mark wc hw) Hwf) as [E1 E2].
  rewrite E1 in H1. rewrite E2 in H2. auto.
Qed.

(* C01_write_interest_iff_backlog on the real buffer *)
Theorem c_write_interest c : c_reach c ->
  st (ctl c) = Connected \/ st (ctl c) = Disconnecting ->
  (writing (ctl c) = true <-> B.readableBytes (obuf c) <> 0).
Proof.
  intros Hr Hup. destruct (c_reach_abs c Hr) as [Ha Hb].
  pose proof (P01_write_interest (abs c) Ha Hup) as H. cbn [abs with_bufs writing outb] in H.
  rewrite (buf_len _ _ _ _ (bufs_ok_readable c Hb)).
  rewrite H. destruct (B.readable (obuf c)); cbn [length]; split; intros; try congruence; lia.
Qed.

(* the cheap-prepend area of both buffers of a connection is intact (C10_cheap_prepend with no
   prepend in the history is not needed: TcpConnection never prepends, but user code may, so
   only the general statement is transferred) *)
Theorem c_buffers_sizes c : c_reach c ->
  B.readableBytes (obuf c) = length (B.readable (obuf c)) /\
  B.readableBytes (ibuf c) = length (B.readable (ibuf c)) /\
  B.prependableBytes (obuf c) + B.readableBytes (obuf c) + B.writableBytes (obuf c) = length (B.store (obuf c)) /\
  B.prependableBytes (ibuf c) + B.readableBytes (ibuf c) + B.writableBytes (ibuf c) = length (B.store (ibuf c)).
Proof.
  intros Hr. destruct (c_reach_abs c Hr) as [_ Hb]. pose proof (bufs_ok_readable c Hb) as H.
  pose proof (reach_swap _ _ _ _ H) as H'.
  destruct (BP.sizes_consistent _ _ H) as (_ & _ & H3 & H4).
  destruct (BP.sizes_consistent _ _ H') as (_ & _ & H3' & H4').
  cbn [fst] in *. auto.
Qed.

(* ========================================================================================== *)
(* 8. The dead list fields of the control part stay empty                                       *)
(* ========================================================================================== *)
Definition blank (a : conn) : Prop := outb a = [] /\ inb a = [].

Lemma step_blank a o a' e : nonbuf a o = true -> blank a -> step a o = Ok (a', e) -> blank a'.
Proof.
  intros Hn [Ho Hi] Hs. pose proof (step_frame a [] [] o Hn) as Hf.
  assert (Ea : with_bufs a [] [] = a) by (destruct a; cbn in *; subst; reflexivity).
  rewrite Ea, Hs in Hf. cbn [res_map] in Hf.
  assert (E : a' = with_bufs a' [] []) by congruence. rewrite E. split; reflexivity.
Qed.

Lemma c_step_blank c o c' e : blank (ctl c) -> c_step c o = Ok (c', e) -> blank (ctl c').
Proof.
  intros Hbl Hs. destruct o as [o|k|].
  - destruct (nonbuf (ctl c) o) eqn:Hn.
    + assert (E : c_step c (COp o) = lift c (step (ctl c) o)).
      { unfold c_step. destruct (user_op o && cstate_eqb (st (ctl c)) Connecting) eqn:Eg.
        - unfold step. rewrite Eg. reflexivity.
        - destruct o; try discriminate; try reflexivity.
          cbn [nonbuf] in Hn. destruct (pending (ctl c)) as [|[] ?]; try discriminate; reflexivity. }
      rewrite E in Hs. destruct (step (ctl c) o) as [[a1 e1]| |] eqn:Es; cbn [lift] in Hs; try discriminate.
      injection Hs as <- _. cbn [ctl]. exact (step_blank _ _ _ _ Hn Hbl Es).
    + unfold c_step in Hs. destruct (user_op o && cstate_eqb (st (ctl c)) Connecting); [discriminate|].
      destruct o; try discriminate.
      * (* Send *)
        destruct (cstate_eqb (st (ctl c)) Connected); [|injection Hs as <- _; exact Hbl].
        unfold c_sendInLoop in Hs. destruct (cstate_eqb (st (ctl c)) Disconnected); [injection Hs as <- _; exact Hbl|].
        repeat match type of Hs with
               | context [match ?X with pair _ _ => _ end] => destruct X
               end.
        match type of Hs with context [match ?X with B.Ok _ => _ | _ => _ end] => destruct X end;
          try discriminate. injection Hs as <- _. split; reflexivity.
      * (* RunOne / FSend *)
        cbn [nonbuf] in Hn. destruct (pending (ctl c)) as [|f rest]; [discriminate|].
        destruct f; try discriminate.
        unfold c_sendInLoop in Hs. cbn [ctl obuf ibuf set_pending st] in Hs.
        destruct (cstate_eqb (st (ctl c)) Disconnected).
        { injection Hs as <- _. cbn. exact Hbl. }
        repeat match type of Hs with
               | context [match ?X with pair _ _ => _ end] => destruct X
               end.
        match type of Hs with context [match ?X with B.Ok _ => _ | _ => _ end] => destruct X end;
          try discriminate. injection Hs as <- _. split; reflexivity.
      * (* EvWritable *)
        destruct (registered (ctl c)); [|discriminate].
        unfold c_handleWrite in Hs. destruct (writing (ctl c)); [|injection Hs as <- _; exact Hbl].
        destruct (B.toStringPiece (obuf c)); try discriminate.
        destruct (taken _ _); [|injection Hs as <- _; exact Hbl].
        destruct (0 <? n); [|injection Hs as <- _; exact Hbl].
        destruct (B.retrieve n (obuf c)) as [b| |]; try discriminate.
        destruct (B.readableBytes b =? 0); cbn [andb] in Hs.
        -- destruct (cstate_eqb (st (ctl c)) Disconnecting);
             [unfold shutdownInLoop in Hs; cbn [writing] in Hs|];
             injection Hs as <- _; split; reflexivity.
        -- injection Hs as <- _; split; reflexivity.
      * (* Retrieve *)
        destruct (B.retrieve n (ibuf c)); try discriminate. injection Hs as <- _. split; reflexivity.
  - unfold c_step in Hs. destruct (rd_chan (ctl c) && registered (ctl c)); [|discriminate].
    unfold c_handleRead in Hs. destruct (B.readFd k (ibuf c)) as [[ib' r]| |]; try discriminate.
    destruct (0 <? B.rf_n r)%Z; [injection Hs as <- _; split; reflexivity|].
    destruct (B.rf_n r =? 0)%Z; [|injection Hs as <- _; exact Hbl].
    unfold handleCloseChecked, handleClose in Hs. destruct (closable (ctl c)); try discriminate.
    injection Hs as <- _. exact Hbl.
  - unfold c_step in Hs. destruct (cstate_eqb (st (ctl c)) Connecting); [discriminate|].
    injection Hs as <- _. split; reflexivity.
Qed.

Lemma c_reach_blank c : c_reach c -> blank (ctl c).
Proof.
  induction 1 as [mark wc hw|c o c' e _ IH _ Hs]; [split; reflexivity|].
  exact (c_step_blank _ _ _ _ IH Hs).
Qed.

(* ========================================================================================== *)
(* 9. Statements shaped for the property files (Properties_C01 / Properties_C13)                *)
(* ========================================================================================== *)
(* both stream theorems of C01 at once, on the real buffers *)
Theorem c_streams mark wc hw ops c e : forallb cop_wf ops = true ->
  c_run (c_init mark wc hw) ops = Ok (c, e) ->
  wire (ctl c) ++ B.readable (obuf c) =
    flat_map step_block (trace (init mark wc hw) (abs_ops (c_init mark wc hw) ops)) /\
  consumed (ctl c) ++ B.readable (ibuf c) = c_reads (c_init mark wc hw) ops /\
  length (filter is_msg e) = c_nreads (c_init mark wc hw) ops.
Proof.
  intros Hwf H. split; [exact (c_outbound_stream mark wc hw ops c e Hwf H)|].
  exact (c_inbound_stream mark wc hw ops c e Hwf H).
Qed.

(* the backlog Conn_Model / C13 talk about is outputBuffer_.readableBytes() *)
Lemma abs_backlog c : bufs_ok c ->
  length (outb (abs c)) = B.readableBytes (obuf c) /\ length (inb (abs c)) = B.readableBytes (ibuf c).
Proof.
  intros Hb. pose proof (bufs_ok_readable c Hb) as H. cbn [abs with_bufs outb inb].
  rewrite (buf_len _ _ _ _ H), (buf_len _ _ _ _ (reach_swap _ _ _ _ H)). auto.
Qed.

(* C13_hwm_iff_crossing on the real buffer: a sendInLoop queues the high-water-mark callback iff
   it is installed and outputBuffer_.readableBytes() rises from below the mark to at or above it,
   and the callback's argument is the new readableBytes() *)
Theorem c_hwm_crossing c o c' e : bufs_ok c -> cop_wf o = true -> c_step c o = Ok (c', e) ->
  forall d k p, send_of (abs c) (abs_op c o) = Some (d, k, p) ->
  forall n, pending (ctl c') = p ++ [FHighWater n] <->
    has_hwm (ctl c) = true /\
    (N.of_nat (B.readableBytes (obuf c)) < hwm (ctl c) <= N.of_nat (B.readableBytes (obuf c')))%N /\
    n = B.readableBytes (obuf c').
Proof.
  intros Hb Hwf Hs d k p Hso n. pose proof (c_step_refines c o Hb Hwf) as H. rewrite Hs in H.
  destruct H as [Hst Hb'].
  destruct (P13_hwm_iff_crossing _ _ _ _ Hst) as [Hx _]. destruct (Hx d k p Hso) as [Hiff _].
  specialize (Hiff n). destruct (abs_backlog c Hb) as [<- _]. destruct (abs_backlog c' Hb') as [<- _].
  exact Hiff.
Qed.

(* the definitions, as equations (quoted next to the theorems that use them) *)
Lemma c_init_unfold mark wc hw :
  c_init mark wc hw = mkCC (init mark wc hw) (B.new_buf B.kInitialSize) (B.new_buf B.kInitialSize).
Proof. reflexivity. Qed.

Lemma abs_unfold c :
  abs c = mkConn (st (ctl c)) (B.readable (obuf c)) (B.readable (ibuf c)) (writing (ctl c)) (rd_chan (ctl c))
                 (rd_flag (ctl c)) (registered (ctl c)) (hwm (ctl c)) (has_wc (ctl c)) (has_hwm (ctl c))
                 (wire (ctl c)) (fin (ctl c)) (pending (ctl c)) (chk (ctl c)) (delayed (ctl c))
                 (accepted (ctl c)) (consumed (ctl c)) (delivered (ctl c)) (enq (ctl c)) (ran (ctl c))
                 (ups (ctl c)) (downs (ctl c)).
Proof. reflexivity. Qed.

Lemma abs_op_unfold c o :
  abs_op c o = match o with
               | COp o => o
               | CRead (B.KData avail) =>
                   if 0 <? length (firstn (B.readFd_capacity (ibuf c)) avail)
                   then EvReadData (firstn (B.readFd_capacity (ibuf c)) avail) else EvReadEOF
               | CRead (B.KErr _) => EvReadErr
               | CRetrieveAll => Retrieve (B.readableBytes (ibuf c))
               end.
Proof. destruct o as [o|[avail|z]|]; reflexivity. Qed.

Lemma abs_ops_unfold c ops :
  abs_ops c ops = match ops with
                  | [] => []
                  | o :: rest => abs_op c o :: match c_step c o with Ok (c', _) => abs_ops c' rest | _ => [] end
                  end.
Proof. destruct ops; reflexivity. Qed.

Lemma bufs_ok_unfold c : bufs_ok c <-> exists lo li, BP.reach (obuf c, ibuf c) (lo, li).
Proof. reflexivity. Qed.

Lemma cop_wf_unfold o :
  cop_wf o = match o with COp (EvReadData _) | COp EvReadEOF | COp EvReadErr => false | _ => true end.
Proof. destruct o as [[]| |]; reflexivity. Qed.

Lemma c_run_unfold c ops :
  c_run c ops = match ops with
                | [] => Ok (c, [])
                | o :: rest =>
                    match c_step c o with
                    | Ok (c1, e1) => match c_run c1 rest with
                                     | Ok (c2, e2) => Ok (c2, e1 ++ e2)
                                     | Rejected => Rejected
                                     | Fault => Fault
                                     end
                    | Rejected => Rejected
                    | Fault => Fault
                    end
                end.
Proof. destruct ops; reflexivity. Qed.

Lemma c_reach_unfold c : c_reach c <->
  (exists mark wc hw, c = c_init mark wc hw) \/
  (exists c0 o e, c_reach c0 /\ cop_wf o = true /\ c_step c0 o = Ok (c, e)).
Proof.
  split.
  - intros [mark wc hw|c0 o c' e H1 H2 H3]; [left; eauto|right; eauto 6].
  - intros [(mark & wc & hw & ->)|(c0 & o & e & H1 & H2 & H3)]; [constructor|econstructor; eauto].
Qed.

Lemma fits_conc_op_unfold c o :
  fits c o = (match o with EvReadData d => length d <=? B.readFd_capacity (ibuf c) | _ => true end) /\
  conc_op o = (match o with
               | EvReadData d => CRead (B.KData d)
               | EvReadEOF => CRead (B.KData [])
               | EvReadErr => CRead (B.KErr 0%Z)
               | o => COp o
               end).
Proof. split; destruct o; reflexivity. Qed.

(* the concrete machine's functions, as equations (bodies copied from Link_ConnBuf_Model.v) *)
Lemma lift_unfold c r :
  lift c r =
  match r with
  | Ok (a', e) => Ok (mkCC a' (obuf c) (ibuf c), e)
  | Rejected => Rejected
  | Fault => Fault
  end.
Proof. reflexivity. Qed.

Lemma c_sendInLoop_unfold c d k :
  c_sendInLoop c d k =
  let a := ctl c in
  if cstate_eqb (st a) Disconnected then Ok (c, [EvGiveUp]) else            (* :145-149 *)
  let oldLen := B.readableBytes (obuf c) in                                  (* :151 and :179 *)
  let direct := negb (writing a) && (oldLen =? 0) in                         (* :151 *)
  let '(nwrote, fatal, wrote_ok) :=
    if direct then
      match effective a k with                                               (* :153 write(fd, data, len) *)
      | Err e => (0, is_fatal e, false)
      | k' => (match taken k' (length d) with Some n => n | None => 0 end, false, true)
      end
    else (0, false, false) in
  let remaining := length d - nwrote in                                      (* :156 *)
  let p1 := if wrote_ok && (remaining =? 0) && has_wc a
            then pending a ++ [FWriteComplete] else pending a in             (* :157-160 *)
  let queue := negb fatal && (0 <? remaining) in                             (* :177 *)
  let p2 := if queue && (hwm a <=? N.of_nat (oldLen + remaining))%N && (N.of_nat oldLen <? hwm a)%N && has_hwm a
            then p1 ++ [FHighWater (oldLen + remaining)] else p1 in          (* :180-185 *)
  match (if queue then B.append (skipn nwrote d) (obuf c) else B.Ok (obuf c)) with   (* :186 *)
  | B.Ok ob' =>
      Ok (mkCC (mkConn (st a) [] [] (if queue then true else writing a)      (* :187-190 *)
                       (rd_chan a) (rd_flag a) (registered a) (hwm a) (has_wc a) (has_hwm a)
                       (wire a ++ firstn nwrote d) (fin a) p2 (chk a) (delayed a)
                       (if fatal then accepted a else accepted a ++ d)
                       (consumed a) (delivered a) (enq a) (ran a) (ups a) (downs a))
               ob' (ibuf c),
          if direct then match effective a k with Err EAGAIN => [] | Err _ => [EvErrorLogged] | _ => [] end else [])
  | _ => Fault
  end.
Proof. reflexivity. Qed.

Lemma c_handleWrite_unfold c k :
  c_handleWrite c k =
  let a := ctl c in
  if writing a then                                                          (* :371 *)
    match B.toStringPiece (obuf c) with                                      (* :374-375 peek(), readableBytes() *)
    | B.Ok data =>
        match taken (effective a k) (length data) with                       (* :373 write() *)
        | Some n' =>
            if 0 <? n' then                                                  (* :376 *)
              match B.retrieve n' (obuf c) with                              (* :378 *)
              | B.Ok ob' =>
                  let empty := B.readableBytes ob' =? 0 in                   (* :379 *)
                  let a1 := mkConn (st a) [] [] (if empty then false else true)      (* :381 *)
                                   (rd_chan a) (rd_flag a) (registered a) (hwm a) (has_wc a) (has_hwm a)
                                   (wire a ++ firstn n' data) (fin a)
                                   (if empty && has_wc a then pending a ++ [FWriteComplete] else pending a)  (* :382-385 *)
                                   (chk a) (delayed a) (accepted a) (consumed a) (delivered a) (enq a) (ran a)
                                   (ups a) (downs a) in
                  let '(a2, evs) := if empty && cstate_eqb (st a) Disconnecting     (* :386-389 *)
                                    then shutdownInLoop a1 else (a1, []) in
                  Ok (mkCC a2 ob' (ibuf c), evs)
              | _ => Fault
              end
            else Ok (c, [EvErrorLogged])                                     (* :392-399 *)
        | None => Ok (c, [EvErrorLogged])
        end
    | _ => Fault
    end
  else Ok (c, []).                                                           (* :401-405 *)
Proof. reflexivity. Qed.

Lemma c_handleRead_unfold c k :
  c_handleRead c k =
  let a := ctl c in
  match B.readFd k (ibuf c) with                                             (* :351 *)
  | B.Ok (ib', r) =>
      if (0 <? B.rf_n r)%Z then                                              (* :352 n > 0 *)
        Ok (mkCC (mkConn (st a) [] [] (writing a) (rd_chan a) (rd_flag a) (registered a) (hwm a)
                         (has_wc a) (has_hwm a) (wire a) (fin a) (pending a) (chk a) (delayed a) (accepted a)
                         (consumed a)
                         (delivered a ++ B.delivered (B.readFd_capacity (ibuf c)) k)   (* ghost *)
                         (enq a) (ran a) (ups a) (downs a))
                 (obuf c) ib',
            [EvMsg (B.readableBytes ib')])                                   (* :354 *)
      else if (B.rf_n r =? 0)%Z then                                         (* :356 n == 0 *)
        match handleCloseChecked a with                                      (* :358 *)
        | Ok (a', e) => Ok (mkCC a' (obuf c) ib', e)
        | Rejected => Rejected
        | Fault => Fault
        end
      else Ok (mkCC a (obuf c) ib', [EvErrorLogged])                         (* :360-365 *)
  | _ => Fault
  end.
Proof. reflexivity. Qed.

Lemma c_add_ran_unfold a t d :
  c_add_ran a t d =
  mkConn (st a) (outb a) (inb a) (writing a) (rd_chan a) (rd_flag a) (registered a) (hwm a)
         (has_wc a) (has_hwm a) (wire a) (fin a) (pending a) (chk a) (delayed a)
         (accepted a) (consumed a) (delivered a) (enq a) (ran a ++ [(t, d)]) (ups a) (downs a).
Proof. reflexivity. Qed.

Lemma c_step_unfold c o :
  c_step c o =
  let a := ctl c in
  match o with
  | CRead k =>
      if rd_chan a && registered a then c_handleRead c k else Rejected
  | CRetrieveAll =>
      if cstate_eqb (st a) Connecting then Rejected else
      Ok (mkCC (mkConn (st a) [] [] (writing a) (rd_chan a) (rd_flag a) (registered a) (hwm a)
                       (has_wc a) (has_hwm a) (wire a) (fin a) (pending a) (chk a) (delayed a) (accepted a)
                       (consumed a ++ B.readable (ibuf c))                   (* ghost *)
                       (delivered a) (enq a) (ran a) (ups a) (downs a))
               (obuf c) (B.retrieveAll (ibuf c)), [])
  | COp o =>
      if user_op o && cstate_eqb (st a) Connecting then Rejected else
      match o with
      | Send d k =>                                                          (* TcpConnection.cc:92-99 *)
          if cstate_eqb (st a) Connected then c_sendInLoop c d k else Ok (c, [])
      | RunOne k =>
          match pending a with
          | FSend t d :: rest =>                                             (* the bound sendInLoop, :102-106 *)
              match c_sendInLoop (mkCC (set_pending a rest) (obuf c) (ibuf c)) d k with
              | Ok (c1, evs) => Ok (mkCC (c_add_ran (ctl c1) t d) (obuf c1) (ibuf c1), evs)
              | Rejected => Rejected
              | Fault => Fault
              end
          | _ => lift c (step a (RunOne k))
          end
      | EvWritable k => if registered a then c_handleWrite c k else Rejected
      | EvReadData _ | EvReadEOF | EvReadErr => Rejected                     (* use CRead *)
      | Retrieve n =>
          match B.retrieve n (ibuf c) with                                   (* Buffer.h:113-124 *)
          | B.Ok ib' =>
              Ok (mkCC (mkConn (st a) [] [] (writing a) (rd_chan a) (rd_flag a) (registered a) (hwm a)
                               (has_wc a) (has_hwm a) (wire a) (fin a) (pending a) (chk a) (delayed a) (accepted a)
                               (consumed a ++ firstn n (B.readable (ibuf c)))   (* ghost *)
                               (delivered a) (enq a) (ran a) (ups a) (downs a))
                       (obuf c) ib', [])
          | B.Rejected => Rejected                                           (* assert(len <= readableBytes()) *)
          | B.Fault => Fault
          end
      | _ => lift c (step a o)
      end
  end.
Proof. reflexivity. Qed.

Lemma c_reads_unfold c ops :
  c_reads c ops = (match ops with
                   | [] => []
                   | o :: rest =>
                       (match o with CRead k => B.delivered (B.readFd_capacity (ibuf c)) k | _ => [] end)
                       ++ match c_step c o with Ok (c', _) => c_reads c' rest | _ => [] end
                   end) /\
  c_nreads c ops = (match ops with
                    | [] => 0
                    | o :: rest =>
                        (if match o with
                            | CRead k => 0 <? length (B.delivered (B.readFd_capacity (ibuf c)) k)
                            | _ => false
                            end then 1 else 0) +
                        match c_step c o with Ok (c', _) => c_nreads c' rest | _ => 0 end
                    end).
Proof. destruct ops as [|o rest]; split; reflexivity. Qed.
