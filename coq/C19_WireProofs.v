(* C19_WireProofs: parse/serialise round trip of the RpcMessage wire format (C19_Wire), and what it
   means for two channels talking to each other: the frame one channel sends is the label the other
   channel takes. *)
From Coq Require Import List ZArith Bool Arith Lia.
From Coq.Strings Require Import Byte.
From Muduo Require Import Base_Bytes C19_Model C19_Wire.
Import ListNotations.
Local Open Scope Z_scope.

(* ------------------------------------------------------------------ varints *)
Lemma varint_dec_enc k : forall n x r,
  0 <= x < 128 ^ Z.of_nat (S k) -> (S k <= n)%nat ->
  varint_dec (S k) (varint_enc n x ++ r) = Some (x, r).
Proof.
  induction k as [|k IH]; intros n x r Hx Hn; (destruct n as [|n]; [lia|]); cbn [varint_enc].
  - change (128 ^ Z.of_nat 1) with 128 in Hx. destruct (x <? 128) eqn:E; [|apply Z.ltb_ge in E; lia].
    cbn [app varint_dec]. rewrite Z_of_byte_of_Z by lia. rewrite E. reflexivity.
  - destruct (x <? 128) eqn:E.
    + cbn [app varint_dec]. apply Z.ltb_lt in E. rewrite Z_of_byte_of_Z by lia.
      destruct (x <? 128) eqn:E'; [reflexivity|apply Z.ltb_ge in E'; lia].
    + apply Z.ltb_ge in E. cbn [app]. change (varint_dec (S (S k)) (byte_of_Z (x mod 128 + 128) :: varint_enc n (x / 128) ++ r))
        with (let v := Z_of_byte (byte_of_Z (x mod 128 + 128)) in
              if v <? 128 then Some (v, varint_enc n (x / 128) ++ r)
              else match varint_dec (S k) (varint_enc n (x / 128) ++ r) with
                   | Some (hi, r') => Some (v - 128 + 128 * hi, r') | None => None end).
      pose proof (Z.mod_pos_bound x 128 ltac:(lia)) as Hm.
      rewrite Z_of_byte_of_Z by lia. cbn zeta.
      destruct (x mod 128 + 128 <? 128) eqn:E2; [apply Z.ltb_lt in E2; lia|].
      rewrite IH.
      * f_equal. f_equal. pose proof (Z.div_mod x 128 ltac:(lia)). lia.
      * replace (Z.of_nat (S (S k))) with (Z.of_nat (S k) + 1) in Hx by lia.
        rewrite Z.pow_add_r in Hx by lia. change (128 ^ 1) with 128 in Hx.
        split; [apply Z.div_pos; lia|]. apply Z.div_lt_upper_bound; lia.
      * lia.
Qed.

Lemma varint_small x r k : 0 <= x < 128 -> varint_dec (S k) (varint x ++ r) = Some (x, r).
Proof.
  intros Hx. unfold varint. cbn [varint_enc]. destruct (x <? 128) eqn:E; [|apply Z.ltb_ge in E; lia].
  cbn [app varint_dec]. rewrite Z_of_byte_of_Z by lia. rewrite E. reflexivity.
Qed.

Lemma varint_nonempty x : exists b t, varint x = b :: t.
Proof. unfold varint. cbn [varint_enc]. destruct (x <? 128); eauto. Qed.

(* ------------------------------------------------------------------ fixed64 *)
Lemma le64_length x : length (le64 x) = 8%nat.
Proof. unfold le64. rewrite rev_length. apply be_encode_length. Qed.

Lemma split_at (l r : bytes) n : length l = n -> firstn n (l ++ r) = l /\ skipn n (l ++ r) = r.
Proof.
  intros Hl. split.
  - rewrite firstn_app, Hl, Nat.sub_diag, firstn_all2 by lia. cbn [firstn]. apply app_nil_r.
  - rewrite skipn_app, Hl, Nat.sub_diag, skipn_all2 by lia. reflexivity.
Qed.

Lemma le64_dec_enc x r : 0 <= x < 18446744073709551616 -> le64_dec (le64 x ++ r) = Some (x, r).
Proof.
  intros Hx. unfold le64_dec. rewrite app_length, le64_length.
  destruct (8 + length r <? 8)%nat eqn:E; [apply Nat.ltb_lt in E; lia|].
  destruct (split_at (le64 x) r 8 (le64_length x)) as [-> ->].
  unfold le64. rewrite rev_involutive, be_decode_encode.
  change (256 ^ Z.of_nat 8) with 18446744073709551616. rewrite Z.mod_small by lia. reflexivity.
Qed.

(* ------------------------------------------------------------------ length-delimited *)
Lemma read_len_enc b r :
  Z.of_nat (length b) < 2147483632 ->
  read_len (varint (Z.of_nat (length b)) ++ b ++ r) = Some (b, r).
Proof.
  intros Hl. unfold read_len, varint.
  rewrite (varint_dec_enc 4 10) by (change (128 ^ Z.of_nat 5) with 34359738368; lia).
  destruct (Z.of_nat (length b) <? 2147483632) eqn:E1; [|apply Z.ltb_ge in E1; lia].
  rewrite app_length. destruct (Z.of_nat (length b) <=? Z.of_nat (length b + length r)) eqn:E2; [|apply Z.leb_gt in E2; lia].
  cbn [andb]. rewrite Nat2Z.id.
  destruct (split_at b r (length b) eq_refl) as [-> ->]. reflexivity.
Qed.

(* ------------------------------------------------------------------ canonical fields *)
Inductive field :=
| FType (t : mtype)
| FId (i : Z)
| FService (b : bytes) | FMethod (b : bytes) | FRequest (b : bytes) | FResponse (b : bytes)
| FErr (e : errcode).

Definition ser_field (f : field) : bytes :=
  match f with
  | FType t => key 1 0 ++ varint (mtype_num t)
  | FId i => key 2 1 ++ le64 i
  | FService b => ser_len 3 b
  | FMethod b => ser_len 4 b
  | FRequest b => ser_len 5 b
  | FResponse b => ser_len 6 b
  | FErr e => key 7 0 ++ varint (errnum e)
  end.

Definition wf_field (f : field) : Prop :=
  match f with
  | FId i => 0 <= i < 18446744073709551616
  | FService b | FMethod b | FRequest b | FResponse b => Z.of_nat (length b) < 2147483632
  | _ => True
  end.

Definition apply_field (p : pmsg) (f : field) : pmsg :=
  match f with
  | FType t => mkP (Some t) (p_id p) (p_service p) (p_method p) (p_request p) (p_response p) (p_error p)
  | FId i => mkP (p_type p) (Some i) (p_service p) (p_method p) (p_request p) (p_response p) (p_error p)
  | FService b => mkP (p_type p) (p_id p) (Some b) (p_method p) (p_request p) (p_response p) (p_error p)
  | FMethod b => mkP (p_type p) (p_id p) (p_service p) (Some b) (p_request p) (p_response p) (p_error p)
  | FRequest b => mkP (p_type p) (p_id p) (p_service p) (p_method p) (Some b) (p_response p) (p_error p)
  | FResponse b => mkP (p_type p) (p_id p) (p_service p) (p_method p) (p_request p) (Some b) (p_error p)
  | FErr e => mkP (p_type p) (p_id p) (p_service p) (p_method p) (p_request p) (p_response p) (Some e)
  end.

(* the decoder's dispatch once the key byte [k] (< 128) has been read *)
Lemma parse_one_key k tl p :
  0 <= k < 128 ->
  parse_one (byte_of_Z k :: tl) p =
    (let tag := k mod 4294967296 in
     let fnum := tag / 8 in
     let wt := tag mod 8 in
     if (tag =? 0) || (wt =? 4) || (fnum =? 0) then None
     else
       let unknown := match skip_val (S (length tl)) wt fnum tl with Some r' => Some (r', p) | None => None end in
       if (fnum =? 1) && (wt =? 0) then
         match varint_dec 10 tl with
         | Some (v, r') =>
             Some (r', match mtype_of_num (trunc32 v) with
                       | Some t => mkP (Some t) (p_id p) (p_service p) (p_method p) (p_request p) (p_response p) (p_error p)
                       | None => p end)
         | None => None end
       else if (fnum =? 2) && (wt =? 1) then
         match le64_dec tl with
         | Some (i, r') => Some (r', mkP (p_type p) (Some i) (p_service p) (p_method p) (p_request p) (p_response p) (p_error p))
         | None => None end
       else if (fnum =? 3) && (wt =? 2) then
         match read_len tl with
         | Some (b, r') => Some (r', mkP (p_type p) (p_id p) (Some b) (p_method p) (p_request p) (p_response p) (p_error p))
         | None => None end
       else if (fnum =? 4) && (wt =? 2) then
         match read_len tl with
         | Some (b, r') => Some (r', mkP (p_type p) (p_id p) (p_service p) (Some b) (p_request p) (p_response p) (p_error p))
         | None => None end
       else if (fnum =? 5) && (wt =? 2) then
         match read_len tl with
         | Some (b, r') => Some (r', mkP (p_type p) (p_id p) (p_service p) (p_method p) (Some b) (p_response p) (p_error p))
         | None => None end
       else if (fnum =? 6) && (wt =? 2) then
         match read_len tl with
         | Some (b, r') => Some (r', mkP (p_type p) (p_id p) (p_service p) (p_method p) (p_request p) (Some b) (p_error p))
         | None => None end
       else if (fnum =? 7) && (wt =? 0) then
         match varint_dec 10 tl with
         | Some (v, r') =>
             Some (r', match err_of_num (trunc32 v) with
                       | Some e => mkP (p_type p) (p_id p) (p_service p) (p_method p) (p_request p) (p_response p) (Some e)
                       | None => p end)
         | None => None end
       else unknown).
Proof.
  intros Hk. unfold parse_one. cbn [varint_dec]. rewrite Z_of_byte_of_Z by lia.
  destruct (k <? 128) eqn:E; [reflexivity|apply Z.ltb_ge in E; lia].
Qed.

Lemma key_byte f wt : 0 <= f * 8 + wt < 128 -> key f wt = [byte_of_Z (f * 8 + wt)].
Proof.
  intros H. unfold key, varint. cbn [varint_enc]. destruct (f * 8 + wt <? 128) eqn:E; [reflexivity|apply Z.ltb_ge in E; lia].
Qed.

Lemma parse_one_field f rest p :
  wf_field f -> parse_one (ser_field f ++ rest) p = Some (rest, apply_field p f).
Proof.
  intros Hw. destruct f as [t|i|b|b|b|b|e]; cbn [ser_field apply_field]; unfold ser_len.
  - rewrite <- !app_assoc. rewrite (key_byte 1 0) by lia. cbn [app]. rewrite parse_one_key by lia.
    change (1 * 8 + 0) with 8. cbv zeta. change (8 mod 4294967296) with 8. change (8 / 8) with 1. change (8 mod 8) with 0.
    cbn [Z.eqb orb andb Pos.eqb].
    rewrite (varint_small (mtype_num t) rest 9) by (destruct t; cbn; lia).
    destruct t; reflexivity.
  - rewrite <- !app_assoc. rewrite (key_byte 2 1) by lia. cbn [app]. rewrite parse_one_key by lia.
    change (2 * 8 + 1) with 17. cbv zeta. change (17 mod 4294967296) with 17. change (17 / 8) with 2. change (17 mod 8) with 1.
    cbn [Z.eqb orb andb Pos.eqb]. rewrite le64_dec_enc by exact Hw. reflexivity.
  - rewrite <- !app_assoc. rewrite (key_byte 3 2) by lia. cbn [app]. rewrite parse_one_key by lia.
    change (3 * 8 + 2) with 26. cbv zeta. change (26 mod 4294967296) with 26. change (26 / 8) with 3. change (26 mod 8) with 2.
    cbn [Z.eqb orb andb Pos.eqb]. rewrite read_len_enc by exact Hw. reflexivity.
  - rewrite <- !app_assoc. rewrite (key_byte 4 2) by lia. cbn [app]. rewrite parse_one_key by lia.
    change (4 * 8 + 2) with 34. cbv zeta. change (34 mod 4294967296) with 34. change (34 / 8) with 4. change (34 mod 8) with 2.
    cbn [Z.eqb orb andb Pos.eqb]. rewrite read_len_enc by exact Hw. reflexivity.
  - rewrite <- !app_assoc. rewrite (key_byte 5 2) by lia. cbn [app]. rewrite parse_one_key by lia.
    change (5 * 8 + 2) with 42. cbv zeta. change (42 mod 4294967296) with 42. change (42 / 8) with 5. change (42 mod 8) with 2.
    cbn [Z.eqb orb andb Pos.eqb]. rewrite read_len_enc by exact Hw. reflexivity.
  - rewrite <- !app_assoc. rewrite (key_byte 6 2) by lia. cbn [app]. rewrite parse_one_key by lia.
    change (6 * 8 + 2) with 50. cbv zeta. change (50 mod 4294967296) with 50. change (50 / 8) with 6. change (50 mod 8) with 2.
    cbn [Z.eqb orb andb Pos.eqb]. rewrite read_len_enc by exact Hw. reflexivity.
  - rewrite <- !app_assoc. rewrite (key_byte 7 0) by lia. cbn [app]. rewrite parse_one_key by lia.
    change (7 * 8 + 0) with 56. cbv zeta. change (56 mod 4294967296) with 56. change (56 / 8) with 7. change (56 mod 8) with 0.
    cbn [Z.eqb orb andb Pos.eqb].
    rewrite (varint_small (errnum e) rest 9) by (destruct e; cbn; lia).
    destruct e; reflexivity.
Qed.

Lemma ser_field_nonempty f : exists b t, ser_field f = b :: t.
Proof.
  destruct f as [t|i|b|b|b|b|e]; cbn [ser_field]; unfold ser_len;
    try (rewrite key_byte by lia; cbn [app]; eauto).
Qed.

Definition ser_fields (fs : list field) : bytes := flat_map ser_field fs.

(* any sequence of canonical fields, in any order, repeated or not: the last occurrence wins *)
Lemma parse_canonical_fields fs : forall fuel p,
  Forall wf_field fs -> (length (ser_fields fs) < fuel)%nat ->
  parse_fields fuel (ser_fields fs) p = Some (fold_left apply_field fs p).
Proof.
  induction fs as [|f r IH]; intros fuel p Hw Hf.
  - destruct fuel; [cbn in Hf; lia|]. reflexivity.
  - inversion Hw as [|? ? Hwf Hwr]; subst. destruct fuel as [|fuel]; [lia|].
    unfold ser_fields in *. cbn [flat_map] in *. fold (ser_fields r) in *.
    destruct (ser_field_nonempty f) as (b & t & Hb).
    cbn [parse_fields]. destruct (ser_field f ++ ser_fields r) as [|b0 t0] eqn:E; [rewrite Hb in E; discriminate|].
    rewrite <- E. rewrite parse_one_field by exact Hwf. cbn [fold_left]. apply IH; [exact Hwr|].
    assert (length (ser_field f ++ ser_fields r) = length (b0 :: t0)) as HL by (rewrite E; reflexivity).
    rewrite app_length, Hb in HL. cbn [length] in HL, Hf. lia.
Qed.

(* ------------------------------------------------------------------ the round trip *)
Definition optf {A} (f : A -> field) (o : option A) : list field := match o with Some a => [f a] | None => [] end.

Definition fields_of (m : rpcmsg) : list field :=
  [FType (m_type m); FId (m_id m)] ++ optf FService (m_service m) ++ optf FMethod (m_method m) ++
  optf FRequest (m_request m) ++ optf FResponse (m_response m) ++ optf FErr (m_error m).

Definition wf_bytes (o : option bytes) : Prop := match o with Some b => Z.of_nat (length b) < 2147483632 | None => True end.

Definition wf_msg (m : rpcmsg) : Prop :=
  0 <= m_id m < 18446744073709551616 /\
  wf_bytes (m_service m) /\ wf_bytes (m_method m) /\ wf_bytes (m_request m) /\ wf_bytes (m_response m).

Lemma wire_ser_fields m : wire_ser m = ser_fields (fields_of m).
Proof.
  destruct m as [t i sv me rq rs er]. unfold wire_ser, fields_of, ser_fields. cbn [m_type m_id m_service m_method m_request m_response m_error].
  destruct sv, me, rq, rs, er; cbn [optf ser_opt app flat_map ser_field]; rewrite ?app_nil_r, <- ?app_assoc; reflexivity.
Qed.

Lemma wf_fields_of m : wf_msg m -> Forall wf_field (fields_of m).
Proof.
  destruct m as [t i sv me rq rs er]. intros (Hi & H1 & H2 & H3 & H4). cbn [m_type m_id m_service m_method m_request m_response m_error] in *.
  unfold fields_of. cbn [m_type m_id m_service m_method m_request m_response m_error].
  destruct sv, me, rq, rs, er; cbn [optf app wf_bytes] in *;
    repeat (apply Forall_cons; [cbn [wf_field]; auto|]); apply Forall_nil.
Qed.

Theorem wire_roundtrip m : wf_msg m -> wire_parse (wire_ser m) = Some m.
Proof.
  intros Hw. unfold wire_parse. rewrite wire_ser_fields.
  rewrite parse_canonical_fields by (try apply wf_fields_of; auto).
  destruct m as [t i sv me rq rs er]. unfold fields_of. cbn [m_type m_id m_service m_method m_request m_response m_error].
  destruct sv, me, rq, rs, er; reflexivity.
Qed.

(* fields in any order, some of them twice: what is delivered is the last occurrence of each *)
Theorem wire_any_order fs :
  Forall wf_field fs ->
  wire_parse (ser_fields fs) = finish (fold_left apply_field fs p_empty).
Proof.
  intros Hw. unfold wire_parse. rewrite parse_canonical_fields by auto. reflexivity.
Qed.

(* ------------------------------------------------------------------ two channels *)
Lemma s64_u64 i : -9223372036854775808 <= i < 9223372036854775808 -> s64 (u64 i) = i.
Proof.
  intros Hi. unfold s64, u64. destruct (Z_lt_dec i 0) as [Hn|Hp].
  - replace (i mod 18446744073709551616) with (i + 18446744073709551616).
    + destruct (i + 18446744073709551616 <? 9223372036854775808) eqn:E; [apply Z.ltb_lt in E; lia|lia].
    + symmetry. rewrite <- (Z.mod_small (i + 18446744073709551616) 18446744073709551616) by lia.
      rewrite <- Z.add_mod_idemp_r by lia. rewrite Z.mod_same by lia. rewrite Z.add_0_r. reflexivity.
  - rewrite Z.mod_small by lia. destruct (i <? 9223372036854775808) eqn:E; [reflexivity|apply Z.ltb_ge in E; lia].
Qed.

Lemma u64_range i : 0 <= u64 i < 18446744073709551616.
Proof. unfold u64. apply Z.mod_pos_bound. lia. Qed.

Section Peers.
  Variable wire_of : bytes -> bytes.             (* SerializeAsString of the user's message with content m *)
  Variable content_of : bytes -> payload.        (* what ParseFromString makes of bytes *)
  Hypothesis user_roundtrip : forall m, content_of (wire_of m) = Valid m.

  Definition int64 (i : Z) : Prop := -9223372036854775808 <= i < 9223372036854775808.
  Definition short (b : bytes) : Prop := Z.of_nat (length b) < 2147483632.

  Theorem request_arrives i svc meth req :
    int64 i -> short svc -> short meth -> short (wire_of req) ->
    arrives_as wire_of content_of (ESendRequest i svc meth req) = Some (LRequest (mkReq i svc meth (Valid req))).
  Proof.
    intros Hi Hs Hm Hq. unfold arrives_as. cbn [msg_of_event].
    rewrite wire_roundtrip.
    - unfold label_of_msg. cbn [m_type m_id m_service m_method m_request opt_bytes]. rewrite s64_u64 by exact Hi.
      rewrite user_roundtrip. reflexivity.
    - repeat split; cbn [m_id m_service m_method m_request m_response wf_bytes]; auto; apply u64_range.
  Qed.

  Theorem reply_arrives i m :
    int64 i -> short (wire_of m) ->
    arrives_as wire_of content_of (ESendResponse i (RReply m)) = Some (LResponse i (mkBody (Some (Valid m)) None)).
  Proof.
    intros Hi Hq. unfold arrives_as. cbn [msg_of_event].
    rewrite wire_roundtrip.
    - unfold label_of_msg. cbn [m_type m_id m_response m_error]. rewrite s64_u64 by exact Hi.
      rewrite user_roundtrip. reflexivity.
    - repeat split; cbn [m_id m_service m_method m_request m_response wf_bytes]; auto; apply u64_range.
  Qed.

  Theorem error_reply_arrives i e :
    int64 i ->
    arrives_as wire_of content_of (ESendResponse i (RError e)) = Some (LResponse i (mkBody None (Some e))).
  Proof.
    intros Hi. unfold arrives_as. cbn [msg_of_event].
    rewrite wire_roundtrip.
    - unfold label_of_msg. cbn [m_type m_id m_response m_error]. rewrite s64_u64 by exact Hi. reflexivity.
    - repeat split; cbn [m_id m_service m_method m_request m_response wf_bytes]; auto; apply u64_range.
  Qed.
  Lemma frames_arrive :
    (forall i svc meth req, int64 i -> short svc -> short meth -> short (wire_of req) ->
       arrives_as wire_of content_of (ESendRequest i svc meth req) = Some (LRequest (mkReq i svc meth (Valid req)))) /\
    (forall i m, int64 i -> short (wire_of m) ->
       arrives_as wire_of content_of (ESendResponse i (RReply m)) = Some (LResponse i (mkBody (Some (Valid m)) None))) /\
    (forall i e, int64 i ->
       arrives_as wire_of content_of (ESendResponse i (RError e)) = Some (LResponse i (mkBody None (Some e)))).
  Proof. exact (conj request_arrives (conj reply_arrives error_reply_arrives)). Qed.
End Peers.
