(* C16_NamesProofs: the concrete file-name stamp grows lexicographically with the second. *)
From Coq Require Import List ZArith Bool Arith Lia Sorted.
From Coq.Strings Require Import Byte.
From Muduo Require Import Base_Bytes Gen_C20 C20_Model C20_Proofs Gen_C16 C16_Model C16_Proofs C16_NamesModel.
Import ListNotations.
Local Open Scope Z_scope.

(* ------------------------------------------------------------------ the calendar is monotone *)
Definition feb (y : Z) : Z := if is_leap y then 29 else 28.

Lemma dbm_table y m : 1 <= m <= 13 ->
  days_before_month y m =
  match m with
  | 1 => 0 | 2 => 31 | 3 => 31 + feb y | 4 => 62 + feb y | 5 => 92 + feb y | 6 => 123 + feb y
  | 7 => 153 + feb y | 8 => 184 + feb y | 9 => 215 + feb y | 10 => 245 + feb y | 11 => 276 + feb y
  | 12 => 306 + feb y | _ => 337 + feb y
  end.
Proof.
  intros Hm.
  assert (Hc : m = 1 \/ m = 2 \/ m = 3 \/ m = 4 \/ m = 5 \/ m = 6 \/ m = 7 \/ m = 8 \/ m = 9 \/ m = 10 \/
               m = 11 \/ m = 12 \/ m = 13) by lia.
  unfold feb.
  repeat (destruct Hc as [->|Hc]); try subst m; unfold days_before_month;
    match goal with |- context [Z.to_nat ?e] => let v := eval vm_compute in (Z.to_nat e) in change (Z.to_nat e) with v end;
    cbn [sum_months days_in_month Z.add Pos.add Pos.succ Pos.add_carry]; destruct (is_leap y); reflexivity.
Qed.

Lemma year_len_feb y : year_len y = 337 + feb y.
Proof. unfold year_len, feb. destruct (is_leap y); reflexivity. Qed.

Lemma feb_range y : 28 <= feb y <= 29.
Proof. unfold feb. destruct (is_leap y); lia. Qed.

Lemma valid_date_bounds y m d : valid_date y m d = true ->
  first_year <= y <= last_year /\ 1 <= m <= 12 /\ 1 <= d <= days_in_month y m.
Proof.
  unfold valid_date. rewrite !andb_true_iff, !Z.leb_le. lia.
Qed.

Lemma dim_table y m : 1 <= m <= 12 -> days_before_month y (m + 1) = days_before_month y m + days_in_month y m.
Proof.
  intros Hm.
  assert (Hc : m = 1 \/ m = 2 \/ m = 3 \/ m = 4 \/ m = 5 \/ m = 6 \/ m = 7 \/ m = 8 \/ m = 9 \/ m = 10 \/
               m = 11 \/ m = 12) by lia.
  repeat (destruct Hc as [->|Hc]); try subst m; rewrite !dbm_table by lia; cbn [days_in_month Z.add Pos.add Pos.succ Pos.add_carry];
    unfold feb; destruct (is_leap y); reflexivity.
Qed.

(* the day of the year is below the length of the year *)
Lemma yday_range y m d : valid_date y m d = true ->
  0 <= days_before_month y m + (d - 1) < year_len y.
Proof.
  intros Hv. destruct (valid_date_bounds _ _ _ Hv) as [_ [Hm Hd]].
  pose proof (dim_table y m Hm) as E. pose proof (feb_range y) as Hf.
  assert (H13 : days_before_month y (m + 1) <= 337 + feb y).
  { assert (Hc : m = 1 \/ m = 2 \/ m = 3 \/ m = 4 \/ m = 5 \/ m = 6 \/ m = 7 \/ m = 8 \/ m = 9 \/ m = 10 \/
                 m = 11 \/ m = 12) by lia.
    repeat (destruct Hc as [->|Hc]); try subst m;
      match goal with |- context [days_before_month y (?a + 1)] => let v := eval vm_compute in (a + 1) in change (a + 1) with v end;
      rewrite dbm_table by lia; lia. }
  assert (H0 : 0 <= days_before_month y m).
  { assert (Hc : m = 1 \/ m = 2 \/ m = 3 \/ m = 4 \/ m = 5 \/ m = 6 \/ m = 7 \/ m = 8 \/ m = 9 \/ m = 10 \/
                 m = 11 \/ m = 12) by lia.
    repeat (destruct Hc as [->|Hc]); try subst m; rewrite dbm_table by lia; lia. }
  rewrite year_len_feb. lia.
Qed.

(* a later month starts after every day of an earlier month *)
Lemma month_mono y m m' d : 1 <= m -> m < m' -> m' <= 12 -> 1 <= d <= days_in_month y m ->
  days_before_month y m + (d - 1) < days_before_month y m'.
Proof.
  intros H1 Hlt H12 Hd. pose proof (dim_table y m ltac:(lia)) as E. pose proof (feb_range y) as Hf.
  assert (Hle : days_before_month y (m + 1) <= days_before_month y m').
  { assert (Hc : m = 1 \/ m = 2 \/ m = 3 \/ m = 4 \/ m = 5 \/ m = 6 \/ m = 7 \/ m = 8 \/ m = 9 \/ m = 10 \/ m = 11) by lia.
    assert (Hc' : m' = 2 \/ m' = 3 \/ m' = 4 \/ m' = 5 \/ m' = 6 \/ m' = 7 \/ m' = 8 \/ m' = 9 \/ m' = 10 \/
                  m' = 11 \/ m' = 12) by lia.
    repeat (destruct Hc as [->|Hc]); try subst m;
      match goal with |- context [days_before_month y (?a + 1)] => let v := eval vm_compute in (a + 1) in change (a + 1) with v end;
      repeat (destruct Hc' as [->|Hc']); try subst m'; rewrite !dbm_table by lia; lia. }
  lia.
Qed.

Lemma sum_years_snoc n : forall y0, sum_years y0 (S n) = sum_years y0 n + year_len (y0 + Z.of_nat n).
Proof.
  induction n as [|n IH]; intros y0.
  - cbn [sum_years Z.of_nat]. rewrite !Z.add_0_r. lia.
  - change (sum_years y0 (S (S n))) with (year_len y0 + sum_years (y0 + 1) (S n)).
    rewrite IH. cbn [sum_years]. replace (y0 + 1 + Z.of_nat n) with (y0 + Z.of_nat (S n)) by lia. lia.
Qed.

Lemma dby_succ y : first_year <= y -> days_before_year (y + 1) = days_before_year y + year_len y.
Proof.
  intros Hy. unfold days_before_year.
  replace (Z.to_nat (y + 1 - first_year)) with (S (Z.to_nat (y - first_year))) by lia.
  rewrite sum_years_snoc. f_equal. f_equal. lia.
Qed.

Lemma year_len_pos y : 365 <= year_len y.
Proof. unfold year_len. destruct (is_leap y); lia. Qed.

Lemma dby_mono y1 y2 : first_year <= y1 -> y1 <= y2 -> days_before_year y1 <= days_before_year y2.
Proof.
  intros H1 H2. remember (Z.to_nat (y2 - y1)) as n eqn:En. revert y2 H2 En.
  induction n as [|n IH]; intros y2 H2 En.
  - assert (y2 = y1) by lia. subst. lia.
  - specialize (IH (y2 - 1) ltac:(lia) ltac:(lia)).
    pose proof (dby_succ (y2 - 1) ltac:(lia)) as E. replace (y2 - 1 + 1) with y2 in E by lia.
    pose proof (year_len_pos (y2 - 1)). lia.
Qed.

(* lexicographic order on (year, month, day) and on (h, mi, s) *)
Definition lex3 (a b c a' b' c' : Z) : Prop := a < a' \/ (a = a' /\ (b < b' \/ (b = b' /\ c < c'))).

Lemma greg_mono y m d y' m' d' :
  valid_date y m d = true -> valid_date y' m' d' = true -> lex3 y m d y' m' d' ->
  greg_day_count y m d < greg_day_count y' m' d'.
Proof.
  intros Hv Hv' Hl. destruct (valid_date_bounds _ _ _ Hv) as [Hy [Hm Hd]].
  destruct (valid_date_bounds _ _ _ Hv') as [Hy' [Hm' Hd']]. unfold greg_day_count.
  destruct Hl as [Hlt|[-> Hl]].
  - pose proof (yday_range _ _ _ Hv) as Hr. pose proof (yday_range _ _ _ Hv') as Hr'.
    pose proof (dby_succ y ltac:(lia)) as E. pose proof (dby_mono (y + 1) y' ltac:(unfold first_year in *; lia) ltac:(lia)). lia.
  - destruct Hl as [Hlt|[-> Hl]]; [|lia].
    pose proof (month_mono y' m m' d ltac:(lia) Hlt ltac:(lia) Hd). lia.
Qed.

Lemma lex3_total a b c a' b' c' : lex3 a b c a' b' c' \/ (a, b, c) = (a', b', c') \/ lex3 a' b' c' a b c.
Proof.
  unfold lex3.
  destruct (Z.lt_total a a') as [H|[H|H]]; [left; left; exact H| |right; right; left; exact H]. subst.
  destruct (Z.lt_total b b') as [H|[H|H]];
    [left; right; split; [reflexivity|left; exact H]| |right; right; right; split; [reflexivity|left; exact H]]. subst.
  destruct (Z.lt_total c c') as [H|[H|H]];
    [left; right; split; [reflexivity|right; split; [reflexivity|exact H]]
    |right; left; subst; reflexivity
    |right; right; right; split; [reflexivity|right; split; [reflexivity|exact H]]].
Qed.

(* the date of a later day is lexicographically later *)
Lemma ymd_mono j j' y m d y' m' d' :
  jdn_first <= j -> j < j' -> j' <= jdn_last ->
  getYearMonthDay j = (y, m, d) -> getYearMonthDay j' = (y', m', d') -> lex3 y m d y' m' d'.
Proof.
  intros H1 H2 H3 E E'. destruct matches_gregorian as [_ MG].
  destruct (MG j y m d ltac:(lia) E) as [Hv Hg]. destruct (MG j' y' m' d' ltac:(lia) E') as [Hv' Hg'].
  destruct (lex3_total y m d y' m' d') as [H|[H|H]]; [exact H| |].
  - injection H as -> -> ->. lia.
  - pose proof (greg_mono _ _ _ _ _ _ Hv' Hv H). lia.
Qed.

Lemma hms_mono s s' : 0 <= s -> s < s' -> s' < 86400 ->
  lex3 (s / 3600) ((s / 60) mod 60) (s mod 60) (s' / 3600) ((s' / 60) mod 60) (s' mod 60).
Proof. intros H1 H2 H3. unfold lex3. Z.div_mod_to_equations. lia. Qed.

(* ------------------------------------------------------------------ break_utc, field by field *)
Definition lex6 (a b : DateTime) : Prop :=
  lex3 (year a) (month a) (day a) (year b) (month b) (day b) \/
  ((year a, month a, day a) = (year b, month b, day b) /\
   lex3 (hour a) (minute a) (second a) (hour b) (minute b) (second b)).

Lemma break_utc_fields t :
  break_utc t =
  let s := t mod 86400 in
  let '(y, m, d) := getYearMonthDay (t / 86400 + Date_kJulianDayOf1970_01_01) in
  mkDT y m d (s / 3600) ((s / 60) mod 60) (s mod 60).
Proof.
  unfold break_utc. rewrite BreakTime_spec. cbv zeta.
  destruct (getYearMonthDay (t / 86400 + Date_kJulianDayOf1970_01_01)) as [[y m] d]. reflexivity.
Qed.

Lemma break_utc_mono a b : utc_first <= a -> a < b -> b < utc_end -> lex6 (break_utc a) (break_utc b).
Proof.
  intros H1 H2 H3.
  pose proof (utc_range_days a ltac:(lia)) as Da. pose proof (utc_range_days b ltac:(lia)) as Db.
  rewrite !break_utc_fields. cbv zeta.
  destruct (getYearMonthDay (a / 86400 + Date_kJulianDayOf1970_01_01)) as [[y m] d] eqn:Ea.
  destruct (getYearMonthDay (b / 86400 + Date_kJulianDayOf1970_01_01)) as [[y' m'] d'] eqn:Eb.
  unfold lex6. cbn [year month day hour minute second].
  assert (Hd : a / 86400 < b / 86400 \/ a / 86400 = b / 86400) by (Z.div_mod_to_equations; lia).
  destruct Hd as [Hd|Hd].
  - left. eapply (ymd_mono _ _ _ _ _ _ _ _ _ _ _ Ea Eb). Unshelve. all: lia.
  - right. rewrite Hd in Ea. rewrite Ea in Eb. injection Eb as -> -> ->. split; [reflexivity|].
    apply hms_mono; Z.div_mod_to_equations; lia.
Qed.

(* ------------------------------------------------------------------ fixed-width decimal fields *)
Notation blex := (lex_lt byte byte_lt).

Lemma pad_len k : forall n, length (pad k n) = k.
Proof. induction k as [|k IH]; intros n; cbn [pad]; [reflexivity|]. rewrite app_length, IH. cbn [length]. lia. Qed.

Lemma digit_lt d d' : 0 <= d -> d < d' -> d' < 10 -> byte_lt (digit d) (digit d').
Proof.
  intros H1 H2 H3. unfold byte_lt, digit. rewrite !Z_of_byte_of_Z by lia. lia.
Qed.

(* more digits do not matter: same width, smaller number => lexicographically smaller *)
Lemma pad_mono k : forall n n', 0 <= n -> n < n' -> n' < 10 ^ Z.of_nat k -> blex (pad k n) (pad k n').
Proof.
  induction k as [|k IH]; intros n n' H1 H2 H3.
  - cbn in H3. lia.
  - cbn [pad]. rewrite Nat2Z.inj_succ, Z.pow_succ_r in H3 by lia.
    assert (Hq : n / 10 < n' / 10 \/ (n / 10 = n' / 10 /\ n mod 10 < n' mod 10)) by (Z.div_mod_to_equations; lia).
    destruct Hq as [Hq|[Hq Hr]].
    + apply (lex_same_len byte byte_lt); [|rewrite !pad_len; reflexivity].
      apply IH; Z.div_mod_to_equations; lia.
    + rewrite Hq. apply (lex_prefix byte byte_lt). apply lex_head. apply digit_lt; Z.div_mod_to_equations; lia.
Qed.

(* one field of equal width in front: smaller field, or equal field and smaller rest *)
Lemma lex_field (a a' r r' : list byte) :
  length a = length a' -> (blex a a' \/ (a = a' /\ blex r r')) -> blex (a ++ r) (a' ++ r').
Proof.
  intros Hl [H|[-> H]].
  - apply (lex_same_len byte byte_lt); assumption.
  - apply (lex_prefix byte byte_lt). exact H.
Qed.

Lemma pad_field k n n' (r r' : list byte) :
  0 <= n < 10 ^ Z.of_nat k -> 0 <= n' < 10 ^ Z.of_nat k ->
  (n < n' \/ (n = n' /\ blex r r')) -> blex (pad k n ++ r) (pad k n' ++ r').
Proof.
  intros Hn Hn' H. apply lex_field; [rewrite !pad_len; reflexivity|].
  destruct H as [H|[-> H]]; [left; apply pad_mono; lia|right; auto].
Qed.

Lemma valid_datetime_bounds dt : valid_datetime dt = true ->
  1900 <= year dt <= 2500 /\ 1 <= month dt <= 12 /\ 1 <= day dt <= 31 /\
  0 <= hour dt <= 23 /\ 0 <= minute dt <= 59 /\ 0 <= second dt <= 59.
Proof.
  unfold valid_datetime. rewrite !andb_true_iff, !Z.leb_le. intros [[[[[[Hv ?] ?] ?] ?] ?] ?].
  destruct (valid_date_bounds _ _ _ Hv) as [Hy [Hm Hd]]. unfold first_year, last_year in Hy.
  assert (days_in_month (year dt) (month dt) <= 31).
  { unfold days_in_month. destruct (month dt) as [|p|p]; try lia.
    repeat (destruct p as [p|p|]; try lia); destruct (is_leap (year dt)); lia. }
  lia.
Qed.

Definition stamp_of (dt : DateTime) : list byte :=
  [ch_dot] ++ pad 4 (year dt) ++ pad 2 (month dt) ++ pad 2 (day dt) ++ [ch_minus] ++
  pad 2 (hour dt) ++ pad 2 (minute dt) ++ pad 2 (second dt) ++ [ch_dot].

Lemma stamp_of_mono a b : valid_datetime a = true -> valid_datetime b = true -> lex6 a b ->
  blex (stamp_of a) (stamp_of b).
Proof.
  intros Va Vb Hl. destruct (valid_datetime_bounds _ Va) as (Ay & Am & Ad & Ah & Ai & As).
  destruct (valid_datetime_bounds _ Vb) as (By & Bm & Bd & Bh & Bi & Bs).
  unfold stamp_of. cbn [app]. apply lex_tail.
  assert (P4 : 10 ^ Z.of_nat 4 = 10000) by reflexivity. assert (P2 : 10 ^ Z.of_nat 2 = 100) by reflexivity.
  unfold lex6, lex3 in Hl.
  apply pad_field; [lia|lia|]. destruct Hl as [[H|[Ey H]]|[E H]]; [left; exact H| |]; [right; split; [exact Ey|]|].
  - apply pad_field; [lia|lia|]. destruct H as [H|[Em H]]; [left; exact H|right; split; [exact Em|]].
    apply pad_field; [lia|lia|]. left. exact H.
  - injection E as Ey Em Ed. right. split; [exact Ey|].
    apply pad_field; [lia|lia|]. right. split; [exact Em|].
    apply pad_field; [lia|lia|]. right. split; [exact Ed|]. cbn [app]. apply lex_tail.
    apply pad_field; [lia|lia|]. destruct H as [H|[Eh H]]; [left; exact H|right; split; [exact Eh|]].
    apply pad_field; [lia|lia|]. destruct H as [H|[Ei H]]; [left; exact H|right; split; [exact Ei|]].
    apply pad_field; [lia|lia|]. left. exact H.
Qed.

Lemma stamp_length t : length (stamp t) = 17%nat.
Proof. unfold stamp. rewrite !app_length, !pad_len. reflexivity. Qed.

(* the concrete stamp discharges the contract of file_names_increase on the whole range C20 covers
   (1900-01-01 .. 2500-12-31, four-digit years) *)
Theorem stamp_mono a b : utc_first <= a -> a < b -> b < utc_end -> blex (stamp a) (stamp b).
Proof.
  intros H1 H2 H3. change (stamp a) with (stamp_of (break_utc a)). change (stamp b) with (stamp_of (break_utc b)).
  destruct (utc_roundtrip a ltac:(lia)) as [Va _]. destruct (utc_roundtrip b ltac:(lia)) as [Vb _].
  apply stamp_of_mono; auto. apply break_utc_mono; assumption.
Qed.

(* file names of one process, in creation order, are strictly increasing byte strings: sorting the directory
   by name is the creation order and no name is used twice - no contract left, only the range of the clock *)
Theorem log_file_names_increase (A : Type) (base host pidlog : list byte) (c : cfg) (now : Z) (ops : list (sop_t A)) :
  LogFile_roll_guard_is_gt = true ->
  let fs := files_in_order (lf_run c (@lf_new A now) ops) in
  Forall (fun f => utc_first <= fst f < utc_end) fs ->
  StronglySorted blex (map (fun f => log_file_name base host pidlog (fst f)) fs).
Proof.
  intros Hg fs Hr. unfold log_file_name.
  apply (file_names_increase byte byte_lt A stamp 17 utc_first utc_end base host pidlog c now ops Hg).
  - exact stamp_length.
  - intros a b Ha Hab Hb. apply stamp_mono; assumption.
  - exact Hr.
Qed.
