(* C18_GenLink: the length test translated from the source (Gen_C18, regenerated on every
   check) is the one of the hand model. *)
From Coq Require Import List ZArith Bool.
From Coq.Strings Require Import Byte.
From Muduo Require Import Gen_Consts Gen_C18 C18_Model.
Local Open Scope Z_scope.

Lemma gen_length_test : forall (tag : list byte) (len : Z),
  Gen_C18.onMessage_length_bad len kMaxMessageLen (kMinMessageLen tag) = length_bad tag len.
Proof. intros tag len. reflexivity. Qed.
