(* C18_GenLink: the comparisons, assertions and the offset / length arguments of the decoders
   and encoders as translated from the clang AST of the current sources (Gen_C18, regenerated on
   every check by lib/gen_C18.py) are the ones the hand models use.  Sizes are naturals embedded
   in Z, a pointer is an address P plus an offset, *(p) is [deref p].  Editing an operator or an
   operand in ProtobufCodecLite.cc / HttpContext.cc / HttpServer.cc / HttpResponse.cc makes one of
   these lemmas false: a proof obligation breaks directly. *)
From Coq Require Import List ZArith Lia Bool Arith NArith.
From Coq.Strings Require Import Byte.
From Muduo Require Import Base_Bytes Gen_Consts Gen_C18 C10_Model C18_Model C18_EncModel C18_HttpSrvModel C18_OldCodec.
Import ListNotations.
Local Open Scope Z_scope.
Local Notation Zn := Z.of_nat.

Ltac zb :=
  repeat match goal with
  | |- context [Z.geb ?a ?b] => rewrite (Z.geb_leb a b)
  | |- context [Z.gtb ?a ?b] => rewrite (Z.gtb_ltb a b)
  | |- context [Z.ltb ?a ?b] => destruct (Z.ltb_spec a b)
  | |- context [Z.leb ?a ?b] => destruct (Z.leb_spec a b)
  | |- context [Z.eqb ?a ?b] => destruct (Z.eqb_spec a b)
  | |- context [Nat.ltb ?a ?b] => destruct (Nat.ltb_spec a b)
  | |- context [Nat.leb ?a ?b] => destruct (Nat.leb_spec a b)
  | |- context [Nat.eqb ?a ?b] => destruct (Nat.eqb_spec a b)
  end; cbn [andb orb negb]; try reflexivity; try lia.

Lemma gen_length_test : forall (tag : list byte) (len : Z),
  Gen_C18.onMessage_length_bad len kMaxMessageLen (kMinMessageLen tag) = length_bad tag len.
Proof. intros tag len. reflexivity. Qed.

(* ---- ProtobufCodecLite::onMessage ------------------------------------------------------------ *)
Lemma gen_onMessage : forall (tag b : list byte) (len P e : Z),
  onMessage_while0 kHeaderLen (kMinMessageLen tag) (Zn (length b))
    = (Zn (length b) >=? kMinMessageLen tag + kHeaderLen) /\
  (onMessage_cmp0 kMaxMessageLen len || onMessage_cmp1 (kMinMessageLen tag) len)%bool = length_bad tag len /\
  onMessage_if0 kMaxMessageLen (kMinMessageLen tag) len = length_bad tag len /\
  onMessage_cmp2 kHeaderLen len (Zn (length b)) = (Zn (length b) >=? kHeaderLen + len) /\
  onMessage_if1 kHeaderLen len (Zn (length b)) = (Zn (length b) >=? kHeaderLen + len) /\
  onMessage_call1_parse_arg0 kHeaderLen P - P = kHeaderLen /\
  onMessage_call1_parse_arg1 len = len /\
  onMessage_call0_retrieve kHeaderLen len = kHeaderLen + len /\
  onMessage_call2_retrieve kHeaderLen len = kHeaderLen + len /\
  onMessage_let_len len = len /\
  onMessage_cmp3 e Gen_Consts.ProtobufCodecLite_kNoError = (e =? 0).
Proof.
  intros. unfold onMessage_while0, onMessage_cmp0, onMessage_cmp1, onMessage_if0, onMessage_cmp2, onMessage_if1,
    onMessage_call1_parse_arg0, onMessage_call1_parse_arg1, onMessage_call0_retrieve, onMessage_call2_retrieve,
    onMessage_let_len, onMessage_cmp3, length_bad.
  repeat split; try reflexivity; try lia.
Qed.

(* ---- parse / validateChecksum: buf = P + off ------------------------------------------------- *)
Lemma gen_parse : forall (tag : list byte) (P off len a b m : Z),
  let buf := P + off in
  parse_call0_validateChecksum_arg0 buf = buf /\ parse_call0_validateChecksum_arg1 len = len /\
  parse_cmp0 m = (m =? 0) /\ parse_if1 m = (m =? 0) /\
  parse_call1_memcmp_arg0 buf = buf /\
  parse_let_data buf (Zn (length tag)) - P = off + Zn (length tag) /\
  parse_let_dataLen kChecksumLen len (Zn (length tag)) = len - kChecksumLen - Zn (length tag) /\
  validateChecksum_call0_asInt32 buf kChecksumLen len - P = off + len - kChecksumLen /\
  validateChecksum_call1_checksum_arg0 buf = buf /\
  validateChecksum_call1_checksum_arg1 kChecksumLen len = len - kChecksumLen /\
  validateChecksum_cmp0 a b = (a =? b).
Proof.
  intros. unfold buf, parse_call0_validateChecksum_arg0, parse_call0_validateChecksum_arg1, parse_cmp0, parse_if1,
    parse_call1_memcmp_arg0, parse_let_data, parse_let_dataLen, validateChecksum_call0_asInt32,
    validateChecksum_call1_checksum_arg0, validateChecksum_call1_checksum_arg1, validateChecksum_cmp0.
  repeat split; try reflexivity; lia.
Qed.

(* ---- fillEmptyBuffer / serializeToBuffer ------------------------------------------------------ *)
Lemma gen_encoder : forall (tag : list byte) (b : buf) (n r : nat) (P : Z),
  fillEmptyBuffer_assert0 (Zn (readableBytes b)) = (readableBytes b =? 0)%nat /\
  fillEmptyBuffer_assert1 (Zn n) kChecksumLen (Zn r) (Zn (length tag)) = (r =? length tag + n + cks_len)%nat /\
  fillEmptyBuffer_call0_checksum_arg1 (Zn r) = Zn r /\
  fillEmptyBuffer_call2_prepend_arg1 = Zn hdr_len /\
  serializeToBuffer_call0_ensureWritableBytes (Zn n) kChecksumLen = Zn (n + cks_len) /\
  serializeToBuffer_call1_hasWritten (Zn n) = Zn n /\
  serializeToBuffer_cmp0 (Zn n) (P + Zn n) P = false.
Proof.
  intros. unfold fillEmptyBuffer_assert0, fillEmptyBuffer_assert1, fillEmptyBuffer_call0_checksum_arg1,
    fillEmptyBuffer_call2_prepend_arg1, serializeToBuffer_call0_ensureWritableBytes,
    serializeToBuffer_call1_hasWritten, serializeToBuffer_cmp0.
  change kChecksumLen with 4. change cks_len with 4%nat. change hdr_len with 4%nat.
  repeat split; zb.
Qed.

(* ---- HttpContext::processRequestLine: std::find returns `last` when nothing is found ----------- *)
Definition idx (c : byte) (l : list byte) : nat :=
  match find_byte c l with Some i => i | None => length l end.

Lemma find_byte_lt c : forall l i, find_byte c l = Some i -> (i < length l)%nat.
Proof.
  induction l as [|x t IH]; intros i H; [discriminate H|].
  cbn [find_byte] in H. destruct (Byte.eqb x c); [injection H as <-; cbn; lia|].
  destruct (find_byte c t) as [j|]; [|discriminate H]. injection H as <-.
  specialize (IH j eq_refl). cbn [length]. lia.
Qed.

Definition deref_of (P : Z) (l : list byte) : Z -> Z := fun a => Z_of_byte (nth (Z.to_nat (a - P)) l x00).

Lemma byte_code_eqb (a c : byte) : (Z_of_byte a =? Z_of_byte c) = Byte.eqb a c.
Proof.
  destruct (Byte.eqb a c) eqn:E.
  - apply Byte.byte_dec_bl in E. subst. apply Z.eqb_refl.
  - apply Z.eqb_neq. intros H. assert (a = c).
    { rewrite <- (byte_of_Z_of_byte a), <- (byte_of_Z_of_byte c), H. reflexivity. }
    subst. rewrite (Byte.byte_dec_lb eq_refl) in E. discriminate.
Qed.

Lemma gen_processRequestLine : forall (line target ver : list byte) (P : Z),
  processRequestLine_cmp0 (P + Zn (length line)) (P + Zn (idx SP line))
    = (match find_byte SP line with Some _ => true | None => false end) /\
  processRequestLine_cmp1 (P + Zn (length line)) (P + Zn (idx SP line))
    = (match find_byte SP line with Some _ => true | None => false end) /\
  processRequestLine_cmp2 (P + Zn (idx QMARK target)) (P + Zn (length target))
    = (match find_byte QMARK target with Some _ => true | None => false end) /\
  processRequestLine_cmp3 (P + Zn (length ver)) P = (length ver =? 8)%nat /\
  ((1 <= length ver)%nat ->
     processRequestLine_cmp4 (deref_of P ver) (P + Zn (length ver)) = Byte.eqb (nth (length ver - 1) ver x00) x31 /\
     processRequestLine_cmp5 (deref_of P ver) (P + Zn (length ver)) = Byte.eqb (nth (length ver - 1) ver x00) x30).
Proof.
  intros. unfold processRequestLine_cmp0, processRequestLine_cmp1, processRequestLine_cmp2,
    processRequestLine_cmp3, processRequestLine_cmp4, processRequestLine_cmp5, idx, deref_of.
  repeat split.
  - destruct (find_byte SP line) as [i|] eqn:E; [apply find_byte_lt in E|]; zb.
  - destruct (find_byte SP line) as [i|] eqn:E; [apply find_byte_lt in E|]; zb.
  - destruct (find_byte QMARK target) as [i|] eqn:E; [apply find_byte_lt in E|]; zb.
  - zb.
  - replace (Z.to_nat (P + Zn (length ver) - 1 - P)) with (length ver - 1)%nat by lia.
    change 49 with (Z_of_byte x31). apply byte_code_eqb.
  - replace (Z.to_nat (P + Zn (length ver) - 1 - P)) with (length ver - 1)%nat by lia.
    change 48 with (Z_of_byte x30). apply byte_code_eqb.
Qed.

(* ---- HttpContext::parseRequest ------------------------------------------------------------------ *)
Definition state_code (s : hstate) : Z :=
  match s with
  | kExpectRequestLine => Gen_Consts.HttpContext_kExpectRequestLine
  | kExpectHeaders => Gen_Consts.HttpContext_kExpectHeaders
  | kExpectBody => Gen_Consts.HttpContext_kExpectBody
  | kGotAll => Gen_Consts.HttpContext_kGotAll
  end.

Lemma gen_parseRequest : forall (s : hstate) (line : list byte) (i : nat) (P : Z),
  parseRequest_cmp0 Gen_Consts.HttpContext_kExpectRequestLine (state_code s)
    = (match s with kExpectRequestLine => true | _ => false end) /\
  parseRequest_cmp1 Gen_Consts.HttpContext_kExpectHeaders (state_code s)
    = (match s with kExpectHeaders => true | _ => false end) /\
  parseRequest_cmp3 Gen_Consts.HttpContext_kExpectBody (state_code s)
    = (match s with kExpectBody => true | _ => false end) /\
  parseRequest_cmp2 (P + Zn (idx COLON line)) (P + Zn (length line))
    = (match find_byte COLON line with Some _ => true | None => false end) /\
  parseRequest_call0_retrieveUntil (P + Zn i) - P = Zn (i + 2) /\
  parseRequest_call1_retrieveUntil (P + Zn i) - P = Zn (i + 2).
Proof.
  intros. unfold parseRequest_cmp0, parseRequest_cmp1, parseRequest_cmp3, parseRequest_cmp2,
    parseRequest_call0_retrieveUntil, parseRequest_call1_retrieveUntil, idx.
  repeat split; try (destruct s; reflexivity); try lia.
  destruct (find_byte COLON line) as [k|] eqn:E; [apply find_byte_lt in E|]; zb.
Qed.

(* ---- HttpServer::onMessage / onRequest, HttpResponse::appendToBuffer ------------------------------- *)
Definition version_code (v : version) : Z :=
  match v with
  | kUnknown => Gen_Consts.HttpRequest_kUnknown
  | kHttp10 => Gen_Consts.HttpRequest_kHttp10
  | kHttp11 => Gen_Consts.HttpRequest_kHttp11
  end.

Lemma gen_http_server : forall (ok g c : bool) (v : version),
  HttpServer_onMessage_if0 ok = negb ok /\ HttpServer_onMessage_if1 g = g /\
  HttpServer_onRequest_cmp0 Gen_Consts.HttpRequest_kHttp10 (version_code v) = is_http10 v /\
  appendToBuffer_if0 c = c.
Proof.
  intros. unfold HttpServer_onMessage_if0, HttpServer_onMessage_if1, HttpServer_onRequest_cmp0, appendToBuffer_if0.
  repeat split; destruct v; reflexivity.
Qed.


(* ---- the OLD codec: ProtobufCodec::onMessage / parse / fillEmptyBuffer (examples/protobuf/codec/codec.cc) ----
   buf = P + off; kNoError = 0 (first enumerator); [mok] = the shared_ptr's operator bool *)
Lemma gen_old_codec : forall (b : list byte) (len nameLen P off e a c bs : Z) (r : nat) (mok : bool),
  old_onMessage_while0 okHeaderLen okMinMessageLen (Zn (length b))
    = (Zn (length b) >=? okMinMessageLen + okHeaderLen) /\
  old_onMessage_if0 okMaxMessageLen okMinMessageLen len = olength_bad len /\
  (old_onMessage_cmp0 okMaxMessageLen len || old_onMessage_cmp1 okMinMessageLen len)%bool = olength_bad len /\
  old_onMessage_if1 okHeaderLen len (Zn (length b)) = (Zn (length b) >=? len + okHeaderLen) /\
  old_onMessage_cmp2 okHeaderLen len (Zn (length b)) = (Zn (length b) >=? len + okHeaderLen) /\
  old_onMessage_call0_parse_arg0 okHeaderLen P - P = okHeaderLen /\
  old_onMessage_call0_parse_arg1 len = len /\
  old_onMessage_if2 e 0 mok = ((e =? 0) && mok)%bool /\
  old_onMessage_cmp3 e 0 = (e =? 0) /\
  old_onMessage_call1_retrieve okHeaderLen len = okHeaderLen + len /\
  old_onMessage_let_len len = len /\
  (let buf := P + off in
   old_parse_call0_asInt32 buf okHeaderLen len - P = off + len - okHeaderLen /\
   old_parse_call1_adler32_arg0 buf = buf /\
   old_parse_call1_adler32_arg1 okHeaderLen len = len - okHeaderLen /\
   old_parse_if0 a c = (a =? c) /\ old_parse_cmp0 a c = (a =? c) /\
   old_parse_call2_asInt32 buf = buf /\
   old_parse_if1 okHeaderLen len nameLen = ((nameLen >=? 2) && (nameLen <=? len - 2 * okHeaderLen))%bool /\
   (old_parse_cmp1 nameLen && old_parse_cmp2 okHeaderLen len nameLen)%bool
     = ((nameLen >=? 2) && (nameLen <=? len - 2 * okHeaderLen))%bool /\
   old_parse_typeName_arg0 buf okHeaderLen - P = off + okHeaderLen /\
   old_parse_typeName_arg1 buf okHeaderLen nameLen - old_parse_typeName_arg0 buf okHeaderLen = nameLen - 1 /\
   old_parse_if2 mok = mok /\
   old_parse_let_data buf okHeaderLen nameLen - P = off + okHeaderLen + nameLen /\
   old_parse_let_dataLen okHeaderLen len nameLen = len - nameLen - 2 * okHeaderLen) /\
  old_fillEmptyBuffer_assert0 (Zn r) = (r =? 0)%nat /\
  old_fillEmptyBuffer_assert1 bs nameLen (Zn r) = (Zn r =? 4 + nameLen + bs + 4).
Proof.
  intros. unfold old_onMessage_while0, old_onMessage_if0, old_onMessage_cmp0, old_onMessage_cmp1, old_onMessage_if1,
    old_onMessage_cmp2, old_onMessage_call0_parse_arg0, old_onMessage_call0_parse_arg1, old_onMessage_if2,
    old_onMessage_cmp3, old_onMessage_call1_retrieve, old_onMessage_let_len, old_parse_call0_asInt32,
    old_parse_call1_adler32_arg0, old_parse_call1_adler32_arg1, old_parse_if0, old_parse_cmp0, old_parse_call2_asInt32,
    old_parse_if1, old_parse_cmp1, old_parse_cmp2, old_parse_typeName_arg0, old_parse_typeName_arg1, old_parse_if2,
    old_parse_let_data, old_parse_let_dataLen, old_fillEmptyBuffer_assert0, old_fillEmptyBuffer_assert1, olength_bad.
  cbv zeta. repeat split; try reflexivity; try lia.
  - destruct (Z.eqb_spec (Zn r) 0); destruct (Nat.eqb_spec r 0); try reflexivity; lia.
Qed.
