(* Properties_C16: every log record handed to the back-end is written exactly once, whole, in order.

   Models (C16_Model.v, read off muduo/base/FileUtil.cc, LogFile.cc, AsyncLogging.cc):
   (i)  AppendFile::append (`af_loop`: every pattern of short fwrite_unlocked results / stream errors is
        an input), LogFile (`lf_run`: appends, flushes, rolls; every time(NULL) result is an input);
   (ii) AsyncLogging in the monitor style of DESIGN 3.3: `reach (init progs) s` = any number of front-end
        threads with arbitrary programs (lists of records of arbitrary lengths below the buffer size),
        one back-end thread cut at its park points (start, lock, timed wait, announce, each write, flush,
        the lock of the final drain, exit), stop() = store + join; a label picks who moves, so `reach`
        ranges over ALL schedules, including every placement of stop() relative to the back-end's phases
        and every time at which the timed wait returns.
   The shape facts (is there a drain after the loop; `>` of the fit test in AsyncLogging::append AND of the
   copy test in FixedBuffer::append - the theorems need the two sites to agree: `sites_agree` -; `>` of the
   roll guard; the literals 25 / 2 / 2; the default flush interval / checkEveryN; the shape of
   AppendFile::append's retry loop) are regenerated from the current /repo into Gen_C16.v on every run; the model follows
   them, the theorems name them as premises, and the last theorems discharge the premises for the
   current tree by computation - so a change of the source that invalidates a premise breaks exactly
   those theorems. *)
From Coq Require Import List ZArith Bool Arith Sorted.
Import ListNotations.
From Coq.Strings Require Import Byte.
From Muduo Require Import Conc_Model Conc_Proofs.
From Muduo Require C20_Model.
From Muduo Require Import Gen_Consts Gen_C16 C16_Model C16_Proofs C16_MonModel C16_MonProofs C16_NamesModel C16_NamesProofs C16_Reopen.
Local Open Scope Z_scope.

(* ------------------------------------------------------------------ (i) AppendFile, LogFile *)

(* AppendFile::append, for EVERY sequence of fwrite_unlocked results: what the stream got is a prefix of
   the record, in order; it is the whole record and written = len unless the stream reported an error
   (then, and only then, a strict prefix) *)
Theorem C16_appendfile_whole_record : forall (A : Type) (env : list wres) (data : list A),
  match af_loop env data with
  | (acc, w, er) =>
      exists tail, data = acc ++ tail /\
        (er = false -> tail = [] /\ w = length data) /\
        (er = true -> tail <> [])
  end.
Proof. exact af_loop_spec. Qed.
Print Assumptions C16_appendfile_whole_record.

(* the retry loop in detail: `written` (what writtenBytes_ grows by) never exceeds what the stream accepted,
   the accepted bytes are a prefix of the record, and without error written = accepted; short results
   without ferror - zero-byte results included - are retried until the record is complete *)
Theorem C16_appendfile_retry_loop : forall (A : Type),
  (forall (env : list wres) (data : list A),
     match af_loop env data with
     | (acc, w, er) => (w <= length acc)%nat /\ (length acc <= length data)%nat /\
                       acc = firstn (length acc) data /\ (er = false -> w = length acc)
     end) /\
  (forall (env : list wres) (data : list A),
     Forall (fun x : wres => snd x = false) env -> af_loop env data = (data, length data, false)).
Proof. exact (fun A => conj (af_loop_written A) (af_loop_retries A)). Qed.
Print Assumptions C16_appendfile_retry_loop.

(* for all roll sizes, flush intervals, check periods, clocks (any time() results, also going backwards),
   short-write patterns and op sequences: every file is the concatenation of a group of WHOLE chunks (a
   chunk = what one append handed to the stream), the groups in creation order are the chunks in append
   order - so a record is never split across two files and the files concatenated in creation order are
   the appended sequence; without stream errors the chunks are the records themselves *)
Theorem C16_files_concat : forall (A : Type) (c : cfg) (now : Z) (ops : list (sop_t A)),
  0 < now ->
  let s := lf_run c (lf_new now) ops in
  exists groups : list (list (list A)),
    Forall2 (fun f g => snd f = concat g) (files_in_order s) groups /\
    concat groups = flat_map (chunk_of A) ops /\
    concat (map snd (files_in_order s)) = concat (flat_map (chunk_of A) ops).
Proof. exact files_concat_groups. Qed.
Print Assumptions C16_files_concat.

Theorem C16_chunks_are_records : forall (A : Type) (ops : list (sop_t A)),
  forallb (fun o => negb (op_error o)) ops = true ->
  flat_map (chunk_of A) ops = flat_map (@op_record A) ops.
Proof. exact chunks_no_error. Qed.
Print Assumptions C16_chunks_are_records.

(* a new file at most once per second: rollFile creates a file only when the clock is strictly past
   the previous creation second, hence the creation seconds (= the file names) strictly increase in
   creation order; premise = the regenerated comparison operator of `now > lastRoll_` *)
Theorem C16_roll_at_most_once_per_second : forall (A : Type),
  LogFile_roll_guard_is_gt = true ->
  (forall (c : cfg) (now : Z) (ops : list (sop_t A)),
     StronglySorted Z.lt (map fst (files_in_order (lf_run c (@lf_new A now) ops)))) /\
  (forall (now : Z) (s : lf A),
     snd (roll now s) = true -> lastRoll s < now /\ lastRoll (fst (roll now s)) = now).
Proof. exact (fun A H => conj (names_increasing A H) (roll_guard A H)). Qed.
Print Assumptions C16_roll_at_most_once_per_second.

(* LogFile's bookkeeping, all configurations / clocks / op lists: startOfPeriod_ is the period of the creation
   second, count_ stays below checkEveryN, the current file is named by lastRoll_, writtenBytes_ never
   exceeds the size of the current file and equals it when no stream error occurred *)
Theorem C16_logfile_bookkeeping : forall (A : Type) (c : cfg) (now : Z) (ops : list (sop_t A)),
  0 < now ->
  let s := lf_run c (lf_new now) ops in
  sop s = period (lastRoll s) /\
  0 <= cnt s < Z.max 1 (checkEveryN c) /\
  (exists d older, files s = (lastRoll s, d) :: older /\ 0 <= wb s <= Z.of_nat (length d) /\
     (forallb (fun o => negb (op_error o)) ops = true -> wb s = Z.of_nat (length d))).
Proof. exact logfile_bookkeeping. Qed.
Print Assumptions C16_logfile_bookkeeping.

(* LogFile::append_unlocked, exhaustively: size roll (first clock value, count_ untouched) / not a check
   point (only count_ moves) / check point in another period: day-boundary roll on the second clock value /
   check point, flush interval exceeded: flush and lastFlush_ = now / check point, nothing to do *)
Theorem C16_logfile_append_cases : forall (A : Type) (c : cfg) (d : list A) (env : list wres) (now now2 : Z) (s : lf A),
  let '(acc, w, er) := af_loop env d in
  let s1 := put acc w s in
  let s' := fst (lf_append c d env now now2 s) in
  snd (lf_append c d env now now2 s) = er /\
  ( (rollSize c < wb s1 /\ s' = fst (roll now s1))
    \/ (wb s1 <= rollSize c /\ cnt s1 + 1 < checkEveryN c /\ s' = set_cnt (cnt s1 + 1) s1)
    \/ (wb s1 <= rollSize c /\ checkEveryN c <= cnt s1 + 1 /\ period now <> sop s1 /\
          s' = fst (roll now2 (set_cnt 0 s1)))
    \/ (wb s1 <= rollSize c /\ checkEveryN c <= cnt s1 + 1 /\ period now = sop s1 /\
          flushInterval c < now - lastFlush s1 /\ s' = do_flush (set_lastFlush now (set_cnt 0 s1)) /\
          nflush s' = S (nflush s) /\ lastFlush s' = now)
    \/ (wb s1 <= rollSize c /\ checkEveryN c <= cnt s1 + 1 /\ period now = sop s1 /\
          now - lastFlush s1 <= flushInterval c /\ s' = set_cnt 0 s1 /\ nflush s' = nflush s) ).
Proof. exact lf_append_cases. Qed.
Print Assumptions C16_logfile_append_cases.

(* the flush interval as a guarantee: right after a check point that did not roll, the last flush (or the
   creation of the file) is at most flushInterval seconds older than the clock value just read *)
Theorem C16_flush_interval : forall (A : Type) (c : cfg) (d : list A) (env : list wres) (now now2 : Z) (s : lf A),
  0 <= flushInterval c ->
  let '(acc, w, _) := af_loop env d in
  let s1 := put acc w s in
  let s' := fst (lf_append c d env now now2 s) in
  wb s1 <= rollSize c -> checkEveryN c <= cnt s1 + 1 -> period now = sop s1 ->
  now - lastFlush s' <= flushInterval c.
Proof. exact flush_interval_kept. Qed.
Print Assumptions C16_flush_interval.

(* the day boundary: a check point whose clock lies in another period (kRollPerSeconds_) than the file's,
   with the second clock value past the last creation second, starts a new file named by that second whose
   startOfPeriod_ is its period; the record just appended stays in the old file *)
Theorem C16_day_boundary_roll : forall (A : Type) (c : cfg) (d : list A) (env : list wres) (now now2 : Z) (s : lf A),
  LogFile_roll_guard_is_gt = true ->
  let '(acc, w, _) := af_loop env d in
  let s1 := put acc w s in
  let s' := fst (lf_append c d env now now2 s) in
  wb s1 <= rollSize c -> checkEveryN c <= cnt s1 + 1 -> period now <> sop s1 -> lastRoll s < now2 ->
  files s' = (now2, []) :: files s1 /\ sop s' = period now2 /\ lastRoll s' = now2 /\ lastFlush s' = now2 /\
  cnt s' = 0 /\ wb s' = 0.
Proof. exact day_boundary_roll. Qed.
Print Assumptions C16_day_boundary_roll.

(* LogFile::getLogFileName = basename ++ stamp(now) ++ hostname ++ ".<pid>.log".  Environment contract (visible
   premises): the time stamp has a fixed width and grows lexicographically with the second on [lo, hi) - what
   strftime(".%Y%m%d-%H%M%S.") over gmtime_r does for four-digit years.  Then, in one process, the file names
   grow strictly in creation order: sorting the directory by name is the creation order, no name repeats *)
Theorem C16_file_names_increase :
  forall (X : Type) (ltX : X -> X -> Prop) (A : Type) (stamp : Z -> list X) (w : nat) (lo hi : Z)
         (base host pidlog : list X) (c : cfg) (now : Z) (ops : list (sop_t A)),
  LogFile_roll_guard_is_gt = true ->
  (forall t, length (stamp t) = w) ->
  (forall a b, lo <= a -> a < b -> b < hi -> lex_lt X ltX (stamp a) (stamp b)) ->
  let fs := files_in_order (lf_run c (@lf_new A now) ops) in
  Forall (fun f => lo <= fst f < hi) fs ->
  StronglySorted (lex_lt X ltX) (map (fun f => fname X stamp base host pidlog (fst f)) fs).
Proof. exact file_names_increase. Qed.
Print Assumptions C16_file_names_increase.

(* the same with the CONCRETE stamp: strftime(".%Y%m%d-%H%M%S.") over gmtime_r = fixed-width decimal fields of
   C20's break_utc (the regenerated Date/TimeZone code, proved to be the POSIX formula).  No contract left: for
   every clock value from 1900-01-01 to 2500-12-31 the 17-byte stamp grows lexicographically with the second,
   hence the file names of one process are strictly increasing byte strings in creation order *)
Theorem C16_stamp_monotone : forall a b, C20_Model.utc_first <= a -> a < b -> b < C20_Model.utc_end ->
  length (stamp a) = 17%nat /\ lex_lt byte byte_lt (stamp a) (stamp b).
Proof. exact (fun a b H1 H2 H3 => conj (stamp_length a) (stamp_mono a b H1 H2 H3)). Qed.
Print Assumptions C16_stamp_monotone.

Theorem C16_log_file_names_increase :
  forall (A : Type) (base host pidlog : list byte) (c : cfg) (now : Z) (ops : list (sop_t A)),
  LogFile_roll_guard_is_gt = true ->
  let fs := files_in_order (lf_run c (@lf_new A now) ops) in
  Forall (fun f => C20_Model.utc_first <= fst f < C20_Model.utc_end) fs ->
  StronglySorted (lex_lt byte byte_lt) (map (fun f => log_file_name base host pidlog (fst f)) fs).
Proof. exact log_file_names_increase. Qed.
Print Assumptions C16_log_file_names_increase.

(* ~LogFile (= ~AppendFile = fclose): whatever happened before, the bytes stdio may still hold belong to the
   current file and are at most its size; the destructor, flush() and a roll (the old file is closed) leave
   none; the destructor changes no file content and no counter *)
Theorem C16_logfile_destructor : forall (A : Type) (c : cfg) (now : Z) (ops : list (sop_t A)),
  let s := lf_run c (lf_new now) ops in
  match files s with (nm, d) :: _ => 0 <= dirty s <= Z.of_nat (length d) | [] => dirty s = 0 end /\
  dirty (lf_step c s SClose) = 0 /\ files (lf_step c s SClose) = files s /\ nflush (lf_step c s SClose) = nflush s /\
  dirty (lf_step c s SFlush) = 0 /\ files (lf_step c s SFlush) = files s /\
  (forall t, snd (roll t s) = true -> dirty (fst (roll t s)) = 0) /\
  lf_run c (lf_new now) (ops ++ [SClose]) = lf_step c s SClose.
Proof. exact logfile_destructor. Qed.
Print Assumptions C16_logfile_destructor.

(* LogFile with threadSafe = true as a monitor (generic semantics Conc_Model: any number of threads, any
   programs - records, clock values, short-write patterns are arguments of the calls -, any schedule).
   In every reachable state the shared LogFile is the SEQUENTIAL model run on the completed calls in the order
   of their critical sections - so the files in creation order consist of whole chunks in that order: exactly
   once, never split, never interleaved -; that order restricted to a thread is the thread's program order;
   the mutex has at most one holder, which is inside its section; nobody ever waits *)
Theorem C16_logfile_threadsafe :
  forall (A : Type) (c : cfg) (now : Z) (progs : list (list (lfop A))) (s : lfsys A),
  0 < now -> Conc_Model.reach (lf_body A c) (lfm_init A now progs) s ->
  shared s = lf_run c (lf_new now) (ops_of A (Conc_Model.hist s)) /\
  (forall t, calls_of A t (Conc_Model.hist s) ++ nth t (map prog (threads s)) [] = nth t progs []) /\
  (exists groups : list (list (list A)),
     Forall2 (fun f g => snd f = concat g) (files_in_order (shared s)) groups /\
     concat groups = flat_map (chunk_of A) (ops_of A (Conc_Model.hist s)) /\
     concat (map snd (files_in_order (shared s))) = concat (flat_map (chunk_of A) (ops_of A (Conc_Model.hist s)))) /\
  Conc_Proofs.wf _ _ _ s /\ no_waiter A s.
Proof. exact logfile_threadsafe. Qed.
Print Assumptions C16_logfile_threadsafe.

Theorem C16_logfile_threadsafe_done :
  forall (A : Type) (c : cfg) (now : Z) (progs : list (list (lfop A))) (s : lfsys A),
  0 < now -> Conc_Model.reach (lf_body A c) (lfm_init A now progs) s ->
  Forall (fun th => prog th = []) (threads s) ->
  forall t, calls_of A t (Conc_Model.hist s) = nth t progs [].
Proof. exact logfile_threadsafe_done. Qed.
Print Assumptions C16_logfile_threadsafe_done.

(* ------------------------------------------------------------------ (ii) AsyncLogging *)

(* for all thread counts, programs, record sizes below the buffer size, schedules: in every reachable
   state
   - every appended record is in exactly one place, in append order: taken by the back-end, queued in
     buffers_, or in currentBuffer_ (nothing lost, nothing duplicated, whole records: a record is an
     atom of the model because it is copied inside one critical section);
   - the appends of thread t, in the order of the critical sections, followed by what t still has to
     append, are t's program: per-thread order;
   - what the back-end has done to the file/stderr plus what it is about to do for the batch in work is
     the rendering of the batches it took, in order (+ the final batch and flush once it has left the loop);
   - hence the records handed to the file so far, plus those about to be, are the kept buffers of the
     batches in order: the append order minus the buffers erased by the valve *)
Theorem C16_async_exactly_once_in_order :
  forall (R : Type) (rlen : R -> Z) (P : params),
  params_ok P = true -> sites_agree P = true ->
  forall (progs0 : list (list R)) (s : ast R),
  Forall (Forall (fun r => rlen r < p_cap P)) progs0 ->
  reach R rlen P (init progs0) s ->
  hist (gh s) = taken (gh s) ++ flat (bufs (sh s)) ++ recs (cur (sh s)) /\
  (forall t, per_thread t (gh s) ++ nth t (progs s) [] = nth t progs0 []) /\
  length (owner (gh s)) = length (hist (gh s)) /\
  out (gh s) ++ pending R P (pc (be s)) = flat_map (render_batch R P) (batches (gh s)) ++ fin_part R s /\
  written_of (out (gh s)) ++ written_of (pending R P (pc (be s))) =
    flat (flat_map (kept_of R P) (batches (gh s))) ++ (if pc_final (pc (be s)) then flat (fbatch (gh s)) else []) /\
  (pc_final (pc (be s)) = false -> fbatch (gh s) = []).
Proof. exact async_exactly_once. Qed.
Print Assumptions C16_async_exactly_once_in_order.

(* at most once, in order, as one relation: the records handed to the file so far are an order-preserving
   selection (each position used at most once) of the records the back-end took and of the appended
   sequence; if the appended records are pairwise distinct none appears twice in the file *)
Theorem C16_async_at_most_once :
  forall (R : Type) (rlen : R -> Z) (P : params),
  params_ok P = true -> sites_agree P = true ->
  forall (progs0 : list (list R)) (s : ast R),
  Forall (Forall (fun r => rlen r < p_cap P)) progs0 ->
  reach R rlen P (init progs0) s ->
  subseq (written_of (out (gh s))) (taken (gh s)) /\
  subseq (written_of (out (gh s))) (hist (gh s)) /\
  (NoDup (hist (gh s)) -> NoDup (written_of (out (gh s)))).
Proof. exact written_subseq. Qed.
Print Assumptions C16_async_at_most_once.

(* records are discarded only by the valve: the buffers erased so far (+ those of the batch in work) are
   exactly `dropped_of` of the batches = buffers p_keep+1..n of a batch with more than p_thr buffers; the
   rendering of such a batch starts with the announcement on stderr and in the file carrying that number;
   a batch within the threshold is written entirely *)
Theorem C16_drop_only_announced :
  forall (R : Type) (rlen : R -> Z) (P : params),
  params_ok P = true -> sites_agree P = true ->
  (forall (progs0 : list (list R)) (s : ast R),
     Forall (Forall (fun r => rlen r < p_cap P)) progs0 ->
     reach R rlen P (init progs0) s ->
     dropped (gh s) ++ dropping R P (pc (be s)) = flat_map (dropped_of R P) (batches (gh s)) /\
     out (gh s) ++ pending R P (pc (be s)) = flat_map (render_batch R P) (batches (gh s)) ++ fin_part R s /\
     (pc (be s) = PDone ->
        out (gh s) = final_out R P (gh s) /\ dropped (gh s) = flat_map (dropped_of R P) (batches (gh s)))) /\
  (forall batch : list (buf R),
     kept_of R P batch ++ dropped_of R P batch = batch /\
     (((length batch <= p_thr P)%nat /\ dropped_of R P batch = [] /\ kept_of R P batch = batch /\
         render_batch R P batch = map OBuf batch ++ [OFlush]) \/
      ((p_thr P < length batch)%nat /\ dropped_of R P batch = skipn (p_keep P) batch /\ dropped_of R P batch <> [] /\
         kept_of R P batch = firstn (p_keep P) batch /\ length (kept_of R P batch) = p_keep P /\
         render_batch R P batch =
           [OStderr (length (dropped_of R P batch)); OFileAnn (length (dropped_of R P batch))]
             ++ map OBuf (kept_of R P batch) ++ [OFlush]))).
Proof.
  exact (fun R rlen P HP Hfit =>
           conj (drop_only_announced R rlen P HP Hfit)
                (fun batch => conj (kept_dropped R P batch) (render_cases R P HP batch))).
Qed.
Print Assumptions C16_drop_only_announced.

(* no buffer ever holds more than kLargeBuffer bytes (strictly less with the strict fit test), the
   recycling asserts of threadFunc hold (fault = false; newBuffer1/newBuffer2 present at every loop head
   and at the final lock), an iteration of the loop writes at most p_thr buffers, and nextBuffer_ is
   missing only while a full buffer is queued *)
Theorem C16_buffers_bounded :
  forall (R : Type) (rlen : R -> Z) (P : params),
  params_ok P = true -> sites_agree P = true ->
  forall (progs0 : list (list R)) (s : ast R),
  Forall (Forall (fun r => rlen r < p_cap P)) progs0 ->
  reach R rlen P (init progs0) s ->
  fault (be s) = false /\
  (blen (cur (sh s)) <= p_cap P /\ (p_fit_gt P = true -> blen (cur (sh s)) < p_cap P)) /\
  Forall (fun b => blen b <= p_cap P /\ (p_fit_gt P = true -> blen b < p_cap P)) (bufs (sh s)) /\
  (nxt (sh s) = false -> bufs (sh s) <> [] \/ pc_final (pc (be s)) = true) /\
  match pc (be s) with
  | PStart | PLock | PWait | PFinalLock => nb1 (be s) = true /\ nb2 (be s) = true
  | PWrite todo false => (length todo <= p_thr P)%nat /\ (1 <= twn (be s))%nat
  | _ => True
  end.
Proof. exact buffers_bounded. Qed.
Print Assumptions C16_buffers_bounded.

(* stop(): with the drain after the loop, for ALL schedules: when stop() has returned the back-end has
   finished, every record appended before the call is in a batch it took, every batch was rendered
   (written, minus announced drops), the final batch written entirely, and the last event is a flush *)
Theorem C16_stop_flushes :
  forall (R : Type) (rlen : R -> Z) (P : params),
  params_ok P = true -> sites_agree P = true ->
  forall (progs0 : list (list R)) (s : ast R),
  p_drain P = true ->
  Forall (Forall (fun r => rlen r < p_cap P)) progs0 ->
  reach R rlen P (init progs0) s ->
  stop_flushed_full R P s.
Proof. exact stop_flushes. Qed.
Print Assumptions C16_stop_flushes.

(* without the drain (the tree before commit 440cd2b, finding F-8) the last sentence of the property is
   false: the schedule of corpus/C16/f8_stop_loses_tail.case *)
Theorem C16_stop_flushes_refuted :
  exists progs0 sched s,
    run nat f8_rlen (with_drain false current_params) (init progs0) sched = Some s /\
    joined (gh s) = true /\ ~ stop_flushed nat s.
Proof. exact stop_flushes_refuted. Qed.
Print Assumptions C16_stop_flushes_refuted.

(* stop() terminates: once running_ is false (stop() stores it: first clause), in EVERY continuation - any
   interleaving of further appends, back-end steps, the join - running_ stays false, the number of back-end
   steps is bounded by stop_rank (the work left) plus the number of appends (each adds at most one buffer),
   and the back-end is never blocked before its exit; left alone it reaches PDone within stop_rank steps
   without touching the history; at PDone the join returns *)
Theorem C16_stop_terminates : forall (R : Type) (rlen : R -> Z) (P : params),
  (forall s s' : ast R, step R rlen P s LStop = Some s' -> running (sh s') = false) /\
  (forall s : ast R, running (sh s) = false ->
     (forall ls s', run R rlen P s ls = Some s' ->
        running (sh s') = false /\
        (count_back ls + stop_rank s' <= stop_rank s + count_app ls)%nat /\
        (pc (be s') <> PDone -> exists s'', step R rlen P s' LBack = Some s'')) /\
     (exists k s', (k <= stop_rank s)%nat /\ run R rlen P s (repeat LBack k) = Some s' /\ pc (be s') = PDone /\
        hist (gh s') = hist (gh s) /\ mark (gh s') = mark (gh s))) /\
  (forall s : ast R, pc (be s) = PDone -> mark (gh s) <> None -> joined (gh s) = false ->
     exists s', step R rlen P s LJoin = Some s' /\ joined (gh s') = true /\ sh s' = sh s /\ out (gh s') = out (gh s)).
Proof.
  exact (fun R rlen P => conj (stop_sets R rlen P) (conj (stop_terminates R rlen P) (join_returns R rlen P))).
Qed.
Print Assumptions C16_stop_terminates.

(* ONE theorem from append to the files, composing the AsyncLogging model with the LogFile model: stop() has
   returned (drain after the loop) and the events the back-end produced were performed as LogFile operations
   (a buffer = one append of its bytes; the announcement = one append of some line) without a stream error,
   with ANY clock, roll size, flush interval, check period and short-write pattern.  Then
   - every record appended before the call is among the records the back-end took:
     taken = firstn m hist ++ rest  (m = |hist| at the call; rest = appended while stop() was in progress);
   - the files concatenated in creation order are, batch by batch, the bytes of the taken buffers minus the
     announced drops (stream_ok: a batch over the threshold contributes ONE announcement line and its first
     p_keep buffers; every other batch and the final batch all their bytes), and the erased buffers are
     exactly flat_map dropped_of batches;
   - every file consists of whole appends (no buffer, hence no record, is split across two files);
   - if nothing was dropped, the files are exactly the bytes of firstn m hist ++ rest *)
Theorem C16_stop_end_to_end :
  forall (R A : Type) (bytes : R -> list A) (rlen : R -> Z) (P : params),
  params_ok P = true -> sites_agree P = true ->
  forall (progs0 : list (list R)) (s : ast R) (c : cfg) (now : Z) (ops : list (sop_t A)) (chs : list (list A)),
  p_drain P = true ->
  Forall (Forall (fun r => rlen r < p_cap P)) progs0 ->
  reach R rlen P (init progs0) s -> joined (gh s) = true ->
  0 < now -> evs_ops R A bytes (out (gh s)) ops chs ->
  forallb (fun o => negb (op_error o)) ops = true ->
  let files := files_in_order (lf_run c (lf_new now) ops) in
  exists m rest,
    mark (gh s) = Some m /\ (m <= length (hist (gh s)))%nat /\
    taken (gh s) = firstn m (hist (gh s)) ++ rest /\
    stream_ok R A bytes P (batches (gh s)) (fbatch (gh s)) (concat (map snd files)) /\
    dropped (gh s) = flat_map (dropped_of R P) (batches (gh s)) /\
    (exists groups : list (list (list A)),
       Forall2 (fun f g => snd f = concat g) files groups /\ concat groups = flat_map (@op_record A) ops) /\
    (dropped (gh s) = [] -> concat (map snd files) = concat (map bytes (firstn m (hist (gh s)) ++ rest))).
Proof. exact stop_end_to_end. Qed.
Print Assumptions C16_stop_end_to_end.

(* ... and nothing is left in the stdio buffer: the last LogFile operation was a flush (the LogFile of the
   back-end is then destroyed, which changes nothing any more) *)
Theorem C16_stop_nothing_buffered :
  forall (R A : Type) (bytes : R -> list A) (rlen : R -> Z) (P : params),
  params_ok P = true -> sites_agree P = true ->
  forall (progs0 : list (list R)) (s : ast R) (c : cfg) (now : Z) (ops : list (sop_t A)) (chs : list (list A)),
  p_drain P = true ->
  Forall (Forall (fun r => rlen r < p_cap P)) progs0 ->
  reach R rlen P (init progs0) s -> joined (gh s) = true ->
  evs_ops R A bytes (out (gh s)) ops chs ->
  dirty (lf_run c (lf_new now) ops) = 0 /\
  lf_run c (lf_new now) (ops ++ [SClose]) = do_close (lf_run c (lf_new now) ops).
Proof. exact stop_nothing_buffered. Qed.
Print Assumptions C16_stop_nothing_buffered.

(* ~AsyncLogging() { if (running_) stop(); }: entering the destructor while the logger runs is calling stop();
   when it has returned, every record appended before the destructor was entered has been taken by the
   back-end (taken = hist-at-entry ++ rest), all batches were rendered, the final batch written, the last
   event is a flush.  If stop() had been called before, the destructor does nothing *)
Theorem C16_destructor_flushes :
  forall (R : Type) (rlen : R -> Z) (P : params),
  params_ok P = true -> sites_agree P = true ->
  forall (progs0 : list (list R)) (s : ast R) (ls : list label) (s2 : ast R),
  p_drain P = true ->
  Forall (Forall (fun r => rlen r < p_cap P)) progs0 -> reach R rlen P (init progs0) s ->
  (mark (gh s) <> None -> dtor_entry R rlen P s = s) /\
  (mark (gh s) = None -> run R rlen P (dtor_entry R rlen P s) ls = Some s2 -> joined (gh s2) = true ->
     exists rest,
       taken (gh s2) = hist (gh s) ++ rest /\ pc (be s2) = PDone /\
       out (gh s2) = final_out R P (gh s2) /\
       dropped (gh s2) = flat_map (dropped_of R P) (batches (gh s2))).
Proof. exact destructor_flushes. Qed.
Print Assumptions C16_destructor_flushes.

(* liveness of stop() / of the destructor: from every reachable state in which running_ is false, under EVERY
   infinite schedule that is fair to the back-end (it names the back-end again and again; labels that are not
   enabled are skipped; the front-end threads may do anything in between), the back-end reaches its exit; there
   the join is enabled (unless it has happened) and the state after the join satisfies the stop guarantee *)
Theorem C16_stop_liveness :
  forall (R : Type) (rlen : R -> Z) (P : params),
  params_ok P = true -> sites_agree P = true ->
  forall (progs0 : list (list R)) (s : ast R) (f : nat -> label),
  p_drain P = true ->
  Forall (Forall (fun r => rlen r < p_cap P)) progs0 -> reach R rlen P (init progs0) s ->
  running (sh s) = false -> fair_to_backend f ->
  exists n, let s' := exec R rlen P s (sched_prefix f n) in
    reach R rlen P (init progs0) s' /\ pc (be s') = PDone /\
    (joined (gh s') = true \/
     exists s'', step R rlen P s' LJoin = Some s'' /\ joined (gh s'') = true /\ reach R rlen P (init progs0) s'' /\
                 stop_flushed_full R P s'').
Proof. exact stop_liveness. Qed.
Print Assumptions C16_stop_liveness.

(* AsyncLogging on top of LogFile: if the events the back-end produced are performed as LogFile
   operations (a buffer = one append of its bytes), with any clock, roll size, short-write pattern, and
   the stream reports no error, then the files in creation order concatenated are the bytes of the events
   in order and every file consists of whole appends *)
Theorem C16_async_files : forall (R A : Type) (bytes : R -> list A) (c : cfg) (now : Z)
    (es : list (oev R)) (ops : list (sop_t A)) (chs : list (list A)),
  0 < now -> evs_ops R A bytes es ops chs ->
  forallb (fun o => negb (op_error o)) ops = true ->
  let s := lf_run c (lf_new now) ops in
  concat (map snd (files_in_order s)) = concat chs /\
  exists groups : list (list (list A)),
    Forall2 (fun f g => snd f = concat g) (files_in_order s) groups /\
    concat groups = flat_map (@op_record A) ops.
Proof. exact compose_files. Qed.
Print Assumptions C16_async_files.

(* ------------------------------------------------------------------ several sinks in one process *)
(* The models are per object.  A process with several sinks (two LogFiles, a LogFile next to an AsyncLogging,
   two AsyncLoggings) is the PRODUCT of their models if the objects share no state; this is the obligation
   read off the clang AST of the current sources: AppendFile, LogFile, AsyncLogging, FixedBuffer have no static
   data member (static const constants excepted) and no member function refers to a variable declared outside
   it other than a member of its own object (stderr/stdout/errno excepted) *)
Theorem C16_sinks_share_no_state : Sinks_share_no_state = true.
Proof. exact eq_refl. Qed.
Print Assumptions C16_sinks_share_no_state.

(* the product theorem the obligation justifies, for any two models (LogFile, AsyncLogging front-end/back-end
   steps, ...) and ANY interleaving of their operations: each sink's state - hence its files - is its own model
   run on its own operations in their order, independent of what was done to the other sink; instantiated for
   two LogFiles with different configurations and clocks.  N sinks: iterate (a product is a model) *)
Theorem C16_sinks_independent :
  (forall (S1 S2 O1 O2 : Type) (step1 : S1 -> O1 -> S1) (step2 : S2 -> O2 -> S2) (ops : list (O1 + O2)) (s : S1 * S2),
     pair_run S1 S2 O1 O2 step1 step2 s ops =
     (fold_left step1 (lefts O1 O2 ops) (fst s), fold_left step2 (rights O1 O2 ops) (snd s))) /\
  (forall (A : Type) (c1 c2 : cfg) (now1 now2 : Z) (ops : list (sop_t A + sop_t A)),
     let s := pair_run _ _ _ _ (lf_step c1) (lf_step c2) (lf_new now1, lf_new now2) ops in
     fst s = lf_run c1 (lf_new now1) (lefts _ _ ops) /\ snd s = lf_run c2 (lf_new now2) (rights _ _ ops)).
Proof. exact (conj pair_run_split two_logfiles_independent). Qed.
Print Assumptions C16_sinks_independent.

(* ------------------------------------------------------------------ the current tree *)
(* the premises hold of the constants regenerated from the current sources (closed computations); of the two
   comparison operators only their agreement is required: changing both sites to `>=` is harmless *)
Theorem C16_current_facts :
  params_ok current_params = true /\ sites_agree current_params = true /\
  LogFile_roll_guard_is_gt = true /\ AppendFile_append_loop_ok = true /\
  p_cap current_params = LogStream_kLargeBuffer /\
  (forall n, n <= LogStream_kSmallBuffer -> n < p_cap current_params) /\
  (0 <= flushInterval (default_cfg 0) /\ 1 <= checkEveryN (default_cfg 0) /\ 0 < LogFile_kRollPerSeconds).
Proof.
  split; [reflexivity|]. split; [reflexivity|]. split; [reflexivity|].
  split; [reflexivity|]. split; [reflexivity|]. split; [exact (small_lines eq_refl)|exact (default_cfg_sane eq_refl)].
Qed.
Print Assumptions C16_current_facts.

(* the shape the CURRENT sources have (generated fact AsyncLogging_drain_after_loop): proved for all
   schedules if the drain is there, refuted by the witness if it is not *)
Theorem C16_current_tree :
  current_verdict AsyncLogging_drain_after_loop /\
  with_drain AsyncLogging_drain_after_loop current_params = current_params.
Proof. exact (current_tree eq_refl eq_refl). Qed.
Print Assumptions C16_current_tree.

(* the theorems above for the current constants and every record a LogStream line can be
   (length <= kSmallBuffer), no premise left *)
Theorem C16_current_exactly_once :
  forall (R : Type) (rlen : R -> Z) (progs0 : list (list R)) (s : ast R),
  Forall (Forall (fun r => rlen r <= LogStream_kSmallBuffer)) progs0 ->
  reach R rlen current_params (init progs0) s ->
  hist (gh s) = taken (gh s) ++ flat (bufs (sh s)) ++ recs (cur (sh s)) /\
  (forall t, per_thread t (gh s) ++ nth t (progs s) [] = nth t progs0 []) /\
  written_of (out (gh s)) ++ written_of (pending R current_params (pc (be s))) =
    flat (flat_map (kept_of R current_params) (batches (gh s))) ++
    (if pc_final (pc (be s)) then flat (fbatch (gh s)) else []) /\
  dropped (gh s) ++ dropping R current_params (pc (be s)) =
    flat_map (dropped_of R current_params) (batches (gh s)) /\
  fault (be s) = false.
Proof. exact (fun R rlen progs0 s Hl Hr => current_exactly_once eq_refl eq_refl R rlen progs0 s Hl eq_refl Hr). Qed.
Print Assumptions C16_current_exactly_once.

Theorem C16_current_roll : forall (A : Type) (c : cfg) (now : Z) (ops : list (sop_t A)),
  StronglySorted Z.lt (map fst (files_in_order (lf_run c (@lf_new A now) ops))).
Proof. exact (fun A => names_increasing A eq_refl). Qed.
Print Assumptions C16_current_roll.

(* ------------------------------------------------------------------ non-vacuity *)
(* LogFile: three files, a short write, a same-second roll request that is refused *)
Definition ex_ops : list (sop_t nat) :=
  [SAppend [1;2;3]%nat [(2, false)]%nat 1000 1000; SAppend [4;5]%nat [] 1001 1001; SRoll 1001;
   SAppend [6]%nat [] 1001 1001; SFlush; SAppend [7;8;9;10]%nat [] 1005 1005].
Example C16_files_nonvacuous :
  files_in_order (lf_run (mkCfg 4 3 1024) (lf_new 1000) ex_ops) =
    [(1000, [1;2;3;4;5]%nat); (1001, [6;7;8;9;10]%nat); (1005, [])] /\
  forallb (fun o => negb (op_error o)) ex_ops = true /\
  snd (roll 1001 (lf_run (mkCfg 4 3 1024) (lf_new 1000) (firstn 1 ex_ops))) = true /\
  snd (roll 1001 (lf_run (mkCfg 4 3 1024) (lf_new 1000) (firstn 2 ex_ops))) = false.
Proof. vm_compute. repeat split; reflexivity. Qed.

(* a stream error: the chunk is a strict prefix, and is still in the right place *)
Example C16_stream_error_nonvacuous :
  af_loop [(2, false); (1, true)]%nat [1;2;3;4;5]%nat = ([1;2;3]%nat, 2%nat, true).
Proof. reflexivity. Qed.

(* AsyncLogging, repaired shape: the F-8 schedule with the drain's two further steps is a run; stop()
   returns (the hypothesis of C16_stop_flushes is inhabited); both records are written, in order *)
Example C16_stop_flushes_nonvacuous :
  match run nat f8_rlen (with_drain true current_params) (init f8_progs) f8_sched_drain with
  | Some s => joined (gh s) = true /\ mark (gh s) = Some 2%nat /\ hist (gh s) = [1; 2]%nat /\
              written_of (out (gh s)) = [1; 2]%nat /\ per_thread 0 (gh s) = [1; 2]%nat /\
              pc (be s) = PDone /\ last (out (gh s)) OFlush = OFlush /\ length (out (gh s)) = 4%nat
  | None => False
  end.
Proof. vm_compute. repeat split; reflexivity. Qed.

(* the same schedule without the drain is a run of the pinned shape (the refutation is not vacuous):
   record 2 stays in currentBuffer_ *)
Example C16_f8_witness_run :
  match run nat f8_rlen (with_drain false current_params) (init f8_progs) f8_sched with
  | Some s => joined (gh s) = true /\ hist (gh s) = [1; 2]%nat /\ written_of (out (gh s)) = [1]%nat /\
              recs (cur (sh s)) = [2]%nat
  | None => False
  end.
Proof. vm_compute. repeat split; reflexivity. Qed.

(* the valve: a small shape (capacity 10, threshold 3, keep 2): three threads, five buffers queued while
   the back-end waits; the batch of 5 > 3 is announced, buffers 3..5 are erased, 1..2 written *)
Definition ex_P : params := mkParams true true true 10 3 2 2.
Definition ex_valve_progs : list (list nat) := [[11; 12]; [21; 22]; [31]]%nat.
Definition ex_valve_sched : list label :=
  [LBack; LBack; LApp 0; LApp 1; LApp 2; LApp 0; LApp 1; LBack; LBack; LBack; LBack; LBack; LBack;
   LStop; LBack; LBack; LBack; LBack; LBack; LBack; LBack; LJoin].
Example C16_valve_nonvacuous :
  params_ok ex_P = true /\
  match run nat (fun _ => 6) ex_P (init ex_valve_progs) ex_valve_sched with
  | Some s => joined (gh s) = true /\
              hist (gh s) = [11; 21; 31; 12; 22]%nat /\
              per_thread 1 (gh s) = [21; 22]%nat /\
              map (fun e => match e with OStderr n => n | OFileAnn n => (100 + n)%nat | OBuf _ => 200%nat | OFlush => 300%nat end)
                  (out (gh s)) = [3; 103; 200; 200; 300; 200; 300; 200; 300]%nat /\
              written_of (out (gh s)) = [11; 21]%nat /\
              flat (dropped (gh s)) = [31; 12; 22]%nat /\
              fault (be s) = false
  | None => False
  end.
Proof. vm_compute. repeat split; reflexivity. Qed.

(* end to end: the run of C16_stop_flushes_nonvacuous, its four events performed on a LogFile with the
   default configuration (a record r is the one byte r): the hypotheses of C16_stop_end_to_end are inhabited
   and the file holds both records in order *)
Definition e2e_ops : list (sop_t nat) := [SAppend [1]%nat [] 1000 1000; SFlush; SAppend [2]%nat [] 1001 1001; SFlush].
Definition e2e_chs : list (list nat) := [[1]; []; [2]; []]%nat.
Example C16_end_to_end_nonvacuous :
  match run nat f8_rlen (with_drain true current_params) (init f8_progs) f8_sched_drain with
  | Some s => joined (gh s) = true /\ dropped (gh s) = [] /\
              evs_ops nat nat (fun r => [r]) (out (gh s)) e2e_ops e2e_chs /\
              forallb (fun o => negb (op_error o)) e2e_ops = true /\
              files_in_order (lf_run (default_cfg 1000000) (lf_new 1000) e2e_ops) = [(1000, [1; 2]%nat)]
  | None => False
  end.
Proof.
  vm_compute. split; [reflexivity|]. split; [reflexivity|]. split; [|split; reflexivity].
  apply (eos_cons nat nat (fun r => [r]) _ [SAppend [1%nat] [] 1000 1000]); [constructor|].
  apply (eos_cons nat nat (fun r => [r]) _ [SFlush]); [constructor|].
  apply (eos_cons nat nat (fun r => [r]) _ [SAppend [2%nat] [] 1001 1001]); [constructor|].
  apply (eos_cons nat nat (fun r => [r]) _ [SFlush]); [constructor|]. apply eos_nil.
Qed.

(* termination: from the state right after stop() in the F-8 schedule the rank is 6; the back-end, left alone,
   is at its exit after 5 steps, and the join returns *)
Example C16_stop_terminates_nonvacuous :
  match run nat f8_rlen (with_drain true current_params) (init f8_progs) (firstn 6 f8_sched_drain) with
  | Some s => running (sh s) = false /\ stop_rank s = 6%nat /\
              match run nat f8_rlen (with_drain true current_params) s (repeat LBack 5) with
              | Some s' => pc (be s') = PDone /\ stop_rank s' = 0%nat /\
                           step nat f8_rlen (with_drain true current_params) s' LJoin <> None
              | None => False end
  | None => False
  end.
Proof. vm_compute. repeat split; try reflexivity. discriminate. Qed.

(* the concrete stamp: 1970-01-01 23:59:59 and the next second *)
Example C16_stamp_nonvacuous :
  map Base_Bytes.Z_of_byte (stamp 86399) = [46;49;57;55;48;48;49;48;49;45;50;51;53;57;53;57;46] /\
  map Base_Bytes.Z_of_byte (stamp 86400) = [46;49;57;55;48;48;49;48;50;45;48;48;48;48;48;48;46] /\
  C20_Model.utc_first <= 86399 /\ 86400 < C20_Model.utc_end.
Proof. vm_compute. repeat split; try reflexivity; discriminate. Qed.

(* two threads on one thread-safe LogFile: thread 1's section first, then thread 0's two calls; a second
   thread cannot enter while the mutex is held *)
Definition mon_progs : list (list (lfop nat)) :=
  [[MApp [1]%nat [] 1000 1000; MFlush]; [MApp [2; 3]%nat [] 1001 1001]].
Definition mon_sched : list Conc_Model.label :=
  [Conc_Model.LAcquire 1; Conc_Model.LBody 1 []; Conc_Model.LAcquire 0; Conc_Model.LBody 0 [];
   Conc_Model.LAcquire 0; Conc_Model.LBody 0 []].
Example C16_logfile_threadsafe_nonvacuous :
  match Conc_Model.run (lf_body nat (default_cfg 1000)) (lfm_init nat 1000 mon_progs) mon_sched with
  | Some s => files_in_order (shared s) = [(1000, [2; 3; 1]%nat)] /\ nflush (shared s) = 1%nat /\
              calls_of nat 0 (Conc_Model.hist s) = nth 0 mon_progs [] /\
              Forall (fun th => prog th = []) (threads s)
  | None => False
  end /\
  match Conc_Model.run (lf_body nat (default_cfg 1000)) (lfm_init nat 1000 mon_progs) [Conc_Model.LAcquire 1] with
  | Some s => Conc_Model.step (lf_body nat (default_cfg 1000)) s (Conc_Model.LAcquire 0) = None
  | None => False
  end.
Proof. vm_compute. repeat split; try reflexivity. repeat constructor. Qed.

(* destructor while running (state of the F-8 schedule just before stop(), one record still in
   currentBuffer_): both records are taken and written; liveness: the schedule "always the back-end" is fair
   and brings the back-end to its exit *)
Example C16_destructor_nonvacuous :
  match run nat f8_rlen (with_drain true current_params) (init f8_progs) (firstn 5 f8_sched_drain) with
  | Some s => mark (gh s) = None /\ recs (cur (sh s)) = [2]%nat /\
      match run nat f8_rlen (with_drain true current_params) (dtor_entry nat f8_rlen (with_drain true current_params) s)
                (repeat LBack 5 ++ [LJoin]) with
      | Some s2 => joined (gh s2) = true /\ taken (gh s2) = hist (gh s) /\ written_of (out (gh s2)) = [1; 2]%nat
      | None => False end /\
      pc (be (exec nat f8_rlen (with_drain true current_params)
                   (dtor_entry nat f8_rlen (with_drain true current_params) s)
                   (sched_prefix (fun _ => LBack) 5))) = PDone
  | None => False
  end /\ fair_to_backend (fun _ => LBack).
Proof.
  split; [vm_compute; repeat split; reflexivity|]. intros n. exists n. split; [apply le_n|reflexivity].
Qed.

(* ~LogFile: 3 bytes were handed to stdio and not flushed; after the destructor none are left *)
Example C16_logfile_destructor_nonvacuous :
  dirty (lf_run (default_cfg 1000) (lf_new 1000) [SAppend [1; 2; 3]%nat [] 1000 1000]) = 3 /\
  dirty (lf_run (default_cfg 1000) (lf_new 1000) [SAppend [1; 2; 3]%nat [] 1000 1000; SClose]) = 0.
Proof. vm_compute. split; reflexivity. Qed.

(* two LogFiles written alternately: each ends with exactly its own records *)
Example C16_sinks_nonvacuous :
  let s := pair_run _ _ _ _ (lf_step (default_cfg 1000)) (lf_step (default_cfg 1000)) (lf_new 1000, lf_new 1000)
             [inl (SAppend [1]%nat [] 1000 1000); inr (SAppend [7; 8]%nat [] 1000 1000); inl (SAppend [2]%nat [] 1000 1000);
              inr SFlush; inl SClose] in
  files_in_order (fst s) = [(1000, [1; 2]%nat)] /\ files_in_order (snd s) = [(1000, [7; 8]%nat)].
Proof. vm_compute. split; reflexivity. Qed.

(* ------------------------------------------------------------------ a file name used again *)
(* a sink destroyed and created again with the same basename within the second that names the file opens the SAME
   file: with the mode the current source passes to fopen (regenerated fact AppendFile_opens_in_append_mode) the file
   ends with what it held before followed by every session's bytes in session order - nothing already on disk is
   lost, for every sequence of sessions.  A truncating mode keeps the last session only (C16_reopen_truncate_refuted). *)
Theorem C16_reopen_continues : forall (A : Type) (ss : list (list A)) (disk : list A),
  sessions A AppendFile_opens_in_append_mode disk ss = disk ++ concat ss.
Proof. exact sessions_current_tree. Qed.
Print Assumptions C16_reopen_continues.
Theorem C16_reopen_truncate_refuted :
  (forall (A : Type) (ss : list (list A)) (disk : list A), ss <> [] -> sessions A false disk ss = last ss []) /\
  (exists ss : list (list Z), sessions Z false [] ss <> concat ss).
Proof. exact (conj sessions_truncate truncate_loses). Qed.
Print Assumptions C16_reopen_truncate_refuted.
Example C16_reopen_nonvacuous : sessions Z AppendFile_opens_in_append_mode [7%Z] [[1%Z; 2%Z]; []; [3%Z]] = [7; 1; 2; 3]%Z.
Proof. vm_compute. reflexivity. Qed.
