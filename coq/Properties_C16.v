From Coq Require Import List ZArith.
From Muduo Require Import C16_Model.
Example C16_stub : params_ok current_params = true.
Proof. reflexivity. Qed.
