(* C10_Model: executable model of muduo::net::Buffer (muduo/net/Buffer.h, Buffer.cc).
   Concrete state = the three private fields; every memory access the C++ performs
   goes through the bounds-checked [read_at]/[write_at]; a failed bounds check or a
   failed internal assertion is [Fault]; a violated documented precondition (an
   assert on an argument in the header) is [Rejected].
   No proofs in this file: it must keep running when a proof breaks. *)
From Coq Require Import List ZArith Lia Bool Arith NArith.
From Coq.Strings Require Import Byte.
From Muduo Require Import Base_Bytes Gen_Consts.
Import ListNotations.

Inductive res (A : Type) : Type :=
| Ok (a : A)
| Rejected   (* caller violated a documented precondition *)
| Fault.     (* out-of-bounds access or internal assertion failure: a bug *)
Arguments Ok {A} a.
Arguments Rejected {A}.
Arguments Fault {A}.

Definition bind {A B} (x : res A) (f : A -> res B) : res B :=
  match x with Ok a => f a | Rejected => Rejected | Fault => Fault end.
Notation "x <- e ;; k" := (bind e (fun x => k)) (at level 61, e at next level, right associativity).

Definition kCheapPrepend : nat := Z.to_nat Gen_Consts.Buffer_kCheapPrepend.
Definition kInitialSize  : nat := Z.to_nat Gen_Consts.Buffer_kInitialSize.
Definition kExtraBuf     : nat := Z.to_nat Gen_Consts.Buffer_extrabuf_size.

Record buf := mkBuf {
  store : list byte;   (* buffer_ *)
  ridx  : nat;         (* readerIndex_ *)
  widx  : nat;         (* writerIndex_ *)
  up    : nat          (* ghost: bytes prepended since ridx was last reset *)
}.

Definition new_buf (initial : nat) : buf :=
  mkBuf (repeat x00 (kCheapPrepend + initial)) kCheapPrepend kCheapPrepend 0.

Definition readableBytes (b : buf) : nat := widx b - ridx b.
Definition writableBytes (b : buf) : nat := length (store b) - widx b.
Definition prependableBytes (b : buf) : nat := ridx b.

(* ---- checked memory ------------------------------------------------------ *)
Definition read_at (s : list byte) (pos len : nat) : option (list byte) :=
  if pos + len <=? length s then Some (firstn len (skipn pos s)) else None.

Definition write_at (s : list byte) (pos : nat) (d : list byte) : option (list byte) :=
  if pos + length d <=? length s
  then Some (firstn pos s ++ d ++ skipn (pos + length d) s) else None.

Definition mem {A} (o : option A) : res A :=
  match o with Some a => Ok a | None => Fault end.

Definition readable (b : buf) : list byte :=
  firstn (readableBytes b) (skipn (ridx b) (store b)).

(* std::vector<char>::resize(n): truncate or pad with value-initialised chars *)
Definition vresize (s : list byte) (n : nat) : list byte :=
  firstn n s ++ repeat x00 (n - length s).

(* ---- Buffer.h ------------------------------------------------------------ *)

(* makeSpace, Buffer.h:390-409 *)
Definition makeSpace (len : nat) (b : buf) : res buf :=
  if writableBytes b + prependableBytes b <? len + kCheapPrepend then
    Ok (mkBuf (vresize (store b) (widx b + len)) (ridx b) (widx b) (up b))
  else
    if kCheapPrepend <? ridx b then   (* assert(kCheapPrepend < readerIndex_) *)
      d <- mem (read_at (store b) (ridx b) (readableBytes b)) ;;
      s' <- mem (write_at (store b) kCheapPrepend d) ;;
      Ok (mkBuf s' kCheapPrepend (kCheapPrepend + readableBytes b) 0)
    else Fault.

(* ensureWritableBytes, Buffer.h:191-198 *)
Definition ensureWritable (len : nat) (b : buf) : res buf :=
  b1 <- (if writableBytes b <? len then makeSpace len b else Ok b) ;;
  if len <=? writableBytes b1 then Ok b1 else Fault.

(* hasWritten with the bytes the caller stored at beginWrite(), Buffer.h:206-210 *)
Definition hasWrittenBytes (d : list byte) (b : buf) : res buf :=
  if length d <=? writableBytes b then
    s' <- mem (write_at (store b) (widx b) d) ;;
    Ok (mkBuf s' (ridx b) (widx b + length d) (up b))
  else Rejected.

(* append, Buffer.h:176-189: the copy is unconditional after ensureWritable, and
   hasWritten's assert can only fail if ensureWritable is wrong, hence Fault. *)
Definition append (d : list byte) (b : buf) : res buf :=
  b1 <- ensureWritable (length d) b ;;
  s' <- mem (write_at (store b1) (widx b1) d) ;;
  if length d <=? writableBytes b1
  then Ok (mkBuf s' (ridx b1) (widx b1 + length d) (up b1))
  else Fault.

(* prepend, Buffer.h:348-354 *)
Definition prepend (d : list byte) (b : buf) : res buf :=
  if length d <=? prependableBytes b then
    s' <- mem (write_at (store b) (ridx b - length d) d) ;;
    Ok (mkBuf s' (ridx b - length d) (widx b) (up b + length d))
  else Rejected.

Definition retrieveAll (b : buf) : buf :=
  mkBuf (store b) kCheapPrepend kCheapPrepend 0.

(* retrieve, Buffer.h:113-124 *)
Definition retrieve (len : nat) (b : buf) : res buf :=
  if len <=? readableBytes b then
    if len <? readableBytes b
    then Ok (mkBuf (store b) (ridx b + len) (widx b) (up b))
    else Ok (retrieveAll b)
  else Rejected.

(* peek `len` bytes at the reader index: string(peek(), len) / memcpy(.., peek(), len) *)
Definition peekBytes (len : nat) (b : buf) : res (list byte) :=
  if len <=? readableBytes b then mem (read_at (store b) (ridx b) len) else Rejected.

Definition unwrite (len : nat) (b : buf) : res buf :=
  if len <=? readableBytes b
  then Ok (mkBuf (store b) (ridx b) (widx b - len) (up b))
  else Rejected.

(* shrink, Buffer.h:356-363 *)
Definition shrink (reserve : nat) (b : buf) : res buf :=
  d <- mem (read_at (store b) (ridx b) (readableBytes b)) ;;   (* toStringPiece() *)
  o1 <- ensureWritable (readableBytes b + reserve) (new_buf kInitialSize) ;;
  append d o1.

(* readFd, Buffer.cc:25-58.  [avail] = what the descriptor has ready; the kernel
   fills the iovecs in order up to their total length. *)
Definition readFd_capacity (b : buf) : nat :=
  if writableBytes b <? kExtraBuf then writableBytes b + kExtraBuf else writableBytes b.

Definition readFd (avail : list byte) (b : buf) : res (buf * nat) :=
  let writable := writableBytes b in
  let data := firstn (readFd_capacity b) avail in
  let n := length data in
  if n <=? writable then
    s' <- mem (write_at (store b) (widx b) data) ;;
    Ok (mkBuf s' (ridx b) (widx b + n) (up b), n)
  else
    (* kernel filled vec[0] completely, the rest went to extrabuf *)
    s' <- mem (write_at (store b) (widx b) (firstn writable data)) ;;
    let spill := skipn writable data in
    if length spill <=? kExtraBuf then
      b2 <- append spill (mkBuf s' (ridx b) (length s') (up b)) ;;
      Ok (b2, n)
    else Fault.

(* integers, Buffer.h:224-346; k = 1,2,4,8 bytes *)
Definition appendInt (k : nat) (x : Z) (b : buf) : res buf := append (be_encode k x) b.
Definition prependInt (k : nat) (x : Z) (b : buf) : res buf := prepend (be_encode k x) b.
Definition peekInt (k : nat) (b : buf) : res Z :=
  d <- peekBytes k b ;; Ok (be_decode_signed d).

(* searches, Buffer.h:78-111: the scanned window is [peek()+from, beginWrite()) *)
Definition CR : byte := x0d.
Definition LF : byte := x0a.

Fixpoint find_crlf (l : list byte) : option nat :=
  match l with
  | a :: ((b :: _) as t) =>
      if (Byte.eqb a CR && Byte.eqb b LF)%bool then Some 0
      else option_map S (find_crlf t)
  | _ => None
  end.

Fixpoint find_eol (l : list byte) : option nat :=
  match l with
  | [] => None
  | a :: t => if Byte.eqb a LF then Some 0 else option_map S (find_eol t)
  end.

Definition findFrom (f : list byte -> option nat) (from : nat) (b : buf) : res (option nat) :=
  if from <=? readableBytes b then
    win <- mem (read_at (store b) (ridx b + from) (readableBytes b - from)) ;;
    Ok (option_map (fun i => from + i) (f win))
  else Rejected.

(* ---- operations, outputs, step ------------------------------------------ *)
Inductive op : Type :=
| Append (d : list byte)
| Prepend (d : list byte)
| Retrieve (n : nat)
| RetrieveAll
| RetrieveAsString (n : nat)
| EnsureWritable (n : nat)
| HasWritten (d : list byte)
| Unwrite (n : nat)
| Shrink (reserve : nat)
| Swap
| ReadFd (avail : list byte)
| AppendInt (k : nat) (x : Z)
| PrependInt (k : nat) (x : Z)
| PeekInt (k : nat)
| ReadInt (k : nat)
| FindCRLF (from : nat)
| FindEOL (from : nat).

Inductive out : Type :=
| OUnit
| ONat (n : nat)
| OBytes (l : list byte)
| OInt (z : Z)
| OIdx (i : option nat).

(* two buffers so that swap() is an operation; all other ops act on the first *)
Definition state : Type := (buf * buf)%type.

Definition on_fst (r : res buf) (st : state) (o : out) : res (state * out) :=
  b' <- r ;; Ok ((b', snd st), o).

Definition step (st : state) (o : op) : res (state * out) :=
  let b := fst st in
  match o with
  | Append d => on_fst (append d b) st OUnit
  | Prepend d => on_fst (prepend d b) st OUnit
  | Retrieve n => on_fst (retrieve n b) st OUnit
  | RetrieveAll => Ok ((retrieveAll b, snd st), OUnit)
  | RetrieveAsString n =>
      d <- peekBytes n b ;; on_fst (retrieve n b) st (OBytes d)
  | EnsureWritable n => on_fst (ensureWritable n b) st OUnit
  | HasWritten d => on_fst (hasWrittenBytes d b) st OUnit
  | Unwrite n => on_fst (unwrite n b) st OUnit
  | Shrink r => on_fst (shrink r b) st OUnit
  | Swap => Ok ((snd st, fst st), OUnit)
  | ReadFd avail => r <- readFd avail b ;; Ok ((fst r, snd st), ONat (snd r))
  | AppendInt k x => on_fst (appendInt k x b) st OUnit
  | PrependInt k x => on_fst (prependInt k x b) st OUnit
  | PeekInt k => z <- peekInt k b ;; Ok (st, OInt z)
  | ReadInt k => z <- peekInt k b ;; on_fst (retrieve k b) st (OInt z)
  | FindCRLF from => i <- findFrom find_crlf from b ;; Ok (st, OIdx i)
  | FindEOL from => i <- findFrom find_eol from b ;; Ok (st, OIdx i)
  end.

(* run a whole op list; the trace keeps every output *)
Fixpoint run (st : state) (ops : list op) : res (state * list out) :=
  match ops with
  | [] => Ok (st, [])
  | o :: rest =>
      r <- step st o ;;
      r' <- run (fst r) rest ;;
      Ok (fst r', snd r :: snd r')
  end.

(* ---- abstract specification: a plain FIFO of bytes ----------------------- *)
Definition sstate : Type := (list byte * list byte)%type.

(* documented preconditions, in terms of the public size observers only *)
Definition guard (b : buf) (o : op) : bool :=
  match o with
  | Prepend d => length d <=? prependableBytes b
  | PrependInt k _ => k <=? prependableBytes b
  | Retrieve n | RetrieveAsString n | Unwrite n | PeekInt n | ReadInt n =>
      n <=? readableBytes b
  | HasWritten d => length d <=? writableBytes b
  | FindCRLF from | FindEOL from => from <=? readableBytes b
  | _ => true
  end.

(* [cap] is the capacity readFd offers to the kernel (a function of writableBytes) *)
Definition spec_step (s : sstate) (cap : nat) (o : op) : sstate * out :=
  let l := fst s in
  let keep (l' : list byte) (o : out) := ((l', snd s), o) in
  match o with
  | Append d => keep (l ++ d) OUnit
  | Prepend d => keep (d ++ l) OUnit
  | Retrieve n => keep (skipn n l) OUnit
  | RetrieveAll => keep [] OUnit
  | RetrieveAsString n => keep (skipn n l) (OBytes (firstn n l))
  | EnsureWritable _ => keep l OUnit
  | HasWritten d => keep (l ++ d) OUnit
  | Unwrite n => keep (firstn (length l - n) l) OUnit
  | Shrink _ => keep l OUnit
  | Swap => ((snd s, fst s), OUnit)
  | ReadFd avail => keep (l ++ firstn cap avail) (ONat (length (firstn cap avail)))
  | AppendInt k x => keep (l ++ be_encode k x) OUnit
  | PrependInt k x => keep (be_encode k x ++ l) OUnit
  | PeekInt k => keep l (OInt (be_decode_signed (firstn k l)))
  | ReadInt k => keep (skipn k l) (OInt (be_decode_signed (firstn k l)))
  | FindCRLF from =>
      keep l (OIdx (option_map (fun i => from + i) (find_crlf (skipn from l))))
  | FindEOL from =>
      keep l (OIdx (option_map (fun i => from + i) (find_eol (skipn from l))))
  end.
