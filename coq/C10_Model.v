(* C10_Model: executable model of muduo::net::Buffer (muduo/net/Buffer.h, Buffer.cc).
   Concrete state = the three private fields; every memory access the C++ performs
   goes through the bounds-checked [read_at]/[write_at]; a failed bounds check or a
   failed internal assertion is [Fault]; a violated documented precondition (an
   assert on an argument in the header) is [Rejected].
   No proofs in this file: it must keep running when a proof breaks. *)
From Coq Require Import List ZArith Lia Bool Arith NArith.
From Coq.Strings Require Import Byte.
From Muduo Require Import Base_Bytes Gen_Consts.
Import ListNotations.

Inductive res (A : Type) : Type :=
| Ok (a : A)
| Rejected   (* caller violated a documented precondition *)
| Fault.     (* out-of-bounds access or internal assertion failure: a bug *)
Arguments Ok {A} a.
Arguments Rejected {A}.
Arguments Fault {A}.

Definition bind {A B} (x : res A) (f : A -> res B) : res B :=
  match x with Ok a => f a | Rejected => Rejected | Fault => Fault end.
Notation "x <- e ;; k" := (bind e (fun x => k)) (at level 61, e at next level, right associativity).

(* the four integer widths of appendIntN / prependIntN / peekIntN / readIntN / retrieveIntN *)
Inductive width : Type := W8 | W16 | W32 | W64.
Definition wbytes (w : width) : nat :=          (* sizeof(intN_t) *)
  match w with W8 => 1 | W16 => 2 | W32 => 4 | W64 => 8 end.

Definition kCheapPrepend : nat := Z.to_nat Gen_Consts.Buffer_kCheapPrepend.
Definition kInitialSize  : nat := Z.to_nat Gen_Consts.Buffer_kInitialSize.
Definition kExtraBuf     : nat := Z.to_nat Gen_Consts.Buffer_extrabuf_size.

Record buf := mkBuf {
  store : list byte;   (* buffer_ *)
  ridx  : nat;         (* readerIndex_ *)
  widx  : nat;         (* writerIndex_ *)
  up    : nat          (* ghost: bytes prepended since ridx was last reset *)
}.

Definition new_buf (initial : nat) : buf :=
  mkBuf (repeat x00 (kCheapPrepend + initial)) kCheapPrepend kCheapPrepend 0.

Definition readableBytes (b : buf) : nat := widx b - ridx b.
Definition writableBytes (b : buf) : nat := length (store b) - widx b.
Definition prependableBytes (b : buf) : nat := ridx b.

(* ---- checked memory ------------------------------------------------------ *)
Definition read_at (s : list byte) (pos len : nat) : option (list byte) :=
  if pos + len <=? length s then Some (firstn len (skipn pos s)) else None.

Definition write_at (s : list byte) (pos : nat) (d : list byte) : option (list byte) :=
  if pos + length d <=? length s
  then Some (firstn pos s ++ d ++ skipn (pos + length d) s) else None.

Definition mem {A} (o : option A) : res A :=
  match o with Some a => Ok a | None => Fault end.

Definition readable (b : buf) : list byte :=
  firstn (readableBytes b) (skipn (ridx b) (store b)).

(* std::vector<char>::resize(n): truncate or pad with value-initialised chars *)
Definition vresize (s : list byte) (n : nat) : list byte :=
  firstn n s ++ repeat x00 (n - length s).

(* ---- Buffer.h ------------------------------------------------------------ *)

(* makeSpace, Buffer.h:390-409 *)
Definition makeSpace (len : nat) (b : buf) : res buf :=
  if writableBytes b + prependableBytes b <? len + kCheapPrepend then
    Ok (mkBuf (vresize (store b) (widx b + len)) (ridx b) (widx b) (up b))
  else
    if kCheapPrepend <? ridx b then   (* assert(kCheapPrepend < readerIndex_) *)
      d <- mem (read_at (store b) (ridx b) (readableBytes b)) ;;
      s' <- mem (write_at (store b) kCheapPrepend d) ;;
      Ok (mkBuf s' kCheapPrepend (kCheapPrepend + readableBytes b) 0)
    else Fault.

(* ensureWritableBytes, Buffer.h:191-198 *)
Definition ensureWritable (len : nat) (b : buf) : res buf :=
  b1 <- (if writableBytes b <? len then makeSpace len b else Ok b) ;;
  if len <=? writableBytes b1 then Ok b1 else Fault.

(* hasWritten with the bytes the caller stored at beginWrite(), Buffer.h:206-210 *)
Definition hasWrittenBytes (d : list byte) (b : buf) : res buf :=
  if length d <=? writableBytes b then
    s' <- mem (write_at (store b) (widx b) d) ;;
    Ok (mkBuf s' (ridx b) (widx b + length d) (up b))
  else Rejected.

(* append, Buffer.h:176-189: the copy is unconditional after ensureWritable, and
   hasWritten's assert can only fail if ensureWritable is wrong, hence Fault. *)
Definition append (d : list byte) (b : buf) : res buf :=
  b1 <- ensureWritable (length d) b ;;
  s' <- mem (write_at (store b1) (widx b1) d) ;;
  if length d <=? writableBytes b1
  then Ok (mkBuf s' (ridx b1) (widx b1 + length d) (up b1))
  else Fault.

(* prepend, Buffer.h:348-354 *)
Definition prepend (d : list byte) (b : buf) : res buf :=
  if length d <=? prependableBytes b then
    s' <- mem (write_at (store b) (ridx b - length d) d) ;;
    Ok (mkBuf s' (ridx b - length d) (widx b) (up b + length d))
  else Rejected.

Definition retrieveAll (b : buf) : buf :=
  mkBuf (store b) kCheapPrepend kCheapPrepend 0.

(* retrieve, Buffer.h:113-124 *)
Definition retrieve (len : nat) (b : buf) : res buf :=
  if len <=? readableBytes b then
    if len <? readableBytes b
    then Ok (mkBuf (store b) (ridx b + len) (widx b) (up b))
    else Ok (retrieveAll b)
  else Rejected.

(* peek `len` bytes at the reader index: string(peek(), len) / memcpy(.., peek(), len) *)
Definition peekBytes (len : nat) (b : buf) : res (list byte) :=
  if len <=? readableBytes b then mem (read_at (store b) (ridx b) len) else Rejected.

Definition unwrite (len : nat) (b : buf) : res buf :=
  if len <=? readableBytes b
  then Ok (mkBuf (store b) (ridx b) (widx b - len) (up b))
  else Rejected.

(* shrink, Buffer.h:356-363 *)
Definition shrink (reserve : nat) (b : buf) : res buf :=
  d <- mem (read_at (store b) (ridx b) (readableBytes b)) ;;   (* toStringPiece() *)
  o1 <- ensureWritable (readableBytes b + reserve) (new_buf kInitialSize) ;;
  append d o1.

(* readFd, Buffer.cc:25-58.  The kernel's answer to readv(fd, vec, iovcnt) is the
   environment: either [KData avail] (what the descriptor has ready; the kernel fills the
   iovecs in order up to their total length, 0 bytes = end of file) or [KErr e] (-1, errno e). *)
Inductive kres : Type := KData (avail : list byte) | KErr (errno : Z).

(* const int iovcnt = (writable < sizeof extrabuf) ? 2 : 1 *)
Definition readFd_iovcnt (b : buf) : nat := if writableBytes b <? kExtraBuf then 2 else 1.

Definition readFd_capacity (b : buf) : nat :=
  if writableBytes b <? kExtraBuf then writableBytes b + kExtraBuf else writableBytes b.

Record rfd : Type := mkRfd {
  rf_n : Z;                  (* return value: result of readv *)
  rf_iovcnt : nat;           (* number of iovecs offered *)
  rf_len0 : nat;             (* vec[0].iov_len *)
  rf_errno : option Z        (* *savedErrno written? *)
}.

Definition readFd (k : kres) (b : buf) : res (buf * rfd) :=
  let writable := writableBytes b in
  let cnt := readFd_iovcnt b in
  match k with
  | KErr e =>                                   (* n < 0: *savedErrno = errno; nothing else *)
      Ok (b, mkRfd (-1) cnt writable (Some e))
  | KData avail =>
      let data := firstn (readFd_capacity b) avail in
      let n := length data in
      if n <=? writable then
        s' <- mem (write_at (store b) (widx b) data) ;;
        Ok (mkBuf s' (ridx b) (widx b + n) (up b), mkRfd (Z.of_nat n) cnt writable None)
      else
        (* kernel filled vec[0] completely, the rest went to extrabuf *)
        s' <- mem (write_at (store b) (widx b) (firstn writable data)) ;;
        let spill := skipn writable data in
        if (length spill <=? kExtraBuf) && (cnt =? 2) then
          b2 <- append spill (mkBuf s' (ridx b) (length s') (up b)) ;;
          Ok (b2, mkRfd (Z.of_nat n) cnt writable None)
        else Fault
  end.

(* integers, Buffer.h:224-352.  appendIntN(x): beN = hostToNetworkN(x); append(&beN, sizeof beN);
   prependIntN likewise; peekIntN: assert(readableBytes() >= sizeof(intN_t)); memcpy; networkToHostN;
   readIntN = peekIntN then retrieveIntN = retrieve(sizeof(intN_t)). *)
Definition appendInt (w : width) (x : Z) (b : buf) : res buf := append (be_encode (wbytes w) x) b.
Definition prependInt (w : width) (x : Z) (b : buf) : res buf := prepend (be_encode (wbytes w) x) b.
Definition peekInt (w : width) (b : buf) : res Z :=
  d <- peekBytes (wbytes w) b ;; Ok (be_decode_signed d).
Definition retrieveInt (w : width) (b : buf) : res buf := retrieve (wbytes w) b.
Definition readInt (w : width) (b : buf) : res (buf * Z) :=
  z <- peekInt w b ;; b' <- retrieveInt w b ;; Ok (b', z).

(* pointer arguments (retrieveUntil(end), findCRLF(start), findEOL(start)) are modelled by their
   signed offset from peek(): assert(peek() <= p); assert(p <= beginWrite()) *)
Definition ptr_ok (off : Z) (b : buf) : bool :=
  (0 <=? off)%Z && (off <=? Z.of_nat (readableBytes b))%Z.

(* retrieveUntil(end): two asserts, then retrieve(end - peek()), Buffer.h:126-131 *)
Definition retrieveUntil (off : Z) (b : buf) : res buf :=
  if ptr_ok off b then retrieve (Z.to_nat off) b else Rejected.

(* retrieveAsString(len), Buffer.h:164-170; retrieveAllAsString() = retrieveAsString(readableBytes()) *)
Definition retrieveAsString (len : nat) (b : buf) : res (buf * list byte) :=
  d <- peekBytes len b ;; b' <- retrieve len b ;; Ok (b', d).
Definition retrieveAllAsString (b : buf) : res (buf * list byte) :=
  retrieveAsString (readableBytes b) b.

(* toStringPiece(): StringPiece(peek(), readableBytes()) *)
Definition toStringPiece (b : buf) : res (list byte) := peekBytes (readableBytes b) b.

(* internalCapacity() = buffer_.capacity(); the allocator is not modelled, only the bound
   std::vector guarantees: capacity() >= size().  The model returns that lower bound. *)
Definition internalCapacity_lb (b : buf) : nat := length (store b).

(* searches, Buffer.h:78-111: the scanned window is [peek()+from, beginWrite()) *)
Definition CR : byte := x0d.
Definition LF : byte := x0a.

Fixpoint find_crlf (l : list byte) : option nat :=
  match l with
  | a :: ((b :: _) as t) =>
      if (Byte.eqb a CR && Byte.eqb b LF)%bool then Some 0
      else option_map S (find_crlf t)
  | _ => None
  end.

Fixpoint find_eol (l : list byte) : option nat :=
  match l with
  | [] => None
  | a :: t => if Byte.eqb a LF then Some 0 else option_map S (find_eol t)
  end.

Definition findFrom (f : list byte -> option nat) (from : nat) (b : buf) : res (option nat) :=
  if from <=? readableBytes b then
    win <- mem (read_at (store b) (ridx b + from) (readableBytes b - from)) ;;
    Ok (option_map (fun i => from + i) (f win))
  else Rejected.

(* findCRLF(start) / findEOL(start): start = peek() + off *)
Definition findAt (f : list byte -> option nat) (off : Z) (b : buf) : res (option nat) :=
  if ptr_ok off b then findFrom f (Z.to_nat off) b else Rejected.

(* ---- operations, outputs, step ------------------------------------------ *)
Inductive op : Type :=
| Append (d : list byte)
| Prepend (d : list byte)
| Retrieve (n : nat)
| RetrieveUntil (off : Z)
| RetrieveInt (w : width)
| RetrieveAll
| RetrieveAsString (n : nat)
| RetrieveAllAsString
| ToStringPiece
| EnsureWritable (n : nat)
| HasWritten (d : list byte)
| Unwrite (n : nat)
| Shrink (reserve : nat)
| InternalCapacity
| Swap
| Assign                     (* second = first: the implicit copy assignment *)
| ReadFd (k : kres)
| AppendInt (w : width) (x : Z)
| PrependInt (w : width) (x : Z)
| PeekInt (w : width)
| ReadInt (w : width)
| FindCRLF0                  (* findCRLF() *)
| FindEOL0                   (* findEOL() *)
| FindCRLF (from : Z)        (* findCRLF(peek() + from) *)
| FindEOL (from : Z).

Inductive out : Type :=
| OUnit
| ONat (n : nat)
| OBytes (l : list byte)
| OInt (z : Z)
| OIdx (i : option nat)
| ORead (r : rfd).

(* two buffers so that swap() is an operation; all other ops act on the first *)
Definition state : Type := (buf * buf)%type.

Definition on_fst (r : res buf) (st : state) (o : out) : res (state * out) :=
  b' <- r ;; Ok ((b', snd st), o).

Definition step (st : state) (o : op) : res (state * out) :=
  let b := fst st in
  match o with
  | Append d => on_fst (append d b) st OUnit
  | Prepend d => on_fst (prepend d b) st OUnit
  | Retrieve n => on_fst (retrieve n b) st OUnit
  | RetrieveUntil off => on_fst (retrieveUntil off b) st OUnit
  | RetrieveInt w => on_fst (retrieveInt w b) st OUnit
  | RetrieveAll => Ok ((retrieveAll b, snd st), OUnit)
  | RetrieveAsString n => r <- retrieveAsString n b ;; Ok ((fst r, snd st), OBytes (snd r))
  | RetrieveAllAsString => r <- retrieveAllAsString b ;; Ok ((fst r, snd st), OBytes (snd r))
  | ToStringPiece => d <- toStringPiece b ;; Ok (st, OBytes d)
  | EnsureWritable n => on_fst (ensureWritable n b) st OUnit
  | HasWritten d => on_fst (hasWrittenBytes d b) st OUnit
  | Unwrite n => on_fst (unwrite n b) st OUnit
  | Shrink r => on_fst (shrink r b) st OUnit
  | InternalCapacity => Ok (st, ONat (internalCapacity_lb b))
  | Swap => Ok ((snd st, fst st), OUnit)
  | Assign => Ok ((fst st, fst st), OUnit)
  | ReadFd k => r <- readFd k b ;; Ok ((fst r, snd st), ORead (snd r))
  | AppendInt w x => on_fst (appendInt w x b) st OUnit
  | PrependInt w x => on_fst (prependInt w x b) st OUnit
  | PeekInt w => z <- peekInt w b ;; Ok (st, OInt z)
  | ReadInt w => r <- readInt w b ;; Ok ((fst r, snd st), OInt (snd r))
  | FindCRLF0 => i <- findFrom find_crlf 0 b ;; Ok (st, OIdx i)
  | FindEOL0 => i <- findFrom find_eol 0 b ;; Ok (st, OIdx i)
  | FindCRLF from => i <- findAt find_crlf from b ;; Ok (st, OIdx i)
  | FindEOL from => i <- findAt find_eol from b ;; Ok (st, OIdx i)
  end.

(* run a whole op list; the trace keeps every output *)
Fixpoint run (st : state) (ops : list op) : res (state * list out) :=
  match ops with
  | [] => Ok (st, [])
  | o :: rest =>
      r <- step st o ;;
      r' <- run (fst r) rest ;;
      Ok (fst r', snd r :: snd r')
  end.

(* ---- abstract specification: a plain FIFO of bytes ----------------------- *)
Definition sstate : Type := (list byte * list byte)%type.

(* documented preconditions (the asserts on arguments), in terms of the public size observers only *)
Definition guard (b : buf) (o : op) : bool :=
  match o with
  | Prepend d => length d <=? prependableBytes b
  | PrependInt w _ => wbytes w <=? prependableBytes b
  | Retrieve n | RetrieveAsString n | Unwrite n => n <=? readableBytes b
  | RetrieveInt w | PeekInt w | ReadInt w => wbytes w <=? readableBytes b
  | HasWritten d => length d <=? writableBytes b
  | RetrieveUntil off | FindCRLF off | FindEOL off => ptr_ok off b
  | _ => true
  end.

(* what the kernel delivered of [k] into a capacity of [cap] bytes *)
Definition delivered (cap : nat) (k : kres) : list byte :=
  match k with KData avail => firstn cap avail | KErr _ => [] end.

Definition find_spec (f : list byte -> option nat) (from : nat) (l : list byte) : out :=
  OIdx (option_map (fun i => from + i) (f (skipn from l))).

(* [b] is the concrete first buffer before the op: the spec may look at its public size
   observers only (writableBytes for readFd's capacity, buffer_.size() for the capacity bound) *)
Definition spec_step (s : sstate) (b : buf) (o : op) : sstate * out :=
  let l := fst s in
  let keep (l' : list byte) (o : out) := ((l', snd s), o) in
  match o with
  | Append d => keep (l ++ d) OUnit
  | Prepend d => keep (d ++ l) OUnit
  | Retrieve n => keep (skipn n l) OUnit
  | RetrieveUntil off => keep (skipn (Z.to_nat off) l) OUnit
  | RetrieveInt w => keep (skipn (wbytes w) l) OUnit
  | RetrieveAll => keep [] OUnit
  | RetrieveAsString n => keep (skipn n l) (OBytes (firstn n l))
  | RetrieveAllAsString => keep [] (OBytes l)
  | ToStringPiece => keep l (OBytes l)
  | EnsureWritable _ => keep l OUnit
  | HasWritten d => keep (l ++ d) OUnit
  | Unwrite n => keep (firstn (length l - n) l) OUnit
  | Shrink _ => keep l OUnit
  | InternalCapacity =>
      keep l (ONat (prependableBytes b + readableBytes b + writableBytes b))
  | Swap => ((snd s, fst s), OUnit)
  | Assign => ((fst s, fst s), OUnit)
  | ReadFd k =>
      let d := delivered (readFd_capacity b) k in
      keep (l ++ d)
           (ORead (mkRfd (match k with KData _ => Z.of_nat (length d) | KErr _ => -1 end)
                         (readFd_iovcnt b) (writableBytes b)
                         (match k with KData _ => None | KErr e => Some e end)))
  | AppendInt w x => keep (l ++ be_encode (wbytes w) x) OUnit
  | PrependInt w x => keep (be_encode (wbytes w) x ++ l) OUnit
  | PeekInt w => keep l (OInt (be_decode_signed (firstn (wbytes w) l)))
  | ReadInt w => keep (skipn (wbytes w) l) (OInt (be_decode_signed (firstn (wbytes w) l)))
  | FindCRLF0 => keep l (find_spec find_crlf 0 l)
  | FindEOL0 => keep l (find_spec find_eol 0 l)
  | FindCRLF from => keep l (find_spec find_crlf (Z.to_nat from) l)
  | FindEOL from => keep l (find_spec find_eol (Z.to_nat from) l)
  end.

(* ---- the narrowing casts of toStringPiece() / shrink() (review B-3) -----------------------
   Buffer.h:174  StringPiece(peek(), static_cast<int>(readableBytes()))
   Buffer.h:367  other.append(toStringPiece())  ->  append(str.data(), str.size()), int size()
   [toStringPiece] / [shrink] / [step] above describe the class for readable sizes below 2^31
   (they ignore the cast); the [_c] versions below model it: the length of the piece is the
   readable size wrapped to a signed 32-bit int.  A negative length is not a piece of the
   buffer (shrink: append(data, (size_t)negative) throws std::length_error) = [Fault]; a
   non-negative wrapped length silently keeps only that many bytes.  C10_Cast.v proves
   [step_c st o = step st o] whenever readableBytes < 2^31 and what happens beyond.
   The width of the two casts is regenerated from the source (Gen_C10.toStringPiece_len_cast_bits,
   Gen_C10.append1_size_bits; link C10_GenLink.gen_int_casts). *)
Definition int_bits : Z := 32.
Definition int_cast (z : Z) : Z :=
  let m := (z mod 2 ^ int_bits)%Z in
  if (m <? 2 ^ (int_bits - 1))%Z then m else (m - 2 ^ int_bits)%Z.

Definition toStringPiece_len (b : buf) : Z := int_cast (Z.of_nat (readableBytes b)).

Definition toStringPiece_c (b : buf) : res (list byte) :=
  let k := toStringPiece_len b in
  if (k <? 0)%Z then Fault else peekBytes (Z.to_nat k) b.

Definition shrink_c (reserve : nat) (b : buf) : res buf :=
  let k := toStringPiece_len b in
  if (k <? 0)%Z then Fault else
  d <- mem (read_at (store b) (ridx b) (Z.to_nat k)) ;;        (* toStringPiece(): k bytes at peek() *)
  o1 <- ensureWritable (readableBytes b + reserve) (new_buf kInitialSize) ;;
  append d o1.

Definition step_c (st : state) (o : op) : res (state * out) :=
  let b := fst st in
  match o with
  | ToStringPiece => d <- toStringPiece_c b ;; Ok (st, OBytes d)
  | Shrink r => on_fst (shrink_c r b) st OUnit
  | _ => step st o
  end.
