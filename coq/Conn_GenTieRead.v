(* Conn_GenTieRead: the read side of TcpConnection.cc as it stands in /repo NOW (handleRead's
   n > 0 / n == 0 / else split, startReadInLoop, stopReadInLoop), tied to Conn_Model.  Same scheme
   as Conn_GenTie. *)
From Coq Require Import List ZArith Lia Bool Arith NArith.
From Coq.Strings Require Import Byte.
From Muduo Require Import Gen_Consts Gen_Conn Conn_Model Conn_GenTie.
Import ListNotations.

(* ---- handleRead ---------------------------------------------------------------------------- *)
Lemma tie_read_data_test n : handleRead_data_test (Z.of_nat n) = (0 <? n).
Proof.
  unfold handleRead_data_test. destruct (Nat.ltb_spec 0 n) as [E|E].
  - apply Z.gtb_lt. lia.
  - assert (n = 0) by lia. subst. reflexivity.
Qed.

Lemma tie_read_tests_eof : handleRead_data_test 0 = false /\ handleRead_eof_test 0 = true.
Proof. split; reflexivity. Qed.

Lemma tie_read_tests_err : handleRead_data_test (-1) = false /\ handleRead_eof_test (-1) = false.
Proof. split; reflexivity. Qed.

Lemma tie_read_dispatch : handleRead_dispatch = true.
Proof. reflexivity. Qed.

(* TcpConnection::handleRead with readFd's result n (and, for n > 0, the bytes d it appended):
     if (n > 0) messageCallback_(...); else if (n == 0) handleClose(); else { LOG_SYSERR; handleError(); } *)
Definition handleRead_src (c : conn) (n : Z) (d : list byte) : res (conn * list event) :=
  if handleRead_data_test n then
    Ok (mkConn (st c) (outb c) (inb c ++ d) (writing c) (rd_chan c) (rd_flag c) (registered c) (hwm c)
               (has_wc c) (has_hwm c) (wire c) (fin c) (pending c) (chk c) (delayed c) (accepted c)
               (consumed c) (delivered c ++ d) (enq c) (ran c) (ups c) (downs c),
        [EvMsg (length (inb c ++ d))])
  else if handleRead_eof_test n then handleCloseChecked c
  else Ok (c, [EvErrorLogged]).

Theorem handleRead_is_source : forall c d, (rd_chan c && registered c)%bool = true ->
  (0 < length d -> step c (EvReadData d) = handleRead_src c (Z.of_nat (length d)) d) /\
  step c EvReadEOF = handleRead_src c 0 [] /\
  step c EvReadErr = handleRead_src c (-1) [].
Proof.
  intros c d Hr. unfold step, handleRead_src. cbn [user_op andb]. rewrite Hr. cbn [andb].
  destruct tie_read_tests_eof as [-> ->]. destruct tie_read_tests_err as [-> ->].
  split; [|split; reflexivity].
  intros Hd. rewrite tie_read_data_test. apply Nat.ltb_lt in Hd. rewrite Hd. reflexivity.
Qed.

(* ---- startReadInLoop / stopReadInLoop ------------------------------------------------------ *)
Lemma tie_startread_test c :
  startReadInLoop_startread_test (rd_chan c) TcpConnection_kDisconnected (rd_flag c) (st_code (st c)) =
  (negb (cstate_eqb (st c) Disconnected) && (negb (rd_flag c) || negb (rd_chan c)))%bool.
Proof.
  unfold startReadInLoop_startread_test. change TcpConnection_kDisconnected with (st_code Disconnected).
  rewrite st_code_eqb. reflexivity.
Qed.

Lemma tie_stopread_test c :
  stopReadInLoop_stopread_test (rd_chan c) TcpConnection_kDisconnected (rd_flag c) (st_code (st c)) =
  (negb (cstate_eqb (st c) Disconnected) && (rd_flag c || rd_chan c))%bool.
Proof.
  unfold stopReadInLoop_stopread_test. change TcpConnection_kDisconnected with (st_code Disconnected).
  rewrite st_code_eqb. reflexivity.
Qed.

(* the model's startReadInLoop / stopReadInLoop act exactly under those tests *)
Theorem startRead_is_source : forall c,
  startReadInLoop c =
  if startReadInLoop_startread_test (rd_chan c) TcpConnection_kDisconnected (rd_flag c) (st_code (st c))
  then set_reading c true true else c.
Proof. intros c. rewrite tie_startread_test. reflexivity. Qed.

Theorem stopRead_is_source : forall c,
  stopReadInLoop c =
  if stopReadInLoop_stopread_test (rd_chan c) TcpConnection_kDisconnected (rd_flag c) (st_code (st c))
  then set_reading c false false else c.
Proof. intros c. rewrite tie_stopread_test. reflexivity. Qed.

Lemma startRead_uses_test c :
  startReadInLoop c =
  if startReadInLoop_startread_test (rd_chan c) TcpConnection_kDisconnected (rd_flag c) (st_code (st c))
  then set_reading c true true else c.
Proof. apply startRead_is_source. Qed.

Lemma stopRead_uses_test c :
  stopReadInLoop c =
  if stopReadInLoop_stopread_test (rd_chan c) TcpConnection_kDisconnected (rd_flag c) (st_code (st c))
  then set_reading c false false else c.
Proof. apply stopRead_is_source. Qed.

Theorem pause_is_source : forall c,
  startReadInLoop c =
    (if startReadInLoop_startread_test (rd_chan c) TcpConnection_kDisconnected (rd_flag c) (st_code (st c))
     then set_reading c true true else c) /\
  stopReadInLoop c =
    (if stopReadInLoop_stopread_test (rd_chan c) TcpConnection_kDisconnected (rd_flag c) (st_code (st c))
     then set_reading c false false else c).
Proof. intros c. split; [apply startRead_is_source|apply stopRead_is_source]. Qed.
