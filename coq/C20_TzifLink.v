(* C20_TzifLink: the TZif reader GENERATED statement by statement from TimeZone.cc
   (Gen_C20Tzif: File::readInt64 / readInt32 / readUInt8 / readBytes / skip, readDataBlock,
   readTimeZoneFile with its try / catch) is the reference reader of C20_TzifModel, for every
   file: tzif_parse_g = tzif_parse.  The theorems of C20_TzifProofs therefore hold for the
   generated reader, which is what the extracted model runs. *)
From Coq Require Import List ZArith Bool Arith Lia.
From Coq.Strings Require Import Byte.
From Muduo Require Import Base_Bytes Gen_C20Net C20_Model Gen_C20Tz C20_TzifModel Gen_C20Tzif C20_NetModel C20_SweepDefs C20_TextProofs C20_NetProofs.
Import ListNotations.
Local Open Scope Z_scope.

Definition lift {A} (o : option (A * cur)) : rres A :=
  match o with Some (a, c) => ROk a c | None => RThrow end.

Definition db_to_tz (d : dbres) : tzres :=
  match d with DbTrue tb => TzOk tb | DbFalse => TzFail | DbThrow => TzFail | DbUndef => TzUndefined end.

Lemma readBytes_length n c b c' : readBytes n c = Some (b, c') -> length b = n.
Proof.
  unfold readBytes. destruct (take_n n (crest c)) as [[x y]|] eqn:E; [|discriminate].
  intros H. injection H as <- _. revert x y E. generalize (crest c). induction n as [|n IH]; intros l x y E.
  - cbn in E. injection E as <- _. reflexivity.
  - cbn [take_n] in E. destruct l as [|h t]; [discriminate|].
    destruct (take_n n t) as [[x' y']|] eqn:E'; [|discriminate]. injection E as <- _. cbn [length]. f_equal. eapply IH. exact E'.
Qed.

Lemma sgn_to_signed n v : (0 < n)%nat -> sgn (8 * Z.of_nat n) v = to_signed n v.
Proof.
  intros Hn. unfold sgn, to_signed.
  assert (E : 256 ^ Z.of_nat n = 2 ^ (8 * Z.of_nat n)) by (change 256 with (2 ^ 8); rewrite <- Z.pow_mul_r by lia; reflexivity).
  rewrite E. replace (2 ^ (8 * Z.of_nat n) / 2) with (2 ^ (8 * Z.of_nat n - 1)); [reflexivity|].
  replace (8 * Z.of_nat n) with (1 + (8 * Z.of_nat n - 1)) at 2 by lia.
  rewrite Z.pow_add_r by lia. change (2 ^ 1) with 2. rewrite (Z.mul_comm 2 (2 ^ (8 * Z.of_nat n - 1))), Z.div_mul by lia. reflexivity.
Qed.

(* a signed N-byte big-endian field, read the way the C++ does: load, reinterpret, swap, reinterpret *)
Lemma scalar_conv n (sw : Z -> Z) b : (0 < n)%nat -> swaps n sw -> length b = n ->
  sgn (8 * Z.of_nat n) (wrap_u (8 * Z.of_nat n) (sw (wrap_u (8 * Z.of_nat n) (sgn (8 * Z.of_nat n) (obj_u b))))) = be_decode_signed b.
Proof.
  intros Hn Hs Hl.
  assert (E : 2 ^ (8 * Z.of_nat n) = 256 ^ Z.of_nat n) by (change 256 with (2 ^ 8); rewrite <- Z.pow_mul_r by lia; reflexivity).
  assert (Hp : 0 < 256 ^ Z.of_nat n) by (apply Z.pow_pos_nonneg; lia).
  assert (Hx : 0 <= obj_u b < 256 ^ Z.of_nat n).
  { unfold obj_u. pose proof (be_decode_range (rev b)) as H. rewrite rev_length, Hl in H. exact H. }
  assert (W1 : wrap_u (8 * Z.of_nat n) (sgn (8 * Z.of_nat n) (obj_u b)) = obj_u b).
  { unfold wrap_u, sgn. rewrite E. destruct (obj_u b <? 2 ^ (8 * Z.of_nat n - 1)).
    - apply Z.mod_small. exact Hx.
    - rewrite <- E. rewrite E. replace (obj_u b - 256 ^ Z.of_nat n) with (obj_u b + (-1) * 256 ^ Z.of_nat n) by lia.
      rewrite Z.mod_add by lia. apply Z.mod_small. exact Hx. }
  rewrite W1. change (obj_u b) with (le_decode b). rewrite (swaps_decode n sw Hs b Hl).
  pose proof (be_decode_range b) as Hr. rewrite Hl in Hr.
  unfold wrap_u at 1. rewrite E, Z.mod_small by exact Hr.
  rewrite sgn_to_signed by exact Hn. unfold be_decode_signed. rewrite Hl. reflexivity.
Qed.

Lemma File_readInt32_link c : File_readInt32 c = lift (readInt32 c).
Proof.
  unfold File_readInt32, readInt32. destruct (readBytes 4 c) as [[b c']|] eqn:E; [|reflexivity].
  cbv zeta. cbn [lift]. f_equal. apply (scalar_conv 4 bswap_32 b); [lia|exact swaps_bswap_32|eapply readBytes_length; exact E].
Qed.

Lemma File_readInt64_link c : File_readInt64 c = lift (readInt64 c).
Proof.
  unfold File_readInt64, readInt64. destruct (readBytes 8 c) as [[b c']|] eqn:E; [|reflexivity].
  cbv zeta. cbn [lift]. f_equal. apply (scalar_conv 8 bswap_64 b); [lia|exact swaps_bswap_64|eapply readBytes_length; exact E].
Qed.

Lemma File_readUInt8_link c : File_readUInt8 c = lift (readUInt8 c).
Proof.
  unfold File_readUInt8, readUInt8. destruct (readBytes 1 c) as [[b c']|] eqn:E; [|reflexivity].
  cbv zeta. cbn [lift]. f_equal. pose proof (readBytes_length _ _ _ _ E) as Hl.
  destruct b as [|x [|y r]]; try discriminate. reflexivity.
Qed.

Lemma rmany_link {A} (g : cur -> rres A) (r : cur -> option (A * cur)) :
  (forall c, g c = lift (r c)) -> forall n c, rmany g n c = lift (readMany r n c).
Proof.
  intros H. induction n as [|n IH]; intros c; [reflexivity|].
  cbn [rmany readMany]. rewrite H. destruct (r c) as [[x c1]|]; [|reflexivity].
  cbn [lift rbind']. rewrite IH. destruct (readMany r n c1) as [[xs c2]|]; reflexivity.
Qed.

Lemma readType_link c :
  rbind' (File_readInt32 c) (fun gmtoff c => rbind' (File_readUInt8 c) (fun _ c => rbind' (File_readUInt8 c) (fun _ c => ROk gmtoff c)))
  = lift (readType c).
Proof.
  unfold readType. rewrite File_readInt32_link. destruct (readInt32 c) as [[o c1]|]; [|reflexivity].
  cbn [lift rbind']. rewrite File_readUInt8_link. destruct (readUInt8 c1) as [[a c2]|]; [|reflexivity].
  cbn [lift rbind']. rewrite File_readUInt8_link. destruct (readUInt8 c2) as [[a' c3]|]; reflexivity.
Qed.

Lemma readCounts_unfold c : readCounts c =
  match readInt32 c with None => None | Some (a, c1) =>
  match readInt32 c1 with None => None | Some (b, c2) =>
  match readInt32 c2 with None => None | Some (d, c3) =>
  match readInt32 c3 with None => None | Some (e, c4) =>
  match readInt32 c4 with None => None | Some (f, c5) =>
  match readInt32 c5 with None => None | Some (g, c6) => Some ([a; b; d; e; f; g], c6) end end end end end end.
Proof.
  unfold readCounts. cbn [readMany].
  repeat match goal with |- context [match readInt32 ?x with _ => _ end] => destruct (readInt32 x) as [[? ?]|]; try reflexivity end.
Qed.

Lemma File_readBytes_pos n c : 0 < n -> File_readBytes n c = lift (readBytes (Z.to_nat n) c).
Proof.
  intros Hn. unfold File_readBytes. destruct (Z.leb_spec n 0); [lia|].
  destruct (readBytes (Z.to_nat n) c) as [[b c']|]; reflexivity.
Qed.

Lemma readDataBlock_link file c v1 : db_to_tz (readDataBlock_g file c v1) = readDataBlock c v1.
Proof.
  unfold readDataBlock_g, readDataBlock. cbv zeta. rewrite readCounts_unfold.
  repeat (rewrite File_readInt32_link;
          match goal with |- context [lift (readInt32 ?x)] => destruct (readInt32 x) as [[? ?]|]; cbn [lift rbind db_to_tz]; [|reflexivity] end).
  unfold readDataBlock_reject, readDataBlock_reserve_times, readDataBlock_ntimes, readDataBlock_reserve_idx,
    readDataBlock_nidx, readDataBlock_reserve_types, readDataBlock_ntypes, readDataBlock_nadd, readDataBlock_nchars.
  destruct (negb (z1 =? 0)); cbn [orb db_to_tz]; [reflexivity|].
  destruct (negb (z =? 0) && negb (z =? z3)); cbn [orb db_to_tz]; [reflexivity|].
  destruct (negb (z0 =? 0) && negb (z0 =? z3)); cbn [orb db_to_tz]; [reflexivity|].
  destruct (z2 <? 0); cbn [db_to_tz]; [reflexivity|].
  rewrite (rmany_link (if v1 then File_readInt32 else File_readInt64) (if v1 then readInt32 else readInt64))
    by (intros c'; destruct v1; [apply File_readInt32_link|apply File_readInt64_link]).
  destruct (readMany (if v1 then readInt32 else readInt64) (Z.to_nat z2) c5) as [[ts c6]|]; cbn [lift rbind db_to_tz]; [|reflexivity].
  rewrite (rmany_link File_readUInt8 readUInt8 File_readUInt8_link).
  destruct (readMany readUInt8 (Z.to_nat z2) c6) as [[is c7]|]; cbn [lift rbind db_to_tz]; [|reflexivity].
  destruct (z3 <? 0); cbn [db_to_tz]; [reflexivity|].
  rewrite (rmany_link _ readType readType_link).
  destruct (readMany readType (Z.to_nat z3) c7) as [[offs c8]|]; cbn [lift rbind db_to_tz]; [|reflexivity].
  destruct (addTransitions offs (firstn (Z.to_nat z2) ts) (firstn (Z.to_nat z2) is)); cbn [db_to_tz]; try reflexivity.
  unfold File_readBytes. destruct (z4 <=? 0); cbn [rbind db_to_tz]; [reflexivity|].
  destruct (readBytes (Z.to_nat z4) c8) as [[b c9]|]; reflexivity.
Qed.

Theorem tzif_parse_g_link file : tzif_parse_g file = tzif_parse file.
Proof.
  unfold tzif_parse_g, tzif_parse. cbv zeta.
  change (Z.to_nat readTimeZoneFile_head_len) with 4%nat.
  change (Z.to_nat readTimeZoneFile_version_len) with 1%nat.
  change (Z.to_nat readTimeZoneFile_reserved_len) with 15%nat.
  change (Z.to_nat readTimeZoneFile_head2_len) with 4%nat.
  change readTimeZoneFile_magic with [84; 90; 105; 102]. change readTimeZoneFile_magic2 with [84; 90; 105; 102].
  change readTimeZoneFile_v2 with [50].
  change readTimeZoneFile_skip2 with 16. change readTimeZoneFile_rewind with (-4 * 6).
  change readTimeZoneFile_v2_block_v1 with false. change readTimeZoneFile_v1_block_v1 with true.
  rewrite (File_readBytes_pos 4) by lia. change (Z.to_nat 4) with 4%nat.
  destruct (readBytes 4 (mkCur 0 file)) as [[head c1]|]; cbn [lift rbind]; [|reflexivity].
  destruct (negb (bytes_eqb head (chars [84; 90; 105; 102]))); [reflexivity|].
  rewrite (File_readBytes_pos 1) by lia. change (Z.to_nat 1) with 1%nat.
  destruct (readBytes 1 c1) as [[version c2]|]; cbn [lift rbind]; [|reflexivity].
  rewrite (File_readBytes_pos 15) by lia. change (Z.to_nat 15) with 15%nat.
  destruct (readBytes 15 c2) as [[rsv c3]|]; cbn [lift rbind]; [|reflexivity].
  rewrite readCounts_unfold.
  repeat (rewrite File_readInt32_link;
          match goal with |- context [lift (readInt32 ?x)] => destruct (readInt32 x) as [[? ?]|]; cbn [lift rbind]; [|reflexivity] end).
  destruct (bytes_eqb version (chars [50])).
  - unfold readTimeZoneFile_skip_fits, readTimeZoneFile_skip.
    destruct (negb (fits_int (6 * z3) && fits_int (8 * z1))); [reflexivity|].
    unfold File_skip. rewrite (File_readBytes_pos 4) by lia. change (Z.to_nat 4) with 4%nat.
    destruct (readBytes 4 _) as [[head2 c10]|]; cbn [lift rbind]; [|reflexivity].
    destruct (negb (bytes_eqb head2 (chars [84; 90; 105; 102]))); [reflexivity|].
    apply readDataBlock_link.
  - unfold File_skip. apply readDataBlock_link.
Qed.
