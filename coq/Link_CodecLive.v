(* Link_CodecLive (L3, faithful machine): ProtobufCodecLite as the message callback of a connection,
   AS THE CODE IS.  The codec has no "abandoned" flag (ProtobufCodecLite.cc:58-97): TcpConnection
   calls onMessage on every delivery, onMessage runs its while loop on the whole buffered input;
   on an error it calls errorCallback_ and breaks WITHOUT retrieving anything, so the next delivery
   finds the same bad frame at the head of the buffer and reports the same error again.
   errorCallback_ is defaultErrorCallback (ProtobufCodecLite.cc:176-186):
   if (conn && conn->connected()) conn->shutdown() -- here a [Shutdown] step of Conn_Model (the
   write side is closed; reads go on).

   The machine of Link_CodecConn ([k_step], decoder state with k_ab) is the decoder OF THE PROPERTY
   TEXT ("the first error, after which the stream is abandoned"); the two agree on every history
   whose received stream contains no error, and on the messages and the first error of every
   history.  This file states what the real callbacks are given on EVERY history:

     events = map CMsg ms ++ [CErr x; CErr x; ...]       (ms, x, rest) = reference decoding of the
                                                          received stream,
   one CErr x for the delivery that completes the bad frame's head and one more for every later
   delivery ([late_reads], a count defined by the reference decoder on prefixes of the stream);
   the input buffer = rest (nothing of the bad frame or behind it is ever consumed); after an error
   the connection is no longer kConnected.

   Names used (read-only): Conn_Model, Conn_Proofs.{step_inbound, step_cases, i_inbound, run_inv,
   init_inv, no_fault, step_inv, step_not_connecting}, Link_CodecConn.{kop, kop_wf, chunks_of,
   run_suffix, suffix_len, cstep_suffix}, Link_ConnBuf_Model / Link_ConnBuf (L1),
   Link_CodecBuf.{kcop, kcop_wf, delivers}, C18_Model (D), C18_EncModel.live_feed,
   C18_EncProofs.live_all, C18_LiveProofs.{late_reads, live_events}. *)
From Coq Require Import List ZArith Lia Bool Arith NArith.
From Coq.Strings Require Import Byte.
From Muduo Require C10_Model C10_Proofs C18_Model C18_Proofs C18_EncModel C18_EncProofs C18_LiveProofs.
From Muduo Require Import Conn_Model Conn_Proofs Conn_Trace Link_ConnBuf_Model Link_ConnBuf Link_CodecConn Link_CodecBuf.
Import ListNotations.

Module DE := Muduo.C18_EncModel.
Module DEP := Muduo.C18_EncProofs.
Module DL := Muduo.C18_LiveProofs.

(* once a connection has left kConnected it never returns to it *)
Definition down (c : conn) : Prop := st c <> Connected /\ st c <> Connecting.

Lemma step_stays_down c o c' e : step c o = Ok (c', e) -> down c -> down c'.
Proof.
  intros H [H1 H2]. split; [|exact (step_not_connecting c o c' e H H2)].
  step_cases H; st_norm; auto; try discriminate; try congruence.
Qed.

Lemma shutdown_makes_down c c' e : step c Shutdown = Ok (c', e) -> down c'.
Proof.
  unfold step. cbn [user_op andb].
  destruct (cstate_eqb (st c) Connecting) eqn:E1; [discriminate|].
  destruct (cstate_eqb (st c) Connected) eqn:E2.
  - unfold ok, shutdownInLoop. cbn [set_st writing].
    destruct (writing c); intros H; injection H as <- _; cbn [st set_st]; split; discriminate.
  - unfold ok. intros H. injection H as <- _. st_norm. split; assumption.
Qed.

Section CodecLive.
  Variable msg : Type.
  Variable parse : list byte -> option msg.
  Variable tag : list byte.

  Notation cstepL := (D.cstep msg parse tag).
  Notation cev := (D.cevent msg).

  (* ProtobufCodecLite::onMessage(conn, buf, t): the while loop on the readable bytes of buf;
     result = the callbacks' events and what is left in the buffer *)
  Definition live_message (b : list byte) : list cev * list byte :=
    let '(evs, d) := D.run cstepL (S (length b)) tt b in (evs, D.d_buf d).

  Definition is_err (e : cev) : bool := match e with D.CErr _ => true | _ => false end.

  Lemma live_message_feed l chunk : live_message (l ++ chunk) = DE.live_feed msg parse tag l chunk.
  Proof. reflexivity. Qed.

  Lemma is_err_eq e : is_err e = DE.is_err msg e.
  Proof. reflexivity. Qed.

  (* ---------------------------------------------------------------------------------------- *)
  (* the machine over Conn_Model: state = the connection (the codec has no state of its own)   *)
  (* ---------------------------------------------------------------------------------------- *)
  Definition kl_step (c : conn) (o : kop) : res (conn * list event * list cev) :=
    match o with
    | KOp o =>
        match step c o with
        | Ok (c', e) => Ok (c', e, [])
        | Rejected => Rejected
        | Fault => Fault
        end
    | KRead chunk =>
        match step c (EvReadData chunk) with                       (* handleRead: readFd, n > 0 *)
        | Ok (c1, e1) =>
            let '(cevs, rest) := live_message (inb c1) in          (* messageCallback_ = onMessage *)
            match step c1 (Retrieve (length (inb c1) - length rest)) with   (* its retrieve()s *)
            | Ok (c2, e2) =>
                if existsb is_err cevs then
                  (* errorCallback_ = defaultErrorCallback: if (conn && conn->connected()) conn->shutdown() *)
                  match step c2 Shutdown with
                  | Ok (c3, e3) => Ok (c3, e1 ++ e2 ++ e3, cevs)
                  | Rejected => Rejected
                  | Fault => Fault
                  end
                else Ok (c2, e1 ++ e2, cevs)
            | Rejected => Rejected
            | Fault => Fault
            end
        | Rejected => Rejected
        | Fault => Fault
        end
    end.

  Fixpoint kl_run (c : conn) (ops : list kop) : res (conn * list event * list cev) :=
    match ops with
    | [] => Ok (c, [], [])
    | o :: rest =>
        match kl_step c o with
        | Ok (c1, e1, v1) =>
            match kl_run c1 rest with
            | Ok (c2, e2, v2) => Ok (c2, e1 ++ e2, v1 ++ v2)
            | Rejected => Rejected
            | Fault => Fault
            end
        | Rejected => Rejected
        | Fault => Fault
        end
    end.

  Lemma live_message_suffix b : snd (live_message b) = skipn (length b - length (snd (live_message b))) b.
  Proof.
    unfold live_message.
    destruct (run_suffix unit cev cstepL (cstep_suffix msg parse tag) (S (length b)) tt b) as (n & Hn).
    destruct (D.run cstepL (S (length b)) tt b) as [evs d]. cbn [snd] in *.
    exact (suffix_len b _ n Hn).
  Qed.

  (* one step: the connection's input buffer and the codec's events move as the list-level
     "loop on every delivery" of C18 (live_feed) *)
  Lemma kl_step_spec c o c' e v : kop_wf o = true -> kl_step c o = Ok (c', e, v) ->
    (v, inb c') = (match o with
                   | KRead chunk => DE.live_feed msg parse tag (inb c) chunk
                   | KOp _ => ([], inb c)
                   end) /\
    delivered c' = delivered c ++ concat (chunks_of [o]) /\
    (down c -> down c') /\ (existsb is_err v = true -> down c').
  Proof.
    intros Hwf H. destruct o as [o|chunk]; cbn [kl_step] in H.
    - destruct (step c o) as [[c1 e1]| |] eqn:Es; try discriminate.
      injection H as <- _ <-. destruct (step_inbound _ _ _ _ Es) as (Hd & _ & Hi & _).
      cbn [chunks_of flat_map concat app existsb]. rewrite app_nil_r.
      split; [|split; [|split; [exact (step_stays_down _ _ _ _ Es)|discriminate]]].
      + rewrite Hi. destruct o; try discriminate Hwf; reflexivity.
      + rewrite Hd. destruct o; try discriminate Hwf; rewrite ?app_nil_r; reflexivity.
    - destruct (step c (EvReadData chunk)) as [[c1 e1]| |] eqn:Es1; try discriminate.
      destruct (step_inbound _ _ _ _ Es1) as (Hd1 & _ & Hi1 & _).
      pose proof (live_message_suffix (inb c1)) as Hsuf.
      rewrite Hi1 in H, Hsuf. rewrite live_message_feed in H, Hsuf.
      destruct (DE.live_feed msg parse tag (inb c) chunk) as [cevs rest] eqn:EL. cbn [snd] in Hsuf.
      destruct (step c1 (Retrieve (length (inb c ++ chunk) - length rest))) as [[c2 e2]| |] eqn:Es2; try discriminate.
      destruct (step_inbound _ _ _ _ Es2) as (Hd2 & _ & Hi2 & _).
      cbn [chunks_of flat_map concat app]. rewrite app_nil_r.
      destruct (existsb is_err cevs) eqn:Eerr.
      + destruct (step c2 Shutdown) as [[c3 e3]| |] eqn:Es3; try discriminate.
        injection H as <- _ <-. destruct (step_inbound _ _ _ _ Es3) as (Hd3 & _ & Hi3 & _).
        rewrite Hi3, Hi2, Hi1, <- Hsuf, Hd3, Hd2, Hd1, !app_nil_r.
        pose proof (shutdown_makes_down _ _ _ Es3) as Hdn.
        split; [reflexivity|]. split; [reflexivity|]. split; intros _; exact Hdn.
      + injection H as <- _ <-. rewrite Hi2, Hi1, <- Hsuf, Hd2, Hd1, !app_nil_r.
        split; [reflexivity|]. split; [reflexivity|]. split.
        * intros Hdn. apply (step_stays_down _ _ _ _ Es2). exact (step_stays_down _ _ _ _ Es1 Hdn).
        * intros Hx. rewrite Hx in Eerr. discriminate.
  Qed.

  Lemma kl_run_spec ops : forall c c' e v, forallb kop_wf ops = true -> kl_run c ops = Ok (c', e, v) ->
    v = concat (fst (DEP.live_all msg parse tag (inb c) (chunks_of ops))) /\
    inb c' = snd (DEP.live_all msg parse tag (inb c) (chunks_of ops)) /\
    delivered c' = delivered c ++ concat (chunks_of ops) /\
    (down c -> down c') /\ (existsb is_err v = true -> down c').
  Proof.
    induction ops as [|o rest IH]; intros c c' e v Hwf H; cbn [kl_run] in H.
    - injection H as <- _ <-. cbn [chunks_of flat_map DEP.live_all fst snd concat existsb]. rewrite app_nil_r.
      split; [reflexivity|]. split; [reflexivity|]. split; [reflexivity|]. split; [auto|discriminate].
    - cbn [forallb] in Hwf. apply andb_true_iff in Hwf as [Hwo Hwr].
      destruct (kl_step c o) as [[[c1 e1] v1]| |] eqn:E1; try discriminate.
      destruct (kl_run c1 rest) as [[[c2 e2] v2]| |] eqn:E2; try discriminate.
      injection H as <- _ <-.
      destruct (kl_step_spec c o c1 e1 v1 Hwo E1) as (Hs & Hd1 & Hdn1 & Her1).
      destruct (IH c1 c2 e2 v2 Hwr E2) as (Hv2 & Hi2 & Hd2 & Hdn2 & Her2).
      assert (Hdown : (down c -> down c2) /\ (existsb is_err (v1 ++ v2) = true -> down c2)).
      { split; [auto|]. rewrite existsb_app. intros Hx. apply orb_true_iff in Hx as [Hx|Hx]; auto. }
      destruct o as [o|chunk]; cbn [chunks_of flat_map app] in *.
      + injection Hs as -> Hi1. rewrite Hi1 in Hv2, Hi2. rewrite ?app_nil_r in Hd1. rewrite Hd1 in Hd2.
        cbn [app] in *. split; [exact Hv2|]. split; [exact Hi2|]. split; [exact Hd2|exact Hdown].
      + cbn [DEP.live_all concat]. rewrite ?app_nil_r in Hd1.
        destruct (DE.live_feed msg parse tag (inb c) chunk) as [e0 l1]. injection Hs as -> Hi1.
        rewrite Hi1 in Hv2, Hi2. fold (chunks_of rest) in *.
        destruct (DEP.live_all msg parse tag l1 (chunks_of rest)) as [es lf]. cbn [fst snd concat] in *.
        rewrite Hv2 in *. rewrite Hd2, Hd1, ?app_nil_r, <- app_assoc.
        split; [reflexivity|]. split; [exact Hi2|]. split; [reflexivity|exact Hdown].
  Qed.

  (* the connection part of a history is a Conn_Model history *)
  Fixpoint kl_conn_ops (c : conn) (ops : list kop) : list op :=
    match ops with
    | [] => []
    | o :: rest =>
        (match o with
         | KOp o' => [o']
         | KRead chunk =>
             let '(cevs, r) := live_message (inb c ++ chunk) in
             [EvReadData chunk; Retrieve (length (inb c ++ chunk) - length r)] ++
             (if existsb is_err cevs then [Shutdown] else [])
         end) ++ match kl_step c o with Ok (c1, _, _) => kl_conn_ops c1 rest | _ => [] end
    end.

  Theorem kl_run_is_conn_run ops : forall c c' e v, kl_run c ops = Ok (c', e, v) ->
    run c (kl_conn_ops c ops) = Ok (c', e).
  Proof.
    induction ops as [|o rest IH]; intros c c' e v H; cbn [kl_run] in H.
    - injection H as <- <- _. reflexivity.
    - destruct (kl_step c o) as [[[c1 e1] v1]| |] eqn:E1; try discriminate.
      destruct (kl_run c1 rest) as [[[c2 e2] v2]| |] eqn:E2; try discriminate.
      injection H as <- <- _. cbn [kl_conn_ops]. rewrite E1. specialize (IH c1 c2 e2 v2 E2).
      destruct o as [o|chunk]; cbn [kl_step] in E1.
      + destruct (step c o) as [[c' e']| |] eqn:Es; try discriminate.
        injection E1 as <- <- _. cbn [app run]. rewrite Es, IH. reflexivity.
      + destruct (step c (EvReadData chunk)) as [[ca ea]| |] eqn:Es1; try discriminate.
        destruct (step_inbound _ _ _ _ Es1) as (_ & _ & Hi1 & _). rewrite Hi1 in E1.
        destruct (live_message (inb c ++ chunk)) as [cevs r].
        destruct (step ca (Retrieve (length (inb c ++ chunk) - length r))) as [[cb eb]| |] eqn:Es2; try discriminate.
        destruct (existsb is_err cevs).
        * destruct (step cb Shutdown) as [[cc ec]| |] eqn:Es3; try discriminate.
          injection E1 as <- <- _. cbn [app run]. rewrite Es1, Es2, Es3, IH. rewrite <- !app_assoc. reflexivity.
        * injection E1 as <- <- _. cbn [app run]. rewrite Es1, Es2, IH. rewrite <- ?app_assoc. reflexivity.
  Qed.

  Lemma existsb_is_err_msgs (ms : list msg) : existsb is_err (map (@D.CMsg msg) ms) = false.
  Proof. induction ms as [|m ms IH]; [reflexivity|exact IH]. Qed.

  (* HEADLINE (the real codec on a connection, every history).  Whatever way the kernel splits the
     peer's byte stream into reads and whatever else happens on the connection: with
     (ms, er, rest) the reference decoding of the stream received so far, the events given to the
     codec's callbacks are the messages ms, then - if the stream contains an error x - CErr x once
     for the delivery that made it detectable and once more for every later delivery (late_reads);
     the input buffer is rest: nothing is consumed from the bad frame on; retrieved ++ buffered =
     received; after an error the connection has left kConnected for good (defaultErrorCallback's
     shutdown()). *)
  Theorem codec_live_on_connection mark wc hw ops c e v :
    forallb kop_wf ops = true ->
    kl_run (init mark wc hw) ops = Ok (c, e, v) ->
    let s := delivered c in
    s = concat (chunks_of ops) /\
    consumed c ++ inb c = s /\
    (let '(ms, er, rest) := D.ref_decode msg parse tag (S (length s)) s in
     v = map (@D.CMsg msg) ms ++
         (match er with
          | Some x => @D.CErr msg x :: repeat (@D.CErr msg x) (DL.late_reads msg parse tag [] (chunks_of ops))
          | None => []
          end) /\
     inb c = rest /\
     (match er with Some _ => st c = Disconnecting \/ st c = Disconnected | None => True end)).
  Proof.
    intros Hwf H s.
    destruct (kl_run_spec ops _ _ _ _ Hwf H) as (Hv & Hi & Hd & _ & Her).
    cbn [init inb delivered app] in Hv, Hi, Hd.
    split; [exact Hd|]. split.
    - pose proof (kl_run_is_conn_run ops _ _ _ _ H) as Hr.
      apply (i_inbound c). eapply run_inv; [apply init_inv|exact Hr].
    - pose proof (DL.live_events msg parse tag (chunks_of ops)) as HL. cbv zeta in HL.
      unfold s. rewrite Hd.
      destruct (D.ref_decode msg parse tag (S (length (concat (chunks_of ops)))) (concat (chunks_of ops)))
        as [[ms er] rest].
      destruct (DEP.live_all msg parse tag [] (chunks_of ops)) as [es lf]. cbn [fst snd] in *.
      destruct HL as (_ & Hlf & Hc). rewrite Hc in Hv. split; [exact Hv|]. split; [congruence|].
      destruct er as [x|]; [|exact I].
      assert (Hx : existsb is_err v = true).
      { rewrite Hv, existsb_app. cbn [existsb is_err]. apply orb_true_r. }
      destruct (Her Hx) as [H1 H2]. destruct (st c); auto; contradiction.
  Qed.

  (* the link machine and the machine the differential run drives against the real TcpConnection
     ([deliver_all] of C18_EncModel: C10 Buffer model + onMessage_buf + default_error_callback; the
     `conn` kind of bin/check C18) agree on every history: same events, same buffered bytes, and
     a shutdown by the error callback there means "left kConnected" here *)
  Theorem live_link_is_deliver mark wc hw ops c e v n0 :
    forallb kop_wf ops = true ->
    kl_run (init mark wc hw) ops = Ok (c, e, v) ->
    exists evss c', DE.deliver_all msg parse tag (DE.conn0 n0) (chunks_of ops) = C10_Model.Ok (evss, c') /\
      v = concat evss /\ inb c = C10_Model.readable (DE.c_in c') /\
      (DE.c_connected c' = false -> st c = Disconnecting \/ st c = Disconnected).
  Proof.
    intros Hwf H.
    destruct (codec_live_on_connection mark wc hw ops c e v Hwf H) as (Hs & _ & Hdec). rewrite Hs in Hdec.
    pose proof (DL.decoder_over_buffer_full msg parse tag (chunks_of ops) n0) as HB. cbv zeta in HB.
    destruct (D.ref_decode msg parse tag (S (length (concat (chunks_of ops)))) (concat (chunks_of ops)))
      as [[ms er] rest].
    destruct HB as (evss & c' & E & _ & Hc & _ & Hr & Hcon & _). destruct Hdec as (Hv & Hi & Hst).
    exists evss, c'. split; [exact E|]. split; [congruence|]. split; [congruence|].
    intros Hf. destruct er; [exact Hst|]. rewrite Hf in Hcon. discriminate.
  Qed.

  (* no history of the live machine faults *)
  Theorem kl_run_no_fault ops : forall c, Inv c -> kl_run c ops <> Fault.
  Proof.
    induction ops as [|o rest IH]; intros c HI Hr; cbn [kl_run] in Hr; [discriminate|].
    destruct (kl_step c o) as [[[c1 e1] v1]| |] eqn:E1; try discriminate.
    - destruct (kl_run c1 rest) as [[[c2 e2] v2]| |] eqn:E2; try discriminate.
      apply (IH c1); [|exact E2].
      pose proof (kl_run_is_conn_run [o] c c1 e1 v1) as Hc. cbn [kl_run] in Hc.
      rewrite E1, !app_nil_r in Hc. specialize (Hc eq_refl). eapply run_inv; [exact HI|exact Hc].
    - destruct o as [o|chunk]; cbn [kl_step] in E1.
      + destruct (step c o) as [[c' e']| |] eqn:Es; try discriminate. exact (no_fault _ _ HI Es).
      + destruct (step c (EvReadData chunk)) as [[ca ea]| |] eqn:Es1; try discriminate;
          [|exact (no_fault _ _ HI Es1)].
        destruct (live_message (inb ca)) as [cevs r].
        destruct (step ca _) as [[cb eb]| |] eqn:Es2; try discriminate;
          [|exact (no_fault _ _ (step_inv _ _ _ _ HI Es1) Es2)].
        destruct (existsb is_err cevs); [|discriminate].
        destruct (step cb Shutdown) as [[cc ec]| |] eqn:Es3; try discriminate.
        exact (no_fault _ _ (step_inv _ _ _ _ (step_inv _ _ _ _ HI Es1) Es2) Es3).
  Qed.

  (* ---------------------------------------------------------------------------------------- *)
  (* the same machine over the two concrete Buffers of Link_ConnBuf_Model (L1)                  *)
  (* ---------------------------------------------------------------------------------------- *)
  Definition kcl_step (c : cconn) (o : kcop) : res (cconn * list event * list cev) :=
    match o with
    | KCOp o =>
        match c_step c o with
        | Ok (c', e) => Ok (c', e, [])
        | Rejected => Rejected
        | Fault => Fault
        end
    | KCRead kr =>
        match c_step c (CRead kr) with
        | Ok (c1, e1) =>
            if delivers c kr then
              (* TcpConnection.cc:352-355: n > 0, messageCallback_(.., &inputBuffer_, ..) *)
              let '(cevs, rest) := live_message (B.readable (ibuf c1)) in
              match c_step c1 (COp (Retrieve (B.readableBytes (ibuf c1) - length rest))) with
              | Ok (c2, e2) =>
                  if existsb is_err cevs then
                    match c_step c2 (COp Shutdown) with
                    | Ok (c3, e3) => Ok (c3, e1 ++ e2 ++ e3, cevs)
                    | Rejected => Rejected
                    | Fault => Fault
                    end
                  else Ok (c2, e1 ++ e2, cevs)
              | Rejected => Rejected
              | Fault => Fault
              end
            else Ok (c1, e1, [])
        | Rejected => Rejected
        | Fault => Fault
        end
    end.

  Fixpoint kcl_run (c : cconn) (ops : list kcop) : res (cconn * list event * list cev) :=
    match ops with
    | [] => Ok (c, [], [])
    | o :: rest =>
        match kcl_step c o with
        | Ok (c1, e1, v1) =>
            match kcl_run c1 rest with
            | Ok (c2, e2, v2) => Ok (c2, e1 ++ e2, v1 ++ v2)
            | Rejected => Rejected
            | Fault => Fault
            end
        | Rejected => Rejected
        | Fault => Fault
        end
    end.

  Definition klabs_op (c : cconn) (o : kcop) : kop :=
    match o with
    | KCOp o => KOp (abs_op c o)
    | KCRead kr =>
        if delivers c kr then KRead (B.delivered (B.readFd_capacity (ibuf c)) kr)
        else KOp (abs_op c (CRead kr))
    end.
  Fixpoint klabs_ops (c : cconn) (ops : list kcop) : list kop :=
    match ops with
    | [] => []
    | o :: rest => klabs_op c o :: match kcl_step c o with Ok (c', _, _) => klabs_ops c' rest | _ => [] end
    end.

  Lemma klabs_op_wf c o : kcop_wf o = true -> kop_wf (klabs_op c o) = true.
  Proof.
    destruct o as [o|kr]; cbn [kcop_wf klabs_op].
    - destruct o as [o| |]; try discriminate. cbn [abs_op]. destruct o; cbn; congruence.
    - intros _. unfold delivers. destruct kr as [avail|z]; cbn [B.delivered abs_op]; [|reflexivity].
      destruct (firstn (B.readFd_capacity (ibuf c)) avail); reflexivity.
  Qed.

  Theorem kcl_step_refines c o : bufs_ok c -> kcop_wf o = true ->
    match kcl_step c o with
    | Ok (c', e, v) => kl_step (abs c) (klabs_op c o) = Ok (abs c', e, v) /\ bufs_ok c'
    | Rejected => kl_step (abs c) (klabs_op c o) = Rejected
    | Fault => kl_step (abs c) (klabs_op c o) = Fault
    end.
  Proof.
    intros Hb Hwf. destruct o as [o|kr]; cbn [kcl_step klabs_op].
    - assert (Hw : cop_wf o = true).
      { cbn [kcop_wf] in Hwf. destruct o as [o| |]; try discriminate. destruct o; try discriminate; exact Hwf. }
      pose proof (c_step_refines c o Hb Hw) as H. cbn [kl_step].
      destruct (c_step c o) as [[c' e]| |]; [destruct H as [-> Hb']; auto|rewrite H; reflexivity|rewrite H; reflexivity].
    - pose proof (c_step_refines c (CRead kr) Hb eq_refl) as H.
      destruct (delivers c kr) eqn:Ed.
      + rewrite (abs_op_read_delivers c kr Ed) in H. cbn [kl_step].
        destruct (c_step c (CRead kr)) as [[c1 e1]| |]; [|rewrite H; reflexivity|rewrite H; reflexivity].
        destruct H as [-> Hb1].
        change (inb (abs c1)) with (B.readable (ibuf c1)).
        destruct (live_message (B.readable (ibuf c1))) as [cevs rest].
        destruct (abs_backlog c1 Hb1) as [_ Hlen]. change (inb (abs c1)) with (B.readable (ibuf c1)) in Hlen.
        rewrite Hlen.
        pose proof (c_step_refines c1 (COp (Retrieve (B.readableBytes (ibuf c1) - length rest))) Hb1 eq_refl) as H2.
        cbn [abs_op] in H2.
        destruct (c_step c1 (COp (Retrieve (B.readableBytes (ibuf c1) - length rest)))) as [[c2 e2]| |];
          [|rewrite H2; reflexivity|rewrite H2; reflexivity].
        destruct H2 as [-> Hb2].
        destruct (existsb is_err cevs); [|auto].
        pose proof (c_step_refines c2 (COp Shutdown) Hb2 eq_refl) as H3. cbn [abs_op] in H3.
        destruct (c_step c2 (COp Shutdown)) as [[c3 e3]| |];
          [destruct H3 as [-> Hb3]; auto|rewrite H3; reflexivity|rewrite H3; reflexivity].
      + cbn [kl_step].
        destruct (c_step c (CRead kr)) as [[c1 e1]| |]; [destruct H as [-> Hb1]; auto|rewrite H; reflexivity|rewrite H; reflexivity].
  Qed.

  Theorem kcl_run_refines ops : forall c, bufs_ok c -> forallb kcop_wf ops = true ->
    match kcl_run c ops with
    | Ok (c', e, v) =>
        kl_run (abs c) (klabs_ops c ops) = Ok (abs c', e, v) /\ bufs_ok c' /\
        forallb kop_wf (klabs_ops c ops) = true
    | Rejected => kl_run (abs c) (klabs_ops c ops) = Rejected
    | Fault => kl_run (abs c) (klabs_ops c ops) = Fault
    end.
  Proof.
    induction ops as [|o rest IH]; intros c Hb Hwf.
    - cbn. auto.
    - cbn [forallb] in Hwf. apply andb_true_iff in Hwf as [Hwo Hwr].
      cbn [kcl_run klabs_ops kl_run forallb]. pose proof (kcl_step_refines c o Hb Hwo) as Hs.
      destruct (kcl_step c o) as [[[c1 e1] v1]| |].
      + destruct Hs as [Hs Hb1]. rewrite Hs. specialize (IH c1 Hb1 Hwr).
        destruct (kcl_run c1 rest) as [[[c2 e2] v2]| |].
        * destruct IH as (-> & Hb2 & Hw2). rewrite (klabs_op_wf c o Hwo), Hw2. auto.
        * rewrite IH. reflexivity.
        * rewrite IH. reflexivity.
      + rewrite Hs. reflexivity.
      + rewrite Hs. reflexivity.
  Qed.

  (* HEADLINE (the real codec over the real Buffer, every history): any kernel answers to readv
     (any split, end of file, errors), any other ops in between *)
  (* the chunks readFd delivered along a history of the concrete machine (kernel answers cut to
     the capacity readFd offers: writable bytes + the 64 KiB extrabuf) *)
  Definition delivered_chunks (c : cconn) (ops : list kcop) : list (list byte) :=
    chunks_of (klabs_ops c ops).

  Theorem codec_live_on_real_buffers mark wc hw ops c e v :
    forallb kcop_wf ops = true ->
    kcl_run (c_init mark wc hw) ops = Ok (c, e, v) ->
    let s := delivered (ctl c) in
    s = concat (delivered_chunks (c_init mark wc hw) ops) /\
    consumed (ctl c) ++ B.readable (ibuf c) = s /\
    (let '(ms, er, rest) := D.ref_decode msg parse tag (S (length s)) s in
     v = map (@D.CMsg msg) ms ++
         (match er with
          | Some x => @D.CErr msg x ::
                      repeat (@D.CErr msg x) (DL.late_reads msg parse tag [] (delivered_chunks (c_init mark wc hw) ops))
          | None => []
          end) /\
     B.readable (ibuf c) = rest /\
     (match er with Some _ => st (ctl c) = Disconnecting \/ st (ctl c) = Disconnected | None => True end)).
  Proof.
    intros Hwf H s.
    pose proof (kcl_run_refines ops (c_init mark wc hw) (c_init_ok mark wc hw) Hwf) as Hr.
    rewrite H in Hr. destruct Hr as (Hk & _ & Hw). rewrite abs_c_init in Hk.
    pose proof (codec_live_on_connection mark wc hw _ _ _ _ Hw Hk) as Hc.
    cbv zeta in Hc. exact Hc.
  Qed.

  Theorem codec_live_on_real_buffers_no_fault mark wc hw ops :
    forallb kcop_wf ops = true -> kcl_run (c_init mark wc hw) ops <> Fault.
  Proof.
    intros Hwf E.
    pose proof (kcl_run_refines ops (c_init mark wc hw) (c_init_ok mark wc hw) Hwf) as Hr.
    rewrite E, abs_c_init in Hr. exact (kl_run_no_fault _ _ (init_inv mark wc hw) Hr).
  Qed.
End CodecLive.
