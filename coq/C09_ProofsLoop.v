(* C09_ProofsLoop: one iteration of EventLoop::loop() around either poller.
   1. dispatch from the activeChannels_ snapshot (stale within the batch, never later);
   2. the wake-up eventfd and the timerfd are drained by their read callbacks, so that a loop with
      nothing else ready finds nothing to report at the next poll (it blocks: no spinning).
   Both are proved once over an abstract back-end and instantiated for ep_step and pp_step_current. *)
From Coq Require Import List ZArith NArith Lia Bool Arith Permutation.
From Muduo Require Import Gen_Consts Gen_C09 C09_Model C09_Proofs C09_ProofsPoll.
Import ListNotations.

Lemma spec_run_app : forall a b sp, spec_run sp (a ++ b) = spec_run (spec_run sp a) b.
Proof. intros. unfold spec_run. apply fold_left_app. Qed.

Lemma batch_ops_app : forall h a b, batch_ops h (a ++ b) = batch_ops h a ++ batch_ops h b.
Proof. intros. unfold batch_ops. apply flat_map_app. Qed.

Lemma batch_ok_app : forall h snap a b sp,
  batch_ok h snap sp (a ++ b) <-> batch_ok h snap sp a /\ batch_ok h snap (spec_run sp (batch_ops h a)) b.
Proof.
  intros h snap. induction a as [|ck t IH]; intros b sp; cbn [app batch_ok].
  - cbn. tauto.
  - rewrite IH. cbn [batch_ops flat_map]. fold (batch_ops h t). rewrite spec_run_app. tauto.
Qed.

Lemma callbacks_g_cons : forall runs cr t,
  callbacks_g runs (cr :: t) =
  map (pair (fst cr)) (if runs (fst cr) then dispatch (snd cr) else []) ++ callbacks_g runs t.
Proof. reflexivity. Qed.

(* ---- 1. the batch, over an abstract back-end -------------------------------------------------------- *)
Section Batch.
Variable S : Type.
Variable step : S -> op -> res (S * active).
Variable reach : S -> spec -> Prop.
Hypothesis step_ok : forall st sp o, reach st sp -> sguard sp o ->
  exists st' act, step st o = Ok (st', act) /\ reach st' (spec_step sp o).

Lemma run_cb_ops_ok : forall snap cur ops st sp, reach st sp -> cb_ops_ok snap cur sp ops ->
  exists st', run_cb_ops S step snap cur st ops = Ok st' /\ reach st' (spec_run sp ops).
Proof.
  induction ops as [|o t IH]; intros st sp R H.
  - exists st. split; [reflexivity|exact R].
  - destruct H as [LG [G H]]. cbn [run_cb_ops]. rewrite LG.
    destruct (step_ok st sp o R G) as [st1 [act [E R1]]]. rewrite E. cbn [bind fst].
    destruct (IH st1 (spec_step sp o) R1 H) as [st' [E' R']]. exists st'. split; [exact E'|exact R'].
Qed.

Lemma dispatch_cbs_ok : forall h snap cur ks st sp, reach st sp ->
  batch_ok h snap sp (map (pair cur) ks) ->
  exists st', dispatch_cbs S step h snap cur st ks = Ok (st', map (pair cur) ks) /\
              reach st' (spec_run sp (batch_ops h (map (pair cur) ks))).
Proof.
  induction ks as [|k t IH]; intros st sp R H.
  - exists st. split; [reflexivity|exact R].
  - cbn [map batch_ok fst snd] in H. destruct H as [H1 H2].
    destruct (run_cb_ops_ok snap cur (h cur k) st sp R H1) as [st1 [E1 R1]].
    destruct (IH st1 _ R1 H2) as [st' [E' R']].
    cbn [dispatch_cbs]. rewrite E1. cbn [bind]. rewrite E'. cbn [bind fst snd].
    exists st'. split; [reflexivity|].
    cbn [map batch_ops flat_map fst snd]. fold (batch_ops h (map (pair cur) t)).
    rewrite spec_run_app. exact R'.
Qed.

(* EVERY entry of the snapshot gets its callbacks, computed from the revents of poll time, whatever
   the earlier callbacks of the batch did; the poller ends in the state the callbacks' ops lead to *)
Lemma dispatch_batch_ok : forall h runs snap act st sp, reach st sp ->
  batch_ok h snap sp (callbacks_g runs act) ->
  exists st', dispatch_batch S step h runs snap st act = Ok (st', callbacks_g runs act) /\
              reach st' (spec_run sp (batch_ops h (callbacks_g runs act))).
Proof.
  induction act as [|cr t IH]; intros st sp R H.
  - exists st. split; [reflexivity|exact R].
  - rewrite callbacks_g_cons in H. apply batch_ok_app in H. destruct H as [H1 H2].
    destruct (dispatch_cbs_ok h snap (fst cr) _ st sp R H1) as [st1 [E1 R1]].
    destruct (IH st1 _ R1 H2) as [st' [E' R']].
    cbn [dispatch_batch]. rewrite E1. cbn [bind fst snd]. rewrite E'. cbn [bind fst snd].
    exists st'. split; [rewrite callbacks_g_cons; reflexivity|].
    rewrite callbacks_g_cons, batch_ops_app, spec_run_app. exact R'.
Qed.

Lemma loop_iter_ok : forall h runs st sp ready choice st1 act,
  step st (Poll ready choice) = Ok (st1, act) -> reach st1 sp ->
  batch_ok h (map fst act) sp (callbacks_g runs act) ->
  exists st', loop_iter S step h runs st ready choice = Ok (st', act, callbacks_g runs act) /\
              reach st' (spec_run sp (batch_ops h (callbacks_g runs act))).
Proof.
  intros h runs st sp ready choice st1 act E R H.
  destruct (dispatch_batch_ok h runs (map fst act) act st1 sp R H) as [st' [E' R']].
  unfold loop_iter. rewrite E. cbn [bind fst snd]. rewrite E'. cbn [bind fst snd].
  exists st'. split; [reflexivity|exact R'].
Qed.

(* the two asserts that guard the batch: violating them is a rejected precondition *)
Lemma run_cb_ops_guard_rejected : forall snap cur st o t,
  loop_guard snap cur o = false -> run_cb_ops S step snap cur st (o :: t) = Rejected.
Proof. intros snap cur st o t H. cbn [run_cb_ops]. now rewrite H. Qed.
End Batch.

(* removing a channel that is in the snapshot and is not the one being handled (EventLoop::removeChannel's
   assert), destroying the channel being handled (~Channel's assert) *)
Lemma loop_guard_remove_ahead : forall snap cur c, c <> cur -> In c snap -> loop_guard snap cur (Remove c) = false.
Proof.
  intros snap cur c N HI. cbn [loop_guard]. destruct (Nat.eqb_spec c cur); [contradiction|]. cbn [orb].
  assert (in_snap c snap = true).
  { unfold in_snap. apply existsb_exists. exists c. split; [exact HI|apply Nat.eqb_refl]. }
  now rewrite H.
Qed.
Lemma loop_guard_del_current : forall snap cur, loop_guard snap cur (Del cur) = false.
Proof. intros. cbn [loop_guard]. now rewrite Nat.eqb_refl. Qed.

(* ---- instances ------------------------------------------------------------------------------------------ *)
Lemma ep_step_reach : forall st sp o, reachEC st sp -> sguard sp o ->
  exists st' act, ep_step_current st o = Ok (st', act) /\ reachEC st' (spec_step sp o).
Proof.
  intros st sp o R G. destruct (reachEC_refines st sp R o) as [A _].
  destruct (A G) as [st' [act [E [R' _]]]]. eauto.
Qed.
Lemma pp_step_reach : forall st sp o, reachPC st sp -> sguard sp o ->
  exists st' act, pp_step_current st o = Ok (st', act) /\ reachPC st' (spec_step sp o).
Proof.
  intros st sp o R G. destruct (reachPC_refines st sp R o) as [A _].
  destruct (A G) as [st' [act [E [R' _]]]]. eauto.
Qed.

Lemma ep_poll_sound : forall st sp ready choice st' act, reachEC st sp ->
  ep_step_current st (Poll ready choice) = Ok (st', act) ->
  reachEC st' sp /\ forall c r, In (c, r) act -> spec_reports sp ready c r.
Proof.
  intros st sp ready choice st' act R E.
  destruct (reachEC_refines st sp R (Poll ready choice)) as [A _].
  destruct (A Logic.I) as [st2 [act2 [E2 [R2 [_ [IFF [_ [[rest HP] _]]]]]]]].
  rewrite E in E2. injection E2 as <- <-. split; [exact R2|].
  intros c r HI. apply IFF. eapply Permutation_in; [apply Permutation_sym; exact HP|]. apply in_or_app. now left.
Qed.
Lemma pp_poll_sound : forall st sp ready choice st' act, reachPC st sp ->
  pp_step_current st (Poll ready choice) = Ok (st', act) ->
  reachPC st' sp /\ forall c r, In (c, r) act <-> spec_reports sp ready c r.
Proof.
  intros st sp ready choice st' act R E.
  destruct (reachPC_refines st sp R (Poll ready choice)) as [A _].
  destruct (A Logic.I) as [st2 [act2 [E2 [R2 [_ IFF]]]]].
  rewrite E in E2. injection E2 as <- <-. split; [exact R2|exact IFF].
Qed.

(* C09_stale_within_batch, epoll *)
Lemma stale_within_batch_E : forall h runs st sp ready choice st1 act,
  reachEC st sp -> ep_step_current st (Poll ready choice) = Ok (st1, act) ->
  batch_ok h (map fst act) sp (callbacks_g runs act) ->
  exists st', ep_loop_iter h runs st ready choice = Ok (st', act, callbacks_g runs act) /\
    reachEC st' (spec_run sp (batch_ops h (callbacks_g runs act))) /\
    (forall c r, In (c, r) act -> spec_reports sp ready c r) /\
    (forall ready' choice' st'' act', ep_step_current st' (Poll ready' choice') = Ok (st'', act') ->
       forall c r, In (c, r) act' -> spec_reports (spec_run sp (batch_ops h (callbacks_g runs act))) ready' c r).
Proof.
  intros h runs st sp ready choice st1 act R E H.
  destruct (ep_poll_sound _ _ _ _ _ _ R E) as [R1 SND].
  destruct (loop_iter_ok ep ep_step_current reachEC ep_step_reach h runs st sp ready choice st1 act E R1 H) as [st' [E' R']].
  exists st'. split; [exact E'|]. split; [exact R'|]. split; [exact SND|].
  intros ready' choice' st'' act' E2. apply (ep_poll_sound _ _ _ _ _ _ R' E2).
Qed.

(* C09_stale_within_batch, poll back-end of the current tree *)
Lemma stale_within_batch_P : forall h runs st sp ready choice st1 act,
  reachPC st sp -> pp_step_current st (Poll ready choice) = Ok (st1, act) ->
  batch_ok h (map fst act) sp (callbacks_g runs act) ->
  exists st', pp_loop_iter_current h runs st ready choice = Ok (st', act, callbacks_g runs act) /\
    reachPC st' (spec_run sp (batch_ops h (callbacks_g runs act))) /\
    (forall c r, In (c, r) act -> spec_reports sp ready c r) /\
    (forall ready' choice' st'' act', pp_step_current st' (Poll ready' choice') = Ok (st'', act') ->
       forall c r, In (c, r) act' -> spec_reports (spec_run sp (batch_ops h (callbacks_g runs act))) ready' c r).
Proof.
  intros h runs st sp ready choice st1 act R E H.
  destruct (pp_poll_sound _ _ _ _ _ _ R E) as [R1 SND].
  destruct (loop_iter_ok pp pp_step_current reachPC pp_step_reach h runs st sp ready choice st1 act E R1 H) as [st' [E' R']].
  exists st'. split; [exact E'|]. split; [exact R'|]. split; [intros c r HI; now apply SND|].
  intros ready' choice' st'' act' E2 c r HI. now apply (pp_poll_sound _ _ _ _ _ _ R' E2).
Qed.

(* a channel that ends the batch disabled or removed is in no later active list *)
Lemma not_reported_when_off : forall sp ready c r,
  (forall s, sp c = Some s -> s_reg s = false \/ s_ev s = 0%N) -> ~ spec_reports sp ready c r.
Proof.
  intros sp ready c r H [s [A [B [C _]]]]. destruct (H s A) as [D|D]; congruence.
Qed.

(* ---- 2. wake-up eventfd and timerfd --------------------------------------------------------------------- *)
Lemma wake_rev_pos : N.land (N.lor POLLIN POLLOUT) (N.lor kReadEvent EHN) = POLLIN.
Proof. vm_compute. reflexivity. Qed.
Lemma wake_rev_zero : N.land POLLOUT (N.lor kReadEvent EHN) = 0%N.
Proof. vm_compute. reflexivity. Qed.
Lemma timer_rev_pos : N.land POLLIN (N.lor kReadEvent EHN) = POLLIN.
Proof. vm_compute. reflexivity. Qed.
Lemma kRead_nonzero : kReadEvent <> 0%N.
Proof. vm_compute. discriminate. Qed.
Lemma pollin_nonzero : POLLIN <> 0%N.
Proof. discriminate. Qed.
Lemma dispatch_pollin : dispatch POLLIN = [CbRead].
Proof. vm_compute. reflexivity. Qed.

Definition spec_unique (sp : spec) : Prop :=
  forall c1 c2 s1 s2, sp c1 = Some s1 -> s_reg s1 = true -> sp c2 = Some s2 -> s_reg s2 = true ->
    s_fd s1 = s_fd s2 -> c1 = c2.

(* the loop's two internal channels, registered for reading as the constructors of EventLoop and
   TimerQueue leave them *)
Definition loop_channels (sp : spec) (wc tc wfd tfd : nat) : Prop :=
  wc <> tc /\
  (exists rm, sp wc = Some (mkSch wfd kReadEvent true rm)) /\
  (exists rm, sp tc = Some (mkSch tfd kReadEvent true rm)).

(* no other registered channel has anything to report *)
Definition others_quiet (sp : spec) (wc tc : nat) (e : kenv) : Prop :=
  forall c s, sp c = Some s -> s_reg s = true -> c <> wc -> c <> tc ->
    N.land (k_rd e (s_fd s)) (N.lor (s_ev s) EHN) = 0%N.

Lemma reports_char : forall sp wc tc wfd tfd e, spec_unique sp -> loop_channels sp wc tc wfd tfd ->
  others_quiet sp wc tc e ->
  forall c r, spec_reports sp (env_ready wfd tfd e) c r <->
    (c = wc /\ (0 < k_wake e)%N /\ r = POLLIN) \/ (c = tc /\ (0 < k_texp e)%N /\ r = POLLIN).
Proof.
  intros sp wc tc wfd tfd e U [NE [[rmw Hw] [rmt Ht]]] Q c r.
  assert (FD : wfd <> tfd).
  { intros E. apply NE. eapply (U wc tc); eauto. }
  split.
  - intros [s [A [B [C [D F]]]]].
    destruct (Nat.eq_dec c wc) as [->|N1].
    { left. rewrite Hw in A. injection A as <-. cbn [s_fd s_ev] in D. unfold env_ready in D.
      rewrite Nat.eqb_refl in D. unfold eventfd_ready in D.
      destruct (N.ltb_spec 0 (k_wake e)) as [L|L].
      - rewrite wake_rev_pos in D. auto.
      - rewrite wake_rev_zero in D. contradiction. }
    destruct (Nat.eq_dec c tc) as [->|N2].
    { right. rewrite Ht in A. injection A as <-. cbn [s_fd s_ev] in D. unfold env_ready in D.
      destruct (Nat.eqb_spec tfd wfd) as [X|_]; [congruence|]. rewrite Nat.eqb_refl in D.
      unfold timerfd_ready in D. destruct (N.ltb_spec 0 (k_texp e)) as [L|L].
      - rewrite timer_rev_pos in D. auto.
      - rewrite N.land_0_l in D. contradiction. }
    exfalso. apply F. rewrite D. unfold env_ready.
    destruct (Nat.eqb_spec (s_fd s) wfd) as [X|_].
    { exfalso. apply N1. eapply (U c wc); eauto. }
    destruct (Nat.eqb_spec (s_fd s) tfd) as [X|_].
    { exfalso. apply N2. eapply (U c tc); eauto. }
    now apply (Q c s).
  - intros [[-> [L ->]]|[-> [L ->]]].
    + eexists. split; [exact Hw|]. cbn [s_reg s_ev s_fd]. split; [reflexivity|]. split; [apply kRead_nonzero|].
      split; [|apply pollin_nonzero]. unfold env_ready. rewrite Nat.eqb_refl. unfold eventfd_ready.
      destruct (N.ltb_spec 0 (k_wake e)); [|lia]. now rewrite wake_rev_pos.
    + eexists. split; [exact Ht|]. cbn [s_reg s_ev s_fd]. split; [reflexivity|]. split; [apply kRead_nonzero|].
      split; [|apply pollin_nonzero]. unfold env_ready.
      destruct (Nat.eqb_spec tfd wfd) as [X|_]; [congruence|]. rewrite Nat.eqb_refl. unfold timerfd_ready.
      destruct (N.ltb_spec 0 (k_texp e)); [|lia]. now rewrite timer_rev_pos.
Qed.

(* a read of at least 8 bytes on a non-semaphore eventfd / on a timerfd resets the counter *)
Definition drains (reads sem : bool) (size : Z) : bool := reads && negb sem && Z.leb 8 size.

Lemma cb_read_drains : forall reads sem size cnt, drains reads sem size = true -> cb_read reads sem size cnt = 0%N.
Proof.
  intros reads sem size cnt H. unfold drains in H. apply andb_prop in H. destruct H as [H H3].
  apply andb_prop in H. destruct H as [H1 H2]. apply negb_true_iff in H2. apply Z.leb_le in H3.
  subst. unfold cb_read, fd_read. destruct (Z.ltb_spec size 8); [lia|reflexivity].
Qed.
Lemma cb_read_zero : forall reads sem size, cb_read reads sem size 0 = 0%N.
Proof. intros. unfold cb_read, fd_read. destruct reads, (Z.ltb size 8), sem; reflexivity. Qed.

Section Effects.
Variables (rd sem : bool) (sz : Z) (trd : bool) (tsz : Z) (wc tc : nat) (user : nat -> cb -> kenv -> kenv).
Hypothesis NE : wc <> tc.
Let eff := loop_effects (handleRead_env rd sem sz) (timerRead_env trd tsz) wc tc user.

Definition internal_only (log : list (nat * cb)) : Prop :=
  forall ck, In ck log -> ck = (wc, CbRead) \/ ck = (tc, CbRead).

Lemma eff_wc : eff wc CbRead = handleRead_env rd sem sz.
Proof. unfold eff, loop_effects. now rewrite Nat.eqb_refl. Qed.
Lemma eff_tc : eff tc CbRead = timerRead_env trd tsz.
Proof.
  unfold eff, loop_effects. destruct (Nat.eqb_spec tc wc) as [X|_]; [congruence|]. now rewrite Nat.eqb_refl.
Qed.

Lemma effects_rd : forall log e, internal_only log -> k_rd (apply_effects eff log e) = k_rd e.
Proof.
  induction log as [|ck t IH]; intros e IO; [reflexivity|].
  unfold apply_effects in *. cbn [fold_left]. rewrite IH by (intros x Hx; apply IO; now right).
  destruct (IO ck (or_introl eq_refl)) as [->| ->]; cbn [fst snd]; [rewrite eff_wc|rewrite eff_tc]; reflexivity.
Qed.

Lemma effects_wake_zero : forall log e, internal_only log -> k_wake e = 0%N -> k_wake (apply_effects eff log e) = 0%N.
Proof.
  induction log as [|ck t IH]; intros e IO Z; [exact Z|].
  unfold apply_effects in *. cbn [fold_left]. apply IH; [intros x Hx; apply IO; now right|].
  destruct (IO ck (or_introl eq_refl)) as [->| ->]; cbn [fst snd]; [rewrite eff_wc|rewrite eff_tc]; cbn [handleRead_env timerRead_env k_wake].
  - rewrite Z. apply cb_read_zero.
  - exact Z.
Qed.
Lemma effects_texp_zero : forall log e, internal_only log -> k_texp e = 0%N -> k_texp (apply_effects eff log e) = 0%N.
Proof.
  induction log as [|ck t IH]; intros e IO Z; [exact Z|].
  unfold apply_effects in *. cbn [fold_left]. apply IH; [intros x Hx; apply IO; now right|].
  destruct (IO ck (or_introl eq_refl)) as [->| ->]; cbn [fst snd]; [rewrite eff_wc|rewrite eff_tc]; cbn [handleRead_env timerRead_env k_texp].
  - exact Z.
  - rewrite Z. apply cb_read_zero.
Qed.

Lemma effects_wake_drained : forall log e, internal_only log -> drains rd sem sz = true ->
  In (wc, CbRead) log -> k_wake (apply_effects eff log e) = 0%N.
Proof.
  induction log as [|ck t IH]; intros e IO D HI; [contradiction|].
  assert (IOt : internal_only t) by (intros x Hx; apply IO; now right).
  unfold apply_effects in *. cbn [fold_left]. destruct HI as [->|HI].
  - apply effects_wake_zero; [exact IOt|]. cbn [fst snd]. rewrite eff_wc. cbn [handleRead_env k_wake].
    now apply cb_read_drains.
  - now apply IH.
Qed.
Lemma effects_texp_drained : forall log e, internal_only log -> drains trd false tsz = true ->
  In (tc, CbRead) log -> k_texp (apply_effects eff log e) = 0%N.
Proof.
  induction log as [|ck t IH]; intros e IO D HI; [contradiction|].
  assert (IOt : internal_only t) by (intros x Hx; apply IO; now right).
  unfold apply_effects in *. cbn [fold_left]. destruct HI as [->|HI].
  - apply effects_texp_zero; [exact IOt|]. cbn [fst snd]. rewrite eff_tc. cbn [timerRead_env k_texp].
    now apply cb_read_drains.
  - now apply IH.
Qed.

(* a handleRead that does not read leaves the counter where it is *)
Lemma effects_wake_unread : forall log e, internal_only log -> rd = false ->
  k_wake (apply_effects eff log e) = k_wake e.
Proof.
  induction log as [|ck t IH]; intros e IO F; [reflexivity|].
  unfold apply_effects in *. cbn [fold_left]. rewrite IH; [|intros x Hx; apply IO; now right|exact F].
  destruct (IO ck (or_introl eq_refl)) as [->| ->]; cbn [fst snd]; [rewrite eff_wc|rewrite eff_tc];
    cbn [handleRead_env timerRead_env k_wake]; [|reflexivity].
  subst rd. reflexivity.
Qed.
End Effects.

Lemma nodup_two : forall (l : list nat) a b, NoDup l -> (forall x, In x l -> x = a \/ x = b) -> length l <= 2.
Proof.
  intros l a b ND H. change 2 with (length [a; b]). apply NoDup_incl_length; [exact ND|].
  intros x Hx. destruct (H x Hx) as [->| ->]; cbn; auto.
Qed.

Section Wake.
Variable S : Type.
Variable step : S -> op -> res (S * active).
Variable reach : S -> spec -> Prop.
Hypothesis step_ok : forall st sp o, reach st sp -> sguard sp o ->
  exists st' act, step st o = Ok (st', act) /\ reach st' (spec_step sp o).
Hypothesis poll_sound : forall st sp ready choice st' act, reach st sp ->
  step st (Poll ready choice) = Ok (st', act) ->
  reach st' sp /\ forall c r, In (c, r) act -> spec_reports sp ready c r.
(* everything ready is reported when it is little (for epoll: when it fits the result array) *)
Hypothesis poll_complete_small : forall st sp ready choice, reach st sp ->
  (forall l : active, NoDup (map fst l) -> (forall c r, In (c, r) l -> spec_reports sp ready c r) -> length l <= 2) ->
  exists st' act, step st (Poll ready choice) = Ok (st', act) /\
    forall c r, spec_reports sp ready c r -> In (c, r) act.
Hypothesis reach_unique : forall st sp, reach st sp -> spec_unique sp.

Variables (rd sem : bool) (sz : Z) (trd : bool) (tsz : Z).
Variables (h : handlers) (runs : nat -> bool) (user : nat -> cb -> kenv -> kenv).
Variables (wc tc wfd tfd : nat).
Let eff := loop_effects (handleRead_env rd sem sz) (timerRead_env trd tsz) wc tc user.

Lemma small_reports : forall sp e, spec_unique sp -> loop_channels sp wc tc wfd tfd -> others_quiet sp wc tc e ->
  forall l : active, NoDup (map fst l) ->
    (forall c r, In (c, r) l -> spec_reports sp (env_ready wfd tfd e) c r) -> length l <= 2.
Proof.
  intros sp e U LC Q l ND H. rewrite <- (map_length fst). apply (nodup_two _ wc tc ND).
  intros x Hx. apply in_map_iff in Hx. destruct Hx as [[c r] [<- HI]]. cbn [fst].
  apply H in HI. apply (reports_char sp wc tc wfd tfd e U LC Q) in HI.
  destruct HI as [[-> _]|[-> _]]; auto.
Qed.

Lemma log_internal : forall act, runs wc = true -> runs tc = true ->
  (forall c r, In (c, r) act -> (c = wc \/ c = tc) /\ r = POLLIN) ->
  forall ck, In ck (callbacks_g runs act) <-> exists r, In (fst ck, r) act /\ snd ck = CbRead.
Proof.
  intros act RW RT H [c k]. unfold callbacks_g. rewrite in_flat_map. cbn [fst snd]. split.
  - intros [[c0 r0] [HI HM]]. cbn [fst snd] in HM. destruct (H c0 r0 HI) as [HC ->].
    assert (RC : runs c0 = true) by (destruct HC as [->| ->]; assumption). rewrite RC, dispatch_pollin in HM.
    cbn in HM. destruct HM as [HM|[]]. injection HM as <- <-. eauto.
  - intros [r [HI ->]]. exists (c, r). split; [exact HI|]. cbn [fst snd]. destruct (H c r HI) as [HC ->].
    assert (RC : runs c = true) by (destruct HC as [->| ->]; assumption). rewrite RC, dispatch_pollin. now left.
Qed.

(* C09_wakeup_drained over an abstract back-end *)
Lemma wakeup_drained_gen : forall st sp e choice,
  reach st sp -> loop_channels sp wc tc wfd tfd -> others_quiet sp wc tc e ->
  runs wc = true -> runs tc = true -> (forall k, h wc k = []) -> (forall k, h tc k = []) ->
  drains rd sem sz = true -> drains trd false tsz = true ->
  exists st' act e',
    loop_iter_env S step h runs eff wfd tfd st e choice = Ok (st', act, callbacks_g runs act, e') /\
    reach st' sp /\
    (forall c r, In (c, r) act <->
       (c = wc /\ (0 < k_wake e)%N /\ r = POLLIN) \/ (c = tc /\ (0 < k_texp e)%N /\ r = POLLIN)) /\
    (forall ck, In ck (callbacks_g runs act) <->
       (ck = (wc, CbRead) /\ (0 < k_wake e)%N) \/ (ck = (tc, CbRead) /\ (0 < k_texp e)%N)) /\
    k_wake e' = 0%N /\ k_texp e' = 0%N /\ k_rd e' = k_rd e /\
    (forall c r, ~ spec_reports sp (env_ready wfd tfd e') c r).
Proof.
  intros st sp e choice R LC Q RW RT HW HT DW DT.
  pose proof (reach_unique st sp R) as U.
  pose proof (reports_char sp wc tc wfd tfd e U LC Q) as CH.
  destruct (poll_complete_small st sp (env_ready wfd tfd e) choice R (small_reports sp e U LC Q)) as [st1 [act [E CMP]]].
  destruct (poll_sound st sp _ choice st1 act R E) as [R1 SND].
  assert (ACT : forall c r, In (c, r) act <->
       (c = wc /\ (0 < k_wake e)%N /\ r = POLLIN) \/ (c = tc /\ (0 < k_texp e)%N /\ r = POLLIN)).
  { intros c r. rewrite <- CH. split; [apply SND|apply CMP]. }
  assert (ACT2 : forall c r, In (c, r) act -> (c = wc \/ c = tc) /\ r = POLLIN).
  { intros c r HI. apply ACT in HI. destruct HI as [[-> [_ ->]]|[-> [_ ->]]]; auto. }
  pose proof (log_internal act RW RT ACT2) as LOG.
  assert (IO : internal_only wc tc (callbacks_g runs act)).
  { intros [c k] HI. apply LOG in HI. cbn [fst snd] in HI. destruct HI as [r [HI ->]].
    destruct (ACT2 c r HI) as [[->| ->] _]; auto. }
  (* the callbacks of the two internal channels make no Channel API call *)
  assert (BOK : forall l sp0, internal_only wc tc l -> batch_ok h (map fst act) sp0 l /\ batch_ops h l = []).
  { induction l as [|ck t IH]; intros sp0 IOl; [split; [exact Logic.I|reflexivity]|].
    assert (HE : h (fst ck) (snd ck) = []).
    { destruct (IOl ck (or_introl eq_refl)) as [->| ->]; cbn [fst snd]; auto. }
    destruct (IH sp0) as [B1 B2]; [intros x Hx; apply IOl; now right|].
    split.
    - cbn [batch_ok]. rewrite HE. split; [exact Logic.I|exact B1].
    - cbn [batch_ops flat_map]. rewrite HE. exact B2. }
  destruct (BOK _ sp IO) as [B1 B2].
  destruct (loop_iter_ok S step reach step_ok h runs st sp _ choice st1 act E R1 B1) as [st' [EI R']].
  rewrite B2 in R'. cbn [spec_run fold_left] in R'.
  set (e' := apply_effects eff (callbacks_g runs act) e).
  exists st', act, e'. split.
  { unfold loop_iter_env. rewrite EI. reflexivity. }
  split; [exact R'|]. split; [exact ACT|].
  assert (LOG2 : forall ck, In ck (callbacks_g runs act) <->
       (ck = (wc, CbRead) /\ (0 < k_wake e)%N) \/ (ck = (tc, CbRead) /\ (0 < k_texp e)%N)).
  { intros [c k]. rewrite LOG. cbn [fst snd]. split.
    - intros [r [HI ->]]. apply ACT in HI. destruct HI as [[-> [L _]]|[-> [L _]]]; auto.
    - intros [[HE L]|[HE L]]; injection HE as -> ->; exists POLLIN; (split; [apply ACT; auto|reflexivity]). }
  split; [exact LOG2|].
  destruct LC as [NE LC'].
  assert (KW : k_wake e' = 0%N).
  { destruct (N.ltb_spec 0 (k_wake e)) as [L|L].
    - apply (effects_wake_drained rd sem sz trd tsz wc tc user NE); auto. apply LOG2. auto.
    - apply (effects_wake_zero rd sem sz trd tsz wc tc user NE); auto. lia. }
  assert (KT : k_texp e' = 0%N).
  { destruct (N.ltb_spec 0 (k_texp e)) as [L|L].
    - apply (effects_texp_drained rd sem sz trd tsz wc tc user NE); auto. apply LOG2. auto.
    - apply (effects_texp_zero rd sem sz trd tsz wc tc user NE); auto. lia. }
  assert (KR : k_rd e' = k_rd e) by (apply (effects_rd rd sem sz trd tsz wc tc user NE); auto).
  split; [exact KW|]. split; [exact KT|]. split; [exact KR|].
  intros c r HR.
  assert (Q' : others_quiet sp wc tc e').
  { intros c0 s0 A B C D. rewrite KR. apply (Q c0 s0); assumption. }
  apply (reports_char sp wc tc wfd tfd e' U (conj NE LC') Q') in HR.
  destruct HR as [[_ [L _]]|[_ [L _]]]; lia.
Qed.

(* the contrast: a handleRead that does not read leaves the eventfd readable, and the wake-up channel
   is reportable again at once -- the loop spins *)
Lemma wakeup_undrained_gen : forall st sp e choice,
  reach st sp -> loop_channels sp wc tc wfd tfd -> others_quiet sp wc tc e ->
  runs wc = true -> runs tc = true -> (forall k, h wc k = []) -> (forall k, h tc k = []) ->
  rd = false -> (0 < k_wake e)%N ->
  exists st' act e',
    loop_iter_env S step h runs eff wfd tfd st e choice = Ok (st', act, callbacks_g runs act, e') /\
    reach st' sp /\ In (wc, POLLIN) act /\ k_wake e' = k_wake e /\
    spec_reports sp (env_ready wfd tfd e') wc POLLIN.
Proof.
  intros st sp e choice R LC Q RW RT HW HT RD L.
  pose proof (reach_unique st sp R) as U.
  pose proof (reports_char sp wc tc wfd tfd e U LC Q) as CH.
  destruct (poll_complete_small st sp (env_ready wfd tfd e) choice R (small_reports sp e U LC Q)) as [st1 [act [E CMP]]].
  destruct (poll_sound st sp _ choice st1 act R E) as [R1 SND].
  assert (ACT : forall c r, In (c, r) act <->
       (c = wc /\ (0 < k_wake e)%N /\ r = POLLIN) \/ (c = tc /\ (0 < k_texp e)%N /\ r = POLLIN)).
  { intros c r. rewrite <- CH. split; [apply SND|apply CMP]. }
  assert (ACT2 : forall c r, In (c, r) act -> (c = wc \/ c = tc) /\ r = POLLIN).
  { intros c r HI. apply ACT in HI. destruct HI as [[-> [_ ->]]|[-> [_ ->]]]; auto. }
  pose proof (log_internal act RW RT ACT2) as LOG.
  assert (IO : internal_only wc tc (callbacks_g runs act)).
  { intros [c k] HI. apply LOG in HI. cbn [fst snd] in HI. destruct HI as [r [HI ->]].
    destruct (ACT2 c r HI) as [[->| ->] _]; auto. }
  assert (BOK : forall l sp0, internal_only wc tc l -> batch_ok h (map fst act) sp0 l /\ batch_ops h l = []).
  { induction l as [|ck t IH]; intros sp0 IOl; [split; [exact Logic.I|reflexivity]|].
    assert (HE : h (fst ck) (snd ck) = []).
    { destruct (IOl ck (or_introl eq_refl)) as [->| ->]; cbn [fst snd]; auto. }
    destruct (IH sp0) as [B1 B2]; [intros x Hx; apply IOl; now right|].
    split.
    - cbn [batch_ok]. rewrite HE. split; [exact Logic.I|exact B1].
    - cbn [batch_ops flat_map]. rewrite HE. exact B2. }
  destruct (BOK _ sp IO) as [B1 B2].
  destruct (loop_iter_ok S step reach step_ok h runs st sp _ choice st1 act E R1 B1) as [st' [EI R']].
  rewrite B2 in R'. cbn [spec_run fold_left] in R'.
  set (e' := apply_effects eff (callbacks_g runs act) e).
  exists st', act, e'. split.
  { unfold loop_iter_env. rewrite EI. reflexivity. }
  split; [exact R'|]. split; [apply ACT; auto|].
  destruct LC as [NE LC'].
  assert (KW : k_wake e' = k_wake e) by (apply (effects_wake_unread rd sem sz trd tsz wc tc user NE); auto).
  assert (KR : k_rd e' = k_rd e) by (apply (effects_rd rd sem sz trd tsz wc tc user NE); auto).
  split; [exact KW|].
  assert (Q' : others_quiet sp wc tc e').
  { intros c0 s0 A B C D. rewrite KR. apply (Q c0 s0); assumption. }
  apply (reports_char sp wc tc wfd tfd e' U (conj NE LC') Q'). left. rewrite KW. auto.
Qed.
End Wake.

(* ---- instances ------------------------------------------------------------------------------------------ *)
Lemma reachE_unique : forall st sp, reachEC st sp -> spec_unique sp.
Proof.
  intros st sp R c1 c2 s1 s2 A B C D F. apply (reg_unique st sp c1 c2 s1 s2 (reachEC_inv _ _ R)); assumption.
Qed.
Lemma reachPC_unique : forall st sp, reachPC st sp -> spec_unique sp.
Proof.
  intros st sp R c1 c2 s1 s2 A B C D F. apply (regP_unique true st sp c1 c2 s1 s2 (reachPC_inv _ _ R)); assumption.
Qed.

Lemma two_le_init_cap : 2 <= kInitEventListSize.
Proof. vm_compute. lia. Qed.

Lemma ep_poll_complete_small : forall st sp ready choice, reachEC st sp ->
  (forall l : active, NoDup (map fst l) -> (forall c r, In (c, r) l -> spec_reports sp ready c r) -> length l <= 2) ->
  exists st' act, ep_step_current st (Poll ready choice) = Ok (st', act) /\
    forall c r, spec_reports sp ready c r -> In (c, r) act.
Proof.
  intros st sp ready choice R SM. pose proof (reachEC_inv _ _ R) as I. rewrite ep_step_current_eq.
  destruct (ep_poll_ok true st sp ready choice I) as [act [rest [E [HP HL]]]].
  assert (LF : length (ep_full st ready) <= 2).
  { apply SM; [eapply ep_full_nodup; eauto|]. intros c r HI. now apply (ep_full_in st sp ready c r I). }
  pose proof (ie_capmin _ _ I) as CM. pose proof two_le_init_cap as T.
  assert (rest = []).
  { apply Permutation_length in HP. rewrite app_length, HL in HP. destruct rest; [auto|cbn in HP; lia]. }
  subst. rewrite app_nil_r in HP.
  eexists _, act. split; [exact E|]. intros c r HR. apply (ep_full_in st sp ready c r I) in HR.
  eapply Permutation_in; eauto.
Qed.
Lemma pp_poll_complete_small : forall st sp ready choice, reachPC st sp ->
  (forall l : active, NoDup (map fst l) -> (forall c r, In (c, r) l -> spec_reports sp ready c r) -> length l <= 2) ->
  exists st' act, pp_step_current st (Poll ready choice) = Ok (st', act) /\
    forall c r, spec_reports sp ready c r -> In (c, r) act.
Proof.
  intros st sp ready choice R _. destruct (reachPC_refines st sp R (Poll ready choice)) as [A _].
  destruct (A Logic.I) as [st' [act [E [_ [_ IFF]]]]].
  exists st', act. split; [exact E|]. intros c r. apply IFF.
Qed.
Lemma pp_poll_sound' : forall st sp ready choice st' act, reachPC st sp ->
  pp_step_current st (Poll ready choice) = Ok (st', act) ->
  reachPC st' sp /\ forall c r, In (c, r) act -> spec_reports sp ready c r.
Proof.
  intros st sp ready choice st' act R E. destruct (pp_poll_sound _ _ _ _ _ _ R E) as [R' IFF].
  split; [exact R'|]. intros c r. apply IFF.
Qed.

(* what the CURRENT sources do with the two descriptors (generated facts) *)
Definition wake_rd_current : kenv -> kenv :=
  handleRead_env EventLoop_handleRead_reads_wakeupfd EventLoop_eventfd_semaphore EventLoop_handleRead_read_size.
Definition timer_rd_current : kenv -> kenv :=
  timerRead_env TimerQueue_handleRead_reads_timerfd TimerQueue_readTimerfd_read_size.
Lemma wake_drains_current :
  drains EventLoop_handleRead_reads_wakeupfd EventLoop_eventfd_semaphore EventLoop_handleRead_read_size = true.
Proof. reflexivity. Qed.
Lemma timer_drains_current :
  drains TimerQueue_handleRead_reads_timerfd false TimerQueue_readTimerfd_read_size = true.
Proof. reflexivity. Qed.
Lemma loop_snapshot_current : EventLoop_loop_dispatches_snapshot = true.
Proof. reflexivity. Qed.

Definition effects_current (wc tc : nat) (user : nat -> cb -> kenv -> kenv) :=
  loop_effects wake_rd_current timer_rd_current wc tc user.

Lemma ep_full_nil : forall st sp ready, reachEC st sp -> (forall c r, ~ spec_reports sp ready c r) -> ep_full st ready = [].
Proof.
  intros st sp ready R H. destruct (ep_full st ready) as [|[c r] t] eqn:E; [reflexivity|].
  exfalso. apply (H c r). apply (ep_full_in st sp ready c r (reachEC_inv _ _ R)). rewrite E. now left.
Qed.

Lemma wakeup_drained_E : forall h runs user wc tc wfd tfd st sp e choice,
  reachEC st sp -> loop_channels sp wc tc wfd tfd -> others_quiet sp wc tc e ->
  runs wc = true -> runs tc = true -> (forall k, h wc k = []) -> (forall k, h tc k = []) ->
  exists st' act e',
    loop_iter_env ep ep_step_current h runs (effects_current wc tc user) wfd tfd st e choice = Ok (st', act, callbacks_g runs act, e') /\
    reachEC st' sp /\
    (forall c r, In (c, r) act <->
       (c = wc /\ (0 < k_wake e)%N /\ r = POLLIN) \/ (c = tc /\ (0 < k_texp e)%N /\ r = POLLIN)) /\
    (forall ck, In ck (callbacks_g runs act) <->
       (ck = (wc, CbRead) /\ (0 < k_wake e)%N) \/ (ck = (tc, CbRead) /\ (0 < k_texp e)%N)) /\
    k_wake e' = 0%N /\ k_texp e' = 0%N /\ k_rd e' = k_rd e /\
    (* nothing for epoll_wait to return: it blocks until its time-out or a new event, in this and in
       every later state with the same interest map *)
    (forall st2, reachEC st2 sp -> ep_full st2 (env_ready wfd tfd e') = []).
Proof.
  intros h runs user wc tc wfd tfd st sp e choice R LC Q RW RT HW HT.
  destruct (wakeup_drained_gen ep ep_step_current reachEC ep_step_reach ep_poll_sound ep_poll_complete_small reachE_unique
              _ _ _ _ _ h runs user wc tc wfd tfd st sp e choice R LC Q RW RT HW HT wake_drains_current timer_drains_current)
    as [st' [act [e' [E [R' [A [L [KW [KT [KR NR]]]]]]]]]].
  exists st', act, e'. split; [exact E|]. split; [exact R'|]. split; [exact A|]. split; [exact L|].
  split; [exact KW|]. split; [exact KT|]. split; [exact KR|].
  intros st2 R2. now apply (ep_full_nil st2 sp).
Qed.

Lemma wakeup_drained_P : forall h runs user wc tc wfd tfd st sp e choice,
  reachPC st sp -> loop_channels sp wc tc wfd tfd -> others_quiet sp wc tc e ->
  runs wc = true -> runs tc = true -> (forall k, h wc k = []) -> (forall k, h tc k = []) ->
  exists st' act e',
    loop_iter_env pp pp_step_current h runs (effects_current wc tc user) wfd tfd st e choice = Ok (st', act, callbacks_g runs act, e') /\
    reachPC st' sp /\
    (forall c r, In (c, r) act <->
       (c = wc /\ (0 < k_wake e)%N /\ r = POLLIN) \/ (c = tc /\ (0 < k_texp e)%N /\ r = POLLIN)) /\
    (forall ck, In ck (callbacks_g runs act) <->
       (ck = (wc, CbRead) /\ (0 < k_wake e)%N) \/ (ck = (tc, CbRead) /\ (0 < k_texp e)%N)) /\
    k_wake e' = 0%N /\ k_texp e' = 0%N /\ k_rd e' = k_rd e /\
    (forall st2 choice2, reachPC st2 sp -> pp_step_current st2 (Poll (env_ready wfd tfd e') choice2) = Ok (st2, [])).
Proof.
  intros h runs user wc tc wfd tfd st sp e choice R LC Q RW RT HW HT.
  destruct (wakeup_drained_gen pp pp_step_current reachPC pp_step_reach pp_poll_sound' pp_poll_complete_small reachPC_unique
              _ _ _ _ _ h runs user wc tc wfd tfd st sp e choice R LC Q RW RT HW HT wake_drains_current timer_drains_current)
    as [st' [act [e' [E [R' [A [L [KW [KT [KR NR]]]]]]]]]].
  exists st', act, e'. split; [exact E|]. split; [exact R'|]. split; [exact A|]. split; [exact L|].
  split; [exact KW|]. split; [exact KT|]. split; [exact KR|].
  intros st2 choice2 R2. destruct (reachPC_refines st2 sp R2 (Poll (env_ready wfd tfd e') choice2)) as [B _].
  destruct (B Logic.I) as [st3 [act3 [E3 [_ [-> IFF]]]]]. rewrite E3. f_equal. f_equal.
  destruct act3 as [|[c r] t]; [reflexivity|]. exfalso. apply (NR c r). apply IFF. now left.
Qed.

(* without the read in EventLoop::handleRead the wake-up channel stays reportable: the loop spins *)
Lemma wakeup_undrained_spins_E : forall h runs user sem sz wc tc wfd tfd st sp e choice,
  reachEC st sp -> loop_channels sp wc tc wfd tfd -> others_quiet sp wc tc e ->
  runs wc = true -> runs tc = true -> (forall k, h wc k = []) -> (forall k, h tc k = []) ->
  (0 < k_wake e)%N ->
  exists st' act e',
    loop_iter_env ep ep_step_current h runs (loop_effects (handleRead_env false sem sz) timer_rd_current wc tc user)
      wfd tfd st e choice = Ok (st', act, callbacks_g runs act, e') /\
    reachEC st' sp /\ In (wc, POLLIN) act /\ k_wake e' = k_wake e /\
    In (wc, POLLIN) (ep_full st' (env_ready wfd tfd e')).
Proof.
  intros h runs user sem sz wc tc wfd tfd st sp e choice R LC Q RW RT HW HT L.
  destruct (wakeup_undrained_gen ep ep_step_current reachEC ep_step_reach ep_poll_sound ep_poll_complete_small reachE_unique
              false sem sz TimerQueue_handleRead_reads_timerfd TimerQueue_readTimerfd_read_size h runs user wc tc wfd tfd st sp e choice R LC Q RW RT HW HT eq_refl L)
    as [st' [act [e' [E [R' [A [KW SR]]]]]]].
  exists st', act, e'. split; [exact E|]. split; [exact R'|]. split; [exact A|]. split; [exact KW|].
  now apply (ep_full_in st' sp _ wc POLLIN (reachEC_inv _ _ R')).
Qed.
