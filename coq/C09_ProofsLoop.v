(* C09_ProofsLoop: one iteration of EventLoop::loop() around either poller.
   1. dispatch from the activeChannels_ snapshot (stale within the batch, never later);
   2. the wake-up eventfd and the timerfd are drained by their read callbacks, so that a loop with
      nothing else ready finds nothing to report at the next poll (it blocks: no spinning).
   Both are proved once over an abstract back-end and instantiated for ep_step and pp_step_current. *)
From Coq Require Import List ZArith NArith Lia Bool Arith Permutation.
From Muduo Require Import Gen_Consts Gen_C09 C09_Model C09_Proofs C09_ProofsPoll.
Import ListNotations.

Lemma spec_run_app : forall a b sp, spec_run sp (a ++ b) = spec_run (spec_run sp a) b.
Proof. intros. unfold spec_run. apply fold_left_app. Qed.

Lemma batch_ops_app : forall h a b, batch_ops h (a ++ b) = batch_ops h a ++ batch_ops h b.
Proof. intros. unfold batch_ops. apply flat_map_app. Qed.

Lemma snap_run_app : forall a b snap, snap_run snap (a ++ b) = snap_run (snap_run snap a) b.
Proof. intros. unfold snap_run. apply fold_left_app. Qed.

Lemma batch_ok_app : forall h a b snap sp,
  batch_ok h snap sp (a ++ b) <->
  batch_ok h snap sp a /\ batch_ok h (snap_run snap (batch_ops h a)) (spec_run sp (batch_ops h a)) b.
Proof.
  intros h. induction a as [|ck t IH]; intros b snap sp; cbn [app batch_ok].
  - cbn. tauto.
  - rewrite IH. cbn [batch_ops flat_map]. fold (batch_ops h t). rewrite spec_run_app, snap_run_app. tauto.
Qed.

Lemma callbacks_g_cons : forall runs cr t,
  callbacks_g runs (cr :: t) =
  map (pair (fst cr)) (if runs (fst cr) then dispatch (snd cr) else []) ++ callbacks_g runs t.
Proof. reflexivity. Qed.

(* ---- 1. the batch, over an abstract back-end -------------------------------------------------------- *)
Section Batch.
Variable S : Type.
Variable step : S -> op -> res (S * active).
Variable reach : S -> spec -> Prop.
Hypothesis step_ok : forall st sp o, reach st sp -> sguard sp o ->
  exists st' act, step st o = Ok (st', act) /\ reach st' (spec_step sp o).

Lemma run_cb_ops_ok : forall cur ops snap st sp, reach st sp -> cb_ops_ok snap cur sp ops ->
  exists st', run_cb_ops S step snap cur st ops = Ok (st', snap_run snap ops) /\ reach st' (spec_run sp ops).
Proof.
  intros cur. induction ops as [|o t IH]; intros snap st sp R H.
  - exists st. split; [reflexivity|exact R].
  - destruct H as [LG [G H]]. cbn [run_cb_ops]. rewrite LG.
    destruct (step_ok st sp o R G) as [st1 [act [E R1]]]. rewrite E. cbn [bind fst].
    destruct (IH (snap_step snap o) st1 (spec_step sp o) R1 H) as [st' [E' R']]. exists st'. split; [exact E'|exact R'].
Qed.

Lemma dispatch_cbs_ok : forall h cur ks snap st sp, reach st sp ->
  batch_ok h snap sp (map (pair cur) ks) ->
  exists st', dispatch_cbs S step h snap cur st ks =
                Ok (st', snap_run snap (batch_ops h (map (pair cur) ks)), map (pair cur) ks) /\
              reach st' (spec_run sp (batch_ops h (map (pair cur) ks))).
Proof.
  intros h cur. induction ks as [|k t IH]; intros snap st sp R H.
  - exists st. split; [reflexivity|exact R].
  - cbn [map batch_ok fst snd] in H. destruct H as [H1 H2].
    destruct (run_cb_ops_ok cur (h cur k) snap st sp R H1) as [st1 [E1 R1]].
    destruct (IH _ st1 _ R1 H2) as [st' [E' R']].
    cbn [dispatch_cbs]. rewrite E1. cbn [bind fst snd]. rewrite E'. cbn [bind fst snd].
    exists st'. cbn [map batch_ops flat_map fst snd]. fold (batch_ops h (map (pair cur) t)).
    rewrite spec_run_app, snap_run_app. split; [reflexivity|exact R'].
Qed.

(* EVERY entry of the snapshot gets its callbacks, computed from the revents of poll time, whatever
   the earlier callbacks of the batch did; the poller ends in the state the callbacks' ops lead to *)
Lemma dispatch_batch_ok : forall h runs act snap st sp, reach st sp ->
  batch_ok h snap sp (callbacks_g runs act) ->
  exists st', dispatch_batch S step h runs snap st act = Ok (st', callbacks_g runs act) /\
              reach st' (spec_run sp (batch_ops h (callbacks_g runs act))).
Proof.
  intros h runs. induction act as [|cr t IH]; intros snap st sp R H.
  - exists st. split; [reflexivity|exact R].
  - rewrite callbacks_g_cons in H. apply batch_ok_app in H. destruct H as [H1 H2].
    destruct (dispatch_cbs_ok h (fst cr) _ snap st sp R H1) as [st1 [E1 R1]].
    destruct (IH _ st1 _ R1 H2) as [st' [E' R']].
    cbn [dispatch_batch]. rewrite E1. cbn [bind fst snd]. rewrite E'. cbn [bind fst snd].
    exists st'. split; [rewrite callbacks_g_cons; reflexivity|].
    rewrite callbacks_g_cons, batch_ops_app, spec_run_app. exact R'.
Qed.

Lemma loop_iter_ok : forall h runs st sp ready choice st1 act,
  step st (Poll ready choice) = Ok (st1, act) -> reach st1 sp ->
  batch_ok h (map fst act) sp (callbacks_g runs act) ->
  exists st', loop_iter S step h runs st ready choice = Ok (st', act, callbacks_g runs act) /\
              reach st' (spec_run sp (batch_ops h (callbacks_g runs act))).
Proof.
  intros h runs st sp ready choice st1 act E R H.
  destruct (dispatch_batch_ok h runs act (map fst act) st1 sp R H) as [st' [E' R']].
  unfold loop_iter. rewrite E. cbn [bind fst snd]. rewrite E'. cbn [bind fst snd].
  exists st'. split; [reflexivity|exact R'].
Qed.

(* the two asserts that guard the batch: violating them is a rejected precondition *)
Lemma run_cb_ops_guard_rejected : forall snap cur st o t,
  loop_guard snap cur o = false -> run_cb_ops S step snap cur st (o :: t) = Rejected.
Proof. intros snap cur st o t H. cbn [run_cb_ops]. now rewrite H. Qed.
End Batch.

(* removing a channel that is in the snapshot and is not the one being handled (EventLoop::removeChannel's
   assert), destroying the channel being handled (~Channel's assert) *)
Lemma loop_guard_remove_ahead : forall snap cur c, c <> cur -> In c snap -> loop_guard snap cur (Remove c) = false.
Proof.
  intros snap cur c N HI. cbn [loop_guard]. destruct (Nat.eqb_spec c cur); [contradiction|]. cbn [orb].
  assert (in_snap c snap = true).
  { unfold in_snap. apply existsb_exists. exists c. split; [exact HI|apply Nat.eqb_refl]. }
  now rewrite H.
Qed.
Lemma loop_guard_del_current : forall snap cur, loop_guard snap cur (Del cur) = false.
Proof. intros. cbn [loop_guard]. now rewrite Nat.eqb_refl. Qed.

(* ---- instances ------------------------------------------------------------------------------------------ *)
Lemma ep_step_reach : forall st sp o, reachEC st sp -> sguard sp o ->
  exists st' act, ep_step_current st o = Ok (st', act) /\ reachEC st' (spec_step sp o).
Proof.
  intros st sp o R G. destruct (reachEC_refines st sp R o) as [A _].
  destruct (A G) as [st' [act [E [R' _]]]]. eauto.
Qed.
Lemma pp_step_reach : forall st sp o, reachPC st sp -> sguard sp o ->
  exists st' act, pp_step_current st o = Ok (st', act) /\ reachPC st' (spec_step sp o).
Proof.
  intros st sp o R G. destruct (reachPC_refines st sp R o) as [A _].
  destruct (A G) as [st' [act [E [R' _]]]]. eauto.
Qed.

Lemma ep_poll_sound : forall st sp ready choice st' act, reachEC st sp ->
  ep_step_current st (Poll ready choice) = Ok (st', act) ->
  reachEC st' sp /\ forall c r, In (c, r) act -> spec_reports sp ready c r.
Proof.
  intros st sp ready choice st' act R E.
  destruct (reachEC_refines st sp R (Poll ready choice)) as [A _].
  destruct (A Logic.I) as [st2 [act2 [E2 [R2 [_ [IFF [_ [[rest HP] _]]]]]]]].
  rewrite E in E2. injection E2 as <- <-. split; [exact R2|].
  intros c r HI. apply IFF. eapply Permutation_in; [apply Permutation_sym; exact HP|]. apply in_or_app. now left.
Qed.
Lemma pp_poll_sound : forall st sp ready choice st' act, reachPC st sp ->
  pp_step_current st (Poll ready choice) = Ok (st', act) ->
  reachPC st' sp /\ forall c r, In (c, r) act <-> spec_reports sp ready c r.
Proof.
  intros st sp ready choice st' act R E.
  destruct (reachPC_refines st sp R (Poll ready choice)) as [A _].
  destruct (A Logic.I) as [st2 [act2 [E2 [R2 [_ IFF]]]]].
  rewrite E in E2. injection E2 as <- <-. split; [exact R2|exact IFF].
Qed.

(* C09_stale_within_batch, epoll *)
Lemma stale_within_batch_E : forall h runs st sp ready choice st1 act,
  reachEC st sp -> ep_step_current st (Poll ready choice) = Ok (st1, act) ->
  batch_ok h (map fst act) sp (callbacks_g runs act) ->
  exists st', ep_loop_iter h runs st ready choice = Ok (st', act, callbacks_g runs act) /\
    reachEC st' (spec_run sp (batch_ops h (callbacks_g runs act))) /\
    (forall c r, In (c, r) act -> spec_reports sp ready c r) /\
    (forall ready' choice' st'' act', ep_step_current st' (Poll ready' choice') = Ok (st'', act') ->
       forall c r, In (c, r) act' -> spec_reports (spec_run sp (batch_ops h (callbacks_g runs act))) ready' c r).
Proof.
  intros h runs st sp ready choice st1 act R E H.
  destruct (ep_poll_sound _ _ _ _ _ _ R E) as [R1 SND].
  destruct (loop_iter_ok ep ep_step_current reachEC ep_step_reach h runs st sp ready choice st1 act E R1 H) as [st' [E' R']].
  exists st'. split; [exact E'|]. split; [exact R'|]. split; [exact SND|].
  intros ready' choice' st'' act' E2. apply (ep_poll_sound _ _ _ _ _ _ R' E2).
Qed.

(* C09_stale_within_batch, poll back-end of the current tree *)
Lemma stale_within_batch_P : forall h runs st sp ready choice st1 act,
  reachPC st sp -> pp_step_current st (Poll ready choice) = Ok (st1, act) ->
  batch_ok h (map fst act) sp (callbacks_g runs act) ->
  exists st', pp_loop_iter_current h runs st ready choice = Ok (st', act, callbacks_g runs act) /\
    reachPC st' (spec_run sp (batch_ops h (callbacks_g runs act))) /\
    (forall c r, In (c, r) act -> spec_reports sp ready c r) /\
    (forall ready' choice' st'' act', pp_step_current st' (Poll ready' choice') = Ok (st'', act') ->
       forall c r, In (c, r) act' -> spec_reports (spec_run sp (batch_ops h (callbacks_g runs act))) ready' c r).
Proof.
  intros h runs st sp ready choice st1 act R E H.
  destruct (pp_poll_sound _ _ _ _ _ _ R E) as [R1 SND].
  destruct (loop_iter_ok pp pp_step_current reachPC pp_step_reach h runs st sp ready choice st1 act E R1 H) as [st' [E' R']].
  exists st'. split; [exact E'|]. split; [exact R'|]. split; [intros c r HI; now apply SND|].
  intros ready' choice' st'' act' E2 c r HI. now apply (pp_poll_sound _ _ _ _ _ _ R' E2).
Qed.

(* a channel that ends the batch disabled or removed is in no later active list *)
Lemma not_reported_when_off : forall sp ready c r,
  (forall s, sp c = Some s -> s_reg s = false \/ s_ev s = 0%N) -> ~ spec_reports sp ready c r.
Proof.
  intros sp ready c r H [s [A [B [C _]]]]. destruct (H s A) as [D|D]; congruence.
Qed.

(* ---- 2. wake-up eventfd and timerfd --------------------------------------------------------------------- *)
Lemma wake_rev_pos : N.land (N.lor POLLIN POLLOUT) (N.lor kReadEvent EHN) = POLLIN.
Proof. vm_compute. reflexivity. Qed.
Lemma wake_rev_zero : N.land POLLOUT (N.lor kReadEvent EHN) = 0%N.
Proof. vm_compute. reflexivity. Qed.
Lemma timer_rev_pos : N.land POLLIN (N.lor kReadEvent EHN) = POLLIN.
Proof. vm_compute. reflexivity. Qed.
Lemma kRead_nonzero : kReadEvent <> 0%N.
Proof. vm_compute. discriminate. Qed.
Lemma pollin_nonzero : POLLIN <> 0%N.
Proof. discriminate. Qed.
Lemma dispatch_pollin : dispatch POLLIN = [CbRead].
Proof. vm_compute. reflexivity. Qed.

Definition spec_unique (sp : spec) : Prop :=
  forall c1 c2 s1 s2, sp c1 = Some s1 -> s_reg s1 = true -> sp c2 = Some s2 -> s_reg s2 = true ->
    s_fd s1 = s_fd s2 -> c1 = c2.

(* the loop's two internal channels, registered for reading as the constructors of EventLoop and
   TimerQueue leave them *)
Definition loop_channels (sp : spec) (wc tc wfd tfd : nat) : Prop :=
  wc <> tc /\
  (exists rm, sp wc = Some (mkSch wfd kReadEvent true rm)) /\
  (exists rm, sp tc = Some (mkSch tfd kReadEvent true rm)).

(* no other registered channel with some interest enabled has anything to report *)
Definition others_quiet (sp : spec) (wc tc : nat) (e : kenv) : Prop :=
  forall c s, sp c = Some s -> s_reg s = true -> s_ev s <> 0%N -> c <> wc -> c <> tc ->
    N.land (k_rd e (s_fd s)) (N.lor (s_ev s) EHN) = 0%N.

Lemma reports_char : forall sp wc tc wfd tfd e, spec_unique sp -> loop_channels sp wc tc wfd tfd ->
  others_quiet sp wc tc e ->
  forall c r, spec_reports sp (env_ready wfd tfd e) c r <->
    (c = wc /\ (0 < k_wake e)%N /\ r = POLLIN) \/ (c = tc /\ (0 < k_texp e)%N /\ r = POLLIN).
Proof.
  intros sp wc tc wfd tfd e U [NE [[rmw Hw] [rmt Ht]]] Q c r.
  assert (FD : wfd <> tfd).
  { intros E. apply NE. eapply (U wc tc); eauto. }
  split.
  - intros [s [A [B [C [D F]]]]].
    destruct (Nat.eq_dec c wc) as [->|N1].
    { left. rewrite Hw in A. injection A as <-. cbn [s_fd s_ev] in D. unfold env_ready in D.
      rewrite Nat.eqb_refl in D. unfold eventfd_ready in D.
      destruct (N.ltb_spec 0 (k_wake e)) as [L|L].
      - rewrite wake_rev_pos in D. auto.
      - rewrite wake_rev_zero in D. contradiction. }
    destruct (Nat.eq_dec c tc) as [->|N2].
    { right. rewrite Ht in A. injection A as <-. cbn [s_fd s_ev] in D. unfold env_ready in D.
      destruct (Nat.eqb_spec tfd wfd) as [X|_]; [congruence|]. rewrite Nat.eqb_refl in D.
      unfold timerfd_ready in D. destruct (N.ltb_spec 0 (k_texp e)) as [L|L].
      - rewrite timer_rev_pos in D. auto.
      - rewrite N.land_0_l in D. contradiction. }
    exfalso. apply F. rewrite D. unfold env_ready.
    destruct (Nat.eqb_spec (s_fd s) wfd) as [X|_].
    { exfalso. apply N1. eapply (U c wc); eauto. }
    destruct (Nat.eqb_spec (s_fd s) tfd) as [X|_].
    { exfalso. apply N2. eapply (U c tc); eauto. }
    now apply (Q c s).
  - intros [[-> [L ->]]|[-> [L ->]]].
    + eexists. split; [exact Hw|]. cbn [s_reg s_ev s_fd]. split; [reflexivity|]. split; [apply kRead_nonzero|].
      split; [|apply pollin_nonzero]. unfold env_ready. rewrite Nat.eqb_refl. unfold eventfd_ready.
      destruct (N.ltb_spec 0 (k_wake e)); [|lia]. now rewrite wake_rev_pos.
    + eexists. split; [exact Ht|]. cbn [s_reg s_ev s_fd]. split; [reflexivity|]. split; [apply kRead_nonzero|].
      split; [|apply pollin_nonzero]. unfold env_ready.
      destruct (Nat.eqb_spec tfd wfd) as [X|_]; [congruence|]. rewrite Nat.eqb_refl. unfold timerfd_ready.
      destruct (N.ltb_spec 0 (k_texp e)); [|lia]. now rewrite timer_rev_pos.
Qed.

(* a read of at least 8 bytes on a non-semaphore eventfd / on a timerfd resets the counter *)
Definition drains (reads sem : bool) (size : Z) : bool := reads && negb sem && Z.leb 8 size.

Lemma cb_read_drains : forall reads sem size cnt, drains reads sem size = true -> cb_read reads sem size cnt = 0%N.
Proof.
  intros reads sem size cnt H. unfold drains in H. apply andb_prop in H. destruct H as [H H3].
  apply andb_prop in H. destruct H as [H1 H2]. apply negb_true_iff in H2. apply Z.leb_le in H3.
  subst. unfold cb_read, fd_read. destruct (Z.ltb_spec size 8); [lia|reflexivity].
Qed.
Lemma cb_read_zero : forall reads sem size, cb_read reads sem size 0 = 0%N.
Proof. intros. unfold cb_read, fd_read. destruct reads, (Z.ltb size 8), sem; reflexivity. Qed.

Section Effects.
Variables (rd sem : bool) (sz : Z) (trd : bool) (tsz : Z) (wc tc : nat) (user : nat -> cb -> kenv -> kenv).
Hypothesis NE : wc <> tc.
Let eff := loop_effects (handleRead_env rd sem sz) (timerRead_env trd tsz) wc tc user.

Definition internal_only (log : list (nat * cb)) : Prop :=
  forall ck, In ck log -> ck = (wc, CbRead) \/ ck = (tc, CbRead).

Lemma eff_wc : eff wc CbRead = handleRead_env rd sem sz.
Proof. unfold eff, loop_effects. now rewrite Nat.eqb_refl. Qed.
Lemma eff_tc : eff tc CbRead = timerRead_env trd tsz.
Proof.
  unfold eff, loop_effects. destruct (Nat.eqb_spec tc wc) as [X|_]; [congruence|]. now rewrite Nat.eqb_refl.
Qed.

Lemma effects_rd : forall log e, internal_only log -> k_rd (apply_effects eff log e) = k_rd e.
Proof.
  induction log as [|ck t IH]; intros e IO; [reflexivity|].
  unfold apply_effects in *. cbn [fold_left]. rewrite IH by (intros x Hx; apply IO; now right).
  destruct (IO ck (or_introl eq_refl)) as [->| ->]; cbn [fst snd]; [rewrite eff_wc|rewrite eff_tc]; reflexivity.
Qed.

Lemma effects_wake_zero : forall log e, internal_only log -> k_wake e = 0%N -> k_wake (apply_effects eff log e) = 0%N.
Proof.
  induction log as [|ck t IH]; intros e IO Z; [exact Z|].
  unfold apply_effects in *. cbn [fold_left]. apply IH; [intros x Hx; apply IO; now right|].
  destruct (IO ck (or_introl eq_refl)) as [->| ->]; cbn [fst snd]; [rewrite eff_wc|rewrite eff_tc]; cbn [handleRead_env timerRead_env k_wake].
  - rewrite Z. apply cb_read_zero.
  - exact Z.
Qed.
Lemma effects_texp_zero : forall log e, internal_only log -> k_texp e = 0%N -> k_texp (apply_effects eff log e) = 0%N.
Proof.
  induction log as [|ck t IH]; intros e IO Z; [exact Z|].
  unfold apply_effects in *. cbn [fold_left]. apply IH; [intros x Hx; apply IO; now right|].
  destruct (IO ck (or_introl eq_refl)) as [->| ->]; cbn [fst snd]; [rewrite eff_wc|rewrite eff_tc]; cbn [handleRead_env timerRead_env k_texp].
  - exact Z.
  - rewrite Z. apply cb_read_zero.
Qed.

Lemma effects_wake_drained : forall log e, internal_only log -> drains rd sem sz = true ->
  In (wc, CbRead) log -> k_wake (apply_effects eff log e) = 0%N.
Proof.
  induction log as [|ck t IH]; intros e IO D HI; [contradiction|].
  assert (IOt : internal_only t) by (intros x Hx; apply IO; now right).
  unfold apply_effects in *. cbn [fold_left]. destruct HI as [->|HI].
  - apply effects_wake_zero; [exact IOt|]. cbn [fst snd]. rewrite eff_wc. cbn [handleRead_env k_wake].
    now apply cb_read_drains.
  - now apply IH.
Qed.
Lemma effects_texp_drained : forall log e, internal_only log -> drains trd false tsz = true ->
  In (tc, CbRead) log -> k_texp (apply_effects eff log e) = 0%N.
Proof.
  induction log as [|ck t IH]; intros e IO D HI; [contradiction|].
  assert (IOt : internal_only t) by (intros x Hx; apply IO; now right).
  unfold apply_effects in *. cbn [fold_left]. destruct HI as [->|HI].
  - apply effects_texp_zero; [exact IOt|]. cbn [fst snd]. rewrite eff_tc. cbn [timerRead_env k_texp].
    now apply cb_read_drains.
  - now apply IH.
Qed.

(* a handleRead that does not read leaves the counter where it is *)
Lemma effects_wake_unread : forall log e, internal_only log -> rd = false ->
  k_wake (apply_effects eff log e) = k_wake e.
Proof.
  induction log as [|ck t IH]; intros e IO F; [reflexivity|].
  unfold apply_effects in *. cbn [fold_left]. rewrite IH; [|intros x Hx; apply IO; now right|exact F].
  destruct (IO ck (or_introl eq_refl)) as [->| ->]; cbn [fst snd]; [rewrite eff_wc|rewrite eff_tc];
    cbn [handleRead_env timerRead_env k_wake]; [|reflexivity].
  subst rd. reflexivity.
Qed.
End Effects.

Lemma nodup_two : forall (l : list nat) a b, NoDup l -> (forall x, In x l -> x = a \/ x = b) -> length l <= 2.
Proof.
  intros l a b ND H. change 2 with (length [a; b]). apply NoDup_incl_length; [exact ND|].
  intros x Hx. destruct (H x Hx) as [->| ->]; cbn; auto.
Qed.

Section Wake.
Variable S : Type.
Variable step : S -> op -> res (S * active).
Variable reach : S -> spec -> Prop.
Hypothesis step_ok : forall st sp o, reach st sp -> sguard sp o ->
  exists st' act, step st o = Ok (st', act) /\ reach st' (spec_step sp o).
Hypothesis poll_sound : forall st sp ready choice st' act, reach st sp ->
  step st (Poll ready choice) = Ok (st', act) ->
  reach st' sp /\ forall c r, In (c, r) act -> spec_reports sp ready c r.
(* everything ready is reported when it is little (for epoll: when it fits the result array) *)
Hypothesis poll_complete_small : forall st sp ready choice, reach st sp ->
  (forall l : active, NoDup (map fst l) -> (forall c r, In (c, r) l -> spec_reports sp ready c r) -> length l <= 2) ->
  exists st' act, step st (Poll ready choice) = Ok (st', act) /\
    forall c r, spec_reports sp ready c r -> In (c, r) act.
Hypothesis reach_unique : forall st sp, reach st sp -> spec_unique sp.

Variables (rd sem : bool) (sz : Z) (trd : bool) (tsz : Z).
Variables (h : handlers) (runs : nat -> bool) (user : nat -> cb -> kenv -> kenv).
Variables (wc tc wfd tfd : nat).
Let eff := loop_effects (handleRead_env rd sem sz) (timerRead_env trd tsz) wc tc user.

Lemma small_reports : forall sp e, spec_unique sp -> loop_channels sp wc tc wfd tfd -> others_quiet sp wc tc e ->
  forall l : active, NoDup (map fst l) ->
    (forall c r, In (c, r) l -> spec_reports sp (env_ready wfd tfd e) c r) -> length l <= 2.
Proof.
  intros sp e U LC Q l ND H. rewrite <- (map_length fst). apply (nodup_two _ wc tc ND).
  intros x Hx. apply in_map_iff in Hx. destruct Hx as [[c r] [<- HI]]. cbn [fst].
  apply H in HI. apply (reports_char sp wc tc wfd tfd e U LC Q) in HI.
  destruct HI as [[-> _]|[-> _]]; auto.
Qed.

Lemma log_internal : forall act, runs wc = true -> runs tc = true ->
  (forall c r, In (c, r) act -> (c = wc \/ c = tc) /\ r = POLLIN) ->
  forall ck, In ck (callbacks_g runs act) <-> exists r, In (fst ck, r) act /\ snd ck = CbRead.
Proof.
  intros act RW RT H [c k]. unfold callbacks_g. rewrite in_flat_map. cbn [fst snd]. split.
  - intros [[c0 r0] [HI HM]]. cbn [fst snd] in HM. destruct (H c0 r0 HI) as [HC ->].
    assert (RC : runs c0 = true) by (destruct HC as [->| ->]; assumption). rewrite RC, dispatch_pollin in HM.
    cbn in HM. destruct HM as [HM|[]]. injection HM as <- <-. eauto.
  - intros [r [HI ->]]. exists (c, r). split; [exact HI|]. cbn [fst snd]. destruct (H c r HI) as [HC ->].
    assert (RC : runs c = true) by (destruct HC as [->| ->]; assumption). rewrite RC, dispatch_pollin. now left.
Qed.

(* C09_wakeup_drained over an abstract back-end *)
Lemma wakeup_drained_gen : forall st sp e choice,
  reach st sp -> loop_channels sp wc tc wfd tfd -> others_quiet sp wc tc e ->
  runs wc = true -> runs tc = true -> (forall k, h wc k = []) -> (forall k, h tc k = []) ->
  drains rd sem sz = true -> drains trd false tsz = true ->
  exists st' act e',
    loop_iter_env S step h runs eff wfd tfd st e choice = Ok (st', act, callbacks_g runs act, e') /\
    reach st' sp /\
    (forall c r, In (c, r) act <->
       (c = wc /\ (0 < k_wake e)%N /\ r = POLLIN) \/ (c = tc /\ (0 < k_texp e)%N /\ r = POLLIN)) /\
    (forall ck, In ck (callbacks_g runs act) <->
       (ck = (wc, CbRead) /\ (0 < k_wake e)%N) \/ (ck = (tc, CbRead) /\ (0 < k_texp e)%N)) /\
    k_wake e' = 0%N /\ k_texp e' = 0%N /\ k_rd e' = k_rd e /\
    (forall c r, ~ spec_reports sp (env_ready wfd tfd e') c r).
Proof.
  intros st sp e choice R LC Q RW RT HW HT DW DT.
  pose proof (reach_unique st sp R) as U.
  pose proof (reports_char sp wc tc wfd tfd e U LC Q) as CH.
  destruct (poll_complete_small st sp (env_ready wfd tfd e) choice R (small_reports sp e U LC Q)) as [st1 [act [E CMP]]].
  destruct (poll_sound st sp _ choice st1 act R E) as [R1 SND].
  assert (ACT : forall c r, In (c, r) act <->
       (c = wc /\ (0 < k_wake e)%N /\ r = POLLIN) \/ (c = tc /\ (0 < k_texp e)%N /\ r = POLLIN)).
  { intros c r. rewrite <- CH. split; [apply SND|apply CMP]. }
  assert (ACT2 : forall c r, In (c, r) act -> (c = wc \/ c = tc) /\ r = POLLIN).
  { intros c r HI. apply ACT in HI. destruct HI as [[-> [_ ->]]|[-> [_ ->]]]; auto. }
  pose proof (log_internal act RW RT ACT2) as LOG.
  assert (IO : internal_only wc tc (callbacks_g runs act)).
  { intros [c k] HI. apply LOG in HI. cbn [fst snd] in HI. destruct HI as [r [HI ->]].
    destruct (ACT2 c r HI) as [[->| ->] _]; auto. }
  (* the callbacks of the two internal channels make no Channel API call *)
  assert (BOK : forall l sp0, internal_only wc tc l -> batch_ok h (map fst act) sp0 l /\ batch_ops h l = []).
  { induction l as [|ck t IH]; intros sp0 IOl; [split; [exact Logic.I|reflexivity]|].
    assert (HE : h (fst ck) (snd ck) = []).
    { destruct (IOl ck (or_introl eq_refl)) as [->| ->]; cbn [fst snd]; auto. }
    destruct (IH sp0) as [B1 B2]; [intros x Hx; apply IOl; now right|].
    split.
    - cbn [batch_ok]. rewrite HE. split; [exact Logic.I|exact B1].
    - cbn [batch_ops flat_map]. rewrite HE. exact B2. }
  destruct (BOK _ sp IO) as [B1 B2].
  destruct (loop_iter_ok S step reach step_ok h runs st sp _ choice st1 act E R1 B1) as [st' [EI R']].
  rewrite B2 in R'. cbn [spec_run fold_left] in R'.
  set (e' := apply_effects eff (callbacks_g runs act) e).
  exists st', act, e'. split.
  { unfold loop_iter_env. rewrite EI. reflexivity. }
  split; [exact R'|]. split; [exact ACT|].
  assert (LOG2 : forall ck, In ck (callbacks_g runs act) <->
       (ck = (wc, CbRead) /\ (0 < k_wake e)%N) \/ (ck = (tc, CbRead) /\ (0 < k_texp e)%N)).
  { intros [c k]. rewrite LOG. cbn [fst snd]. split.
    - intros [r [HI ->]]. apply ACT in HI. destruct HI as [[-> [L _]]|[-> [L _]]]; auto.
    - intros [[HE L]|[HE L]]; injection HE as -> ->; exists POLLIN; (split; [apply ACT; auto|reflexivity]). }
  split; [exact LOG2|].
  destruct LC as [NE LC'].
  assert (KW : k_wake e' = 0%N).
  { destruct (N.ltb_spec 0 (k_wake e)) as [L|L].
    - apply (effects_wake_drained rd sem sz trd tsz wc tc user NE); auto. apply LOG2. auto.
    - apply (effects_wake_zero rd sem sz trd tsz wc tc user NE); auto. lia. }
  assert (KT : k_texp e' = 0%N).
  { destruct (N.ltb_spec 0 (k_texp e)) as [L|L].
    - apply (effects_texp_drained rd sem sz trd tsz wc tc user NE); auto. apply LOG2. auto.
    - apply (effects_texp_zero rd sem sz trd tsz wc tc user NE); auto. lia. }
  assert (KR : k_rd e' = k_rd e) by (apply (effects_rd rd sem sz trd tsz wc tc user NE); auto).
  split; [exact KW|]. split; [exact KT|]. split; [exact KR|].
  intros c r HR.
  assert (Q' : others_quiet sp wc tc e').
  { intros c0 s0 A B C D E0. rewrite KR. apply (Q c0 s0); assumption. }
  apply (reports_char sp wc tc wfd tfd e' U (conj NE LC') Q') in HR.
  destruct HR as [[_ [L _]]|[_ [L _]]]; lia.
Qed.

(* the contrast: a handleRead that does not read leaves the eventfd readable, and the wake-up channel
   is reportable again at once -- the loop spins *)
Lemma wakeup_undrained_gen : forall st sp e choice,
  reach st sp -> loop_channels sp wc tc wfd tfd -> others_quiet sp wc tc e ->
  runs wc = true -> runs tc = true -> (forall k, h wc k = []) -> (forall k, h tc k = []) ->
  rd = false -> (0 < k_wake e)%N ->
  exists st' act e',
    loop_iter_env S step h runs eff wfd tfd st e choice = Ok (st', act, callbacks_g runs act, e') /\
    reach st' sp /\ In (wc, POLLIN) act /\ k_wake e' = k_wake e /\
    spec_reports sp (env_ready wfd tfd e') wc POLLIN.
Proof.
  intros st sp e choice R LC Q RW RT HW HT RD L.
  pose proof (reach_unique st sp R) as U.
  pose proof (reports_char sp wc tc wfd tfd e U LC Q) as CH.
  destruct (poll_complete_small st sp (env_ready wfd tfd e) choice R (small_reports sp e U LC Q)) as [st1 [act [E CMP]]].
  destruct (poll_sound st sp _ choice st1 act R E) as [R1 SND].
  assert (ACT : forall c r, In (c, r) act <->
       (c = wc /\ (0 < k_wake e)%N /\ r = POLLIN) \/ (c = tc /\ (0 < k_texp e)%N /\ r = POLLIN)).
  { intros c r. rewrite <- CH. split; [apply SND|apply CMP]. }
  assert (ACT2 : forall c r, In (c, r) act -> (c = wc \/ c = tc) /\ r = POLLIN).
  { intros c r HI. apply ACT in HI. destruct HI as [[-> [_ ->]]|[-> [_ ->]]]; auto. }
  pose proof (log_internal act RW RT ACT2) as LOG.
  assert (IO : internal_only wc tc (callbacks_g runs act)).
  { intros [c k] HI. apply LOG in HI. cbn [fst snd] in HI. destruct HI as [r [HI ->]].
    destruct (ACT2 c r HI) as [[->| ->] _]; auto. }
  assert (BOK : forall l sp0, internal_only wc tc l -> batch_ok h (map fst act) sp0 l /\ batch_ops h l = []).
  { induction l as [|ck t IH]; intros sp0 IOl; [split; [exact Logic.I|reflexivity]|].
    assert (HE : h (fst ck) (snd ck) = []).
    { destruct (IOl ck (or_introl eq_refl)) as [->| ->]; cbn [fst snd]; auto. }
    destruct (IH sp0) as [B1 B2]; [intros x Hx; apply IOl; now right|].
    split.
    - cbn [batch_ok]. rewrite HE. split; [exact Logic.I|exact B1].
    - cbn [batch_ops flat_map]. rewrite HE. exact B2. }
  destruct (BOK _ sp IO) as [B1 B2].
  destruct (loop_iter_ok S step reach step_ok h runs st sp _ choice st1 act E R1 B1) as [st' [EI R']].
  rewrite B2 in R'. cbn [spec_run fold_left] in R'.
  set (e' := apply_effects eff (callbacks_g runs act) e).
  exists st', act, e'. split.
  { unfold loop_iter_env. rewrite EI. reflexivity. }
  split; [exact R'|]. split; [apply ACT; auto|].
  destruct LC as [NE LC'].
  assert (KW : k_wake e' = k_wake e) by (apply (effects_wake_unread rd sem sz trd tsz wc tc user NE); auto).
  assert (KR : k_rd e' = k_rd e) by (apply (effects_rd rd sem sz trd tsz wc tc user NE); auto).
  split; [exact KW|].
  assert (Q' : others_quiet sp wc tc e').
  { intros c0 s0 A B C D E0. rewrite KR. apply (Q c0 s0); assumption. }
  apply (reports_char sp wc tc wfd tfd e' U (conj NE LC') Q'). left. rewrite KW. auto.
Qed.
End Wake.

(* ---- instances ------------------------------------------------------------------------------------------ *)
Lemma reachE_unique : forall st sp, reachEC st sp -> spec_unique sp.
Proof.
  intros st sp R c1 c2 s1 s2 A B C D F. apply (reg_unique st sp c1 c2 s1 s2 (reachEC_inv _ _ R)); assumption.
Qed.
Lemma reachPC_unique : forall st sp, reachPC st sp -> spec_unique sp.
Proof.
  intros st sp R c1 c2 s1 s2 A B C D F. apply (regP_unique true st sp c1 c2 s1 s2 (reachPC_inv _ _ R)); assumption.
Qed.

Lemma two_le_init_cap : 2 <= kInitEventListSize.
Proof. vm_compute. lia. Qed.

Lemma ep_poll_complete_small : forall st sp ready choice, reachEC st sp ->
  (forall l : active, NoDup (map fst l) -> (forall c r, In (c, r) l -> spec_reports sp ready c r) -> length l <= 2) ->
  exists st' act, ep_step_current st (Poll ready choice) = Ok (st', act) /\
    forall c r, spec_reports sp ready c r -> In (c, r) act.
Proof.
  intros st sp ready choice R SM. pose proof (reachEC_inv _ _ R) as I. rewrite ep_step_current_eq.
  destruct (ep_poll_ok true st sp ready choice I) as [act [rest [E [HP HL]]]].
  assert (LF : length (ep_full st ready) <= 2).
  { apply SM; [eapply ep_full_nodup; eauto|]. intros c r HI. now apply (ep_full_in st sp ready c r I). }
  pose proof (ie_capmin _ _ I) as CM. pose proof two_le_init_cap as T.
  assert (rest = []).
  { apply Permutation_length in HP. rewrite app_length, HL in HP. destruct rest; [auto|cbn in HP; lia]. }
  subst. rewrite app_nil_r in HP.
  eexists _, act. split; [exact E|]. intros c r HR. apply (ep_full_in st sp ready c r I) in HR.
  eapply Permutation_in; eauto.
Qed.
Lemma pp_poll_complete_small : forall st sp ready choice, reachPC st sp ->
  (forall l : active, NoDup (map fst l) -> (forall c r, In (c, r) l -> spec_reports sp ready c r) -> length l <= 2) ->
  exists st' act, pp_step_current st (Poll ready choice) = Ok (st', act) /\
    forall c r, spec_reports sp ready c r -> In (c, r) act.
Proof.
  intros st sp ready choice R _. destruct (reachPC_refines st sp R (Poll ready choice)) as [A _].
  destruct (A Logic.I) as [st' [act [E [_ [_ IFF]]]]].
  exists st', act. split; [exact E|]. intros c r. apply IFF.
Qed.
Lemma pp_poll_sound' : forall st sp ready choice st' act, reachPC st sp ->
  pp_step_current st (Poll ready choice) = Ok (st', act) ->
  reachPC st' sp /\ forall c r, In (c, r) act -> spec_reports sp ready c r.
Proof.
  intros st sp ready choice st' act R E. destruct (pp_poll_sound _ _ _ _ _ _ R E) as [R' IFF].
  split; [exact R'|]. intros c r. apply IFF.
Qed.

(* what the CURRENT sources do with the two descriptors (generated facts) *)
Definition wake_rd_current : kenv -> kenv :=
  handleRead_env EventLoop_handleRead_reads_wakeupfd EventLoop_eventfd_semaphore EventLoop_handleRead_read_size.
Definition timer_rd_current : kenv -> kenv :=
  timerRead_env TimerQueue_handleRead_reads_timerfd TimerQueue_readTimerfd_read_size.
Lemma wake_drains_current :
  drains EventLoop_handleRead_reads_wakeupfd EventLoop_eventfd_semaphore EventLoop_handleRead_read_size = true.
Proof. reflexivity. Qed.
Lemma timer_drains_current :
  drains TimerQueue_handleRead_reads_timerfd false TimerQueue_readTimerfd_read_size = true.
Proof. reflexivity. Qed.
Lemma loop_snapshot_current : EventLoop_loop_dispatches_snapshot = true.
Proof. reflexivity. Qed.

Definition effects_current (wc tc : nat) (user : nat -> cb -> kenv -> kenv) :=
  loop_effects wake_rd_current timer_rd_current wc tc user.

Lemma ep_full_nil : forall st sp ready, reachEC st sp -> (forall c r, ~ spec_reports sp ready c r) -> ep_full st ready = [].
Proof.
  intros st sp ready R H. destruct (ep_full st ready) as [|[c r] t] eqn:E; [reflexivity|].
  exfalso. apply (H c r). apply (ep_full_in st sp ready c r (reachEC_inv _ _ R)). rewrite E. now left.
Qed.

Lemma wakeup_drained_E : forall h runs user wc tc wfd tfd st sp e choice,
  reachEC st sp -> loop_channels sp wc tc wfd tfd -> others_quiet sp wc tc e ->
  runs wc = true -> runs tc = true -> (forall k, h wc k = []) -> (forall k, h tc k = []) ->
  exists st' act e',
    loop_iter_env ep ep_step_current h runs (effects_current wc tc user) wfd tfd st e choice = Ok (st', act, callbacks_g runs act, e') /\
    reachEC st' sp /\
    (forall c r, In (c, r) act <->
       (c = wc /\ (0 < k_wake e)%N /\ r = POLLIN) \/ (c = tc /\ (0 < k_texp e)%N /\ r = POLLIN)) /\
    (forall ck, In ck (callbacks_g runs act) <->
       (ck = (wc, CbRead) /\ (0 < k_wake e)%N) \/ (ck = (tc, CbRead) /\ (0 < k_texp e)%N)) /\
    k_wake e' = 0%N /\ k_texp e' = 0%N /\ k_rd e' = k_rd e /\
    (* nothing for epoll_wait to return: it blocks until its time-out or a new event, in this and in
       every later state with the same interest map *)
    (forall st2, reachEC st2 sp -> ep_full st2 (env_ready wfd tfd e') = []).
Proof.
  intros h runs user wc tc wfd tfd st sp e choice R LC Q RW RT HW HT.
  destruct (wakeup_drained_gen ep ep_step_current reachEC ep_step_reach ep_poll_sound ep_poll_complete_small reachE_unique
              _ _ _ _ _ h runs user wc tc wfd tfd st sp e choice R LC Q RW RT HW HT wake_drains_current timer_drains_current)
    as [st' [act [e' [E [R' [A [L [KW [KT [KR NR]]]]]]]]]].
  exists st', act, e'. split; [exact E|]. split; [exact R'|]. split; [exact A|]. split; [exact L|].
  split; [exact KW|]. split; [exact KT|]. split; [exact KR|].
  intros st2 R2. now apply (ep_full_nil st2 sp).
Qed.

Lemma wakeup_drained_P : forall h runs user wc tc wfd tfd st sp e choice,
  reachPC st sp -> loop_channels sp wc tc wfd tfd -> others_quiet sp wc tc e ->
  runs wc = true -> runs tc = true -> (forall k, h wc k = []) -> (forall k, h tc k = []) ->
  exists st' act e',
    loop_iter_env pp pp_step_current h runs (effects_current wc tc user) wfd tfd st e choice = Ok (st', act, callbacks_g runs act, e') /\
    reachPC st' sp /\
    (forall c r, In (c, r) act <->
       (c = wc /\ (0 < k_wake e)%N /\ r = POLLIN) \/ (c = tc /\ (0 < k_texp e)%N /\ r = POLLIN)) /\
    (forall ck, In ck (callbacks_g runs act) <->
       (ck = (wc, CbRead) /\ (0 < k_wake e)%N) \/ (ck = (tc, CbRead) /\ (0 < k_texp e)%N)) /\
    k_wake e' = 0%N /\ k_texp e' = 0%N /\ k_rd e' = k_rd e /\
    (forall st2 choice2, reachPC st2 sp -> pp_step_current st2 (Poll (env_ready wfd tfd e') choice2) = Ok (st2, [])).
Proof.
  intros h runs user wc tc wfd tfd st sp e choice R LC Q RW RT HW HT.
  destruct (wakeup_drained_gen pp pp_step_current reachPC pp_step_reach pp_poll_sound' pp_poll_complete_small reachPC_unique
              _ _ _ _ _ h runs user wc tc wfd tfd st sp e choice R LC Q RW RT HW HT wake_drains_current timer_drains_current)
    as [st' [act [e' [E [R' [A [L [KW [KT [KR NR]]]]]]]]]].
  exists st', act, e'. split; [exact E|]. split; [exact R'|]. split; [exact A|]. split; [exact L|].
  split; [exact KW|]. split; [exact KT|]. split; [exact KR|].
  intros st2 choice2 R2. destruct (reachPC_refines st2 sp R2 (Poll (env_ready wfd tfd e') choice2)) as [B _].
  destruct (B Logic.I) as [st3 [act3 [E3 [_ [-> IFF]]]]]. rewrite E3. f_equal. f_equal.
  destruct act3 as [|[c r] t]; [reflexivity|]. exfalso. apply (NR c r). apply IFF. now left.
Qed.

(* without the read in EventLoop::handleRead the wake-up channel stays reportable: the loop spins *)
Lemma wakeup_undrained_spins_E : forall h runs user sem sz wc tc wfd tfd st sp e choice,
  reachEC st sp -> loop_channels sp wc tc wfd tfd -> others_quiet sp wc tc e ->
  runs wc = true -> runs tc = true -> (forall k, h wc k = []) -> (forall k, h tc k = []) ->
  (0 < k_wake e)%N ->
  exists st' act e',
    loop_iter_env ep ep_step_current h runs (loop_effects (handleRead_env false sem sz) timer_rd_current wc tc user)
      wfd tfd st e choice = Ok (st', act, callbacks_g runs act, e') /\
    reachEC st' sp /\ In (wc, POLLIN) act /\ k_wake e' = k_wake e /\
    In (wc, POLLIN) (ep_full st' (env_ready wfd tfd e')).
Proof.
  intros h runs user sem sz wc tc wfd tfd st sp e choice R LC Q RW RT HW HT L.
  destruct (wakeup_undrained_gen ep ep_step_current reachEC ep_step_reach ep_poll_sound ep_poll_complete_small reachE_unique
              false sem sz TimerQueue_handleRead_reads_timerfd TimerQueue_readTimerfd_read_size h runs user wc tc wfd tfd st sp e choice R LC Q RW RT HW HT eq_refl L)
    as [st' [act [e' [E [R' [A [KW SR]]]]]]].
  exists st', act, e'. split; [exact E|]. split; [exact R'|]. split; [exact A|]. split; [exact KW|].
  now apply (ep_full_in st' sp _ wc POLLIN (reachEC_inv _ _ R')).
Qed.

(* ==== 3. the whole iteration (doPendingFunctors), several iterations, "blocks iff" ======================= *)
Lemma queue_wake_link : forall a b c, EventLoop_queueInLoop_wake_guard a b c = queue_wakes a b c.
Proof. intros [|] [|] [|]; reflexivity. Qed.
Lemma pending_after_dispatch_current : EventLoop_loop_pending_after_dispatch = true.
Proof. reflexivity. Qed.
Lemma doPending_swaps_current : EventLoop_doPendingFunctors_swaps = true.
Proof. reflexivity. Qed.

Lemma functors_ops_app : forall fb a b, functors_ops fb (a ++ b) = functors_ops fb a ++ functors_ops fb b.
Proof. intros. unfold functors_ops. apply flat_map_app. Qed.

Section Full.
Variable S : Type.
Variable step : S -> op -> res (S * active).
Variable reach : S -> spec -> Prop.
Hypothesis step_ok : forall st sp o, reach st sp -> sguard sp o ->
  exists st' act, step st o = Ok (st', act) /\ reach st' (spec_step sp o).

Lemma run_ops_ok : forall ops st sp, reach st sp -> ops_ok sp ops ->
  exists st', run_ops S step st ops = Ok st' /\ reach st' (spec_run sp ops).
Proof.
  induction ops as [|o t IH]; intros st sp R H.
  - exists st. split; [reflexivity|exact R].
  - destruct H as [NP [G H]].
    destruct (step_ok st sp o R G) as [st1 [act [E R1]]].
    destruct (IH st1 (spec_step sp o) R1 H) as [st' [E' R']].
    exists st'. split; [|exact R'].
    destruct o; try contradiction; cbn [run_ops]; rewrite E; cbn [bind fst]; exact E'.
Qed.

Lemma run_functors_ok : forall fb ids st sp, reach st sp -> functors_ok fb sp ids ->
  exists st', run_functors S step fb st ids = Ok (st', functors_queued fb ids) /\
              reach st' (spec_run sp (functors_ops fb ids)).
Proof.
  intros fb. induction ids as [|i t IH]; intros st sp R H.
  - exists st. split; [reflexivity|exact R].
  - destruct H as [H1 H2].
    destruct (run_ops_ok (fst (fb i)) st sp R H1) as [st1 [E1 R1]].
    destruct (IH st1 _ R1 H2) as [st' [E' R']].
    exists st'. cbn [run_functors]. rewrite E1. cbn [bind]. rewrite E'. cbn [bind fst snd].
    split; [reflexivity|].
    unfold functors_ops. cbn [flat_map]. fold (functors_ops fb t). rewrite spec_run_app. exact R'.
Qed.

(* everything that is pending when doPendingFunctors starts -- queued before the poll or by a callback of
   this batch -- runs in this iteration, once, in order; what the functors queue stays for the next one *)
Lemma loop_iter_full_ok : forall h hq fb runs st sp ready choice pending st1 act,
  step st (Poll ready choice) = Ok (st1, act) -> reach st1 sp ->
  batch_ok h (map fst act) sp (callbacks_g runs act) ->
  let log := callbacks_g runs act in
  let ran := pending ++ flat_map (fun ck => hq (fst ck) (snd ck)) log in
  functors_ok fb (spec_run sp (batch_ops h log)) ran ->
  exists st', loop_iter_full S step h hq fb runs st ready choice pending =
                Ok (st', act, log, ran, functors_queued fb ran) /\
              reach st' (spec_run (spec_run sp (batch_ops h log)) (functors_ops fb ran)).
Proof.
  intros h hq fb runs st sp ready choice pending st1 act E R1 B log ran F.
  destruct (loop_iter_ok S step reach step_ok h runs st sp ready choice st1 act E R1 B) as [st2 [E2 R2]].
  destruct (run_functors_ok fb ran st2 _ R2 F) as [st' [E3 R3]].
  exists st'. unfold loop_iter_full. rewrite E2. cbn [bind fst snd]. fold log. fold ran.
  rewrite E3. cbn [bind fst snd]. split; [reflexivity|exact R3].
Qed.
End Full.

(* ---- "blocks iff": nothing reportable <-> wake-up counter 0, timerfd not due, no other channel ready --- *)
Lemma reports_internal : forall sp wc tc wfd tfd e, spec_unique sp -> loop_channels sp wc tc wfd tfd ->
  ((0 < k_wake e)%N -> spec_reports sp (env_ready wfd tfd e) wc POLLIN) /\
  ((0 < k_texp e)%N -> spec_reports sp (env_ready wfd tfd e) tc POLLIN).
Proof.
  intros sp wc tc wfd tfd e U [NE [[rmw Hw] [rmt Ht]]].
  assert (FD : wfd <> tfd). { intros E. apply NE. eapply (U wc tc); eauto. }
  split; intros L.
  - eexists. split; [exact Hw|]. cbn [s_reg s_ev s_fd]. split; [reflexivity|]. split; [apply kRead_nonzero|].
    split; [|apply pollin_nonzero]. unfold env_ready. rewrite Nat.eqb_refl. unfold eventfd_ready.
    destruct (N.ltb_spec 0 (k_wake e)); [|lia]. now rewrite wake_rev_pos.
  - eexists. split; [exact Ht|]. cbn [s_reg s_ev s_fd]. split; [reflexivity|]. split; [apply kRead_nonzero|].
    split; [|apply pollin_nonzero]. unfold env_ready.
    destruct (Nat.eqb_spec tfd wfd) as [X|_]; [congruence|]. rewrite Nat.eqb_refl. unfold timerfd_ready.
    destruct (N.ltb_spec 0 (k_texp e)); [|lia]. now rewrite timer_rev_pos.
Qed.

Lemma blocks_iff : forall sp wc tc wfd tfd e, spec_unique sp -> loop_channels sp wc tc wfd tfd ->
  ((forall c r, ~ spec_reports sp (env_ready wfd tfd e) c r) <->
   (k_wake e = 0%N /\ k_texp e = 0%N /\ others_quiet sp wc tc e)).
Proof.
  intros sp wc tc wfd tfd e U LC. destruct (reports_internal sp wc tc wfd tfd e U LC) as [RW RT]. split.
  - intros NR. split; [|split].
    + destruct (N.eq_dec (k_wake e) 0) as [Z|NZ]; [exact Z|]. exfalso. apply (NR wc POLLIN), RW. lia.
    + destruct (N.eq_dec (k_texp e) 0) as [Z|NZ]; [exact Z|]. exfalso. apply (NR tc POLLIN), RT. lia.
    + intros c s A B C N1 N2.
      destruct (N.eq_dec (N.land (k_rd e (s_fd s)) (N.lor (s_ev s) EHN)) 0) as [Z|NZ]; [exact Z|].
      exfalso. apply (NR c (N.land (k_rd e (s_fd s)) (N.lor (s_ev s) EHN))).
      destruct LC as [NE [[rmw Hw] [rmt Ht]]].
      exists s. split; [exact A|]. split; [exact B|]. split; [exact C|]. split; [|exact NZ].
      unfold env_ready.
      destruct (Nat.eqb_spec (s_fd s) wfd) as [X|_].
      { exfalso. apply N1. eapply (U c wc); eauto. }
      destruct (Nat.eqb_spec (s_fd s) tfd) as [X|_].
      { exfalso. apply N2. eapply (U c tc); eauto. }
      reflexivity.
  - intros [KW [KT Q]] c r HR. apply (reports_char sp wc tc wfd tfd e U LC Q) in HR.
    destruct HR as [[_ [L _]]|[_ [L _]]]; lia.
Qed.

(* ---- queued tasks: a non-empty queue at poll time always comes with a pending wake-up ------------------- *)
Definition pend_inv (e : kenv) (p : list nat) : Prop := p <> [] -> (0 < k_wake e)%N.

Lemma pend_inv_blocked_empty : forall e p, pend_inv e p -> k_wake e = 0%N -> p = [].
Proof. intros e [|i t] H Z; [reflexivity|]. exfalso. assert (0 < k_wake e)%N by (apply H; discriminate). lia. Qed.

Lemma wake_add_wake : forall n e, k_wake (wake_add n e) = (k_wake e + N.of_nat n)%N.
Proof. reflexivity. Qed.

Section Run.
Variable qw : bool -> bool -> bool -> bool.
Hypothesis qw_foreign : qw false false true = true.      (* queueInLoop from another thread wakes *)
Hypothesis qw_calling : qw true true true = true.        (* queueInLoop from a running functor wakes *)

Lemma apply_ext_inv : forall e p x, pend_inv e p ->
  pend_inv (fst (apply_ext qw (e, p) x)) (snd (apply_ext qw (e, p) x)).
Proof.
  intros e p x H. destruct x; cbn [apply_ext fst snd].
  - intros _. rewrite wake_add_wake. lia.
  - exact H.
  - exact H.
  - rewrite qw_foreign. intros _. rewrite wake_add_wake. lia.
Qed.

Lemma fold_ext_inv : forall xs e p, pend_inv e p ->
  pend_inv (fst (fold_left (apply_ext qw) xs (e, p))) (snd (fold_left (apply_ext qw) xs (e, p))).
Proof.
  induction xs as [|x t IH]; intros e p H; [exact H|].
  cbn [fold_left]. destruct (apply_ext qw (e, p) x) as [e1 p1] eqn:E.
  apply IH. pose proof (apply_ext_inv e p x H) as H1. rewrite E in H1. exact H1.
Qed.

Section RunS.
Variable S : Type.
Variable step : S -> op -> res (S * active).
Variables (h : handlers) (hq : nat -> cb -> list nat) (fb : fnbody) (runs : nat -> bool).
Variable eff : nat -> cb -> kenv -> kenv.
Variables (wfd tfd : nat).

(* whatever the iteration did: what it leaves in the queue was queued by running functors, each of which
   called wakeup() AFTER the wake-up channel's read callback of this batch had run *)
Lemma iter_env_inv : forall st e p choice st' e' p' out,
  loop_iter_full_env S step h hq fb runs eff qw wfd tfd st e p choice = Ok (st', e', p', out) ->
  pend_inv e' p'.
Proof.
  intros st e p choice st' e' p' out E. unfold loop_iter_full_env in E.
  destruct (loop_iter_full S step h hq fb runs st (env_ready wfd tfd e) choice p) as [[[[[a b] c] d] q]| |];
    cbn [bind] in E; try discriminate.
  rewrite qw_calling in E. injection E as <- <- <- <-.
  intros NE. rewrite wake_add_wake. destruct q as [|i t]; [contradiction|]. cbn [length]. lia.
Qed.

Lemma loop_run_inv : forall ins st e p st' e' p' outs,
  pend_inv e p ->
  loop_run S step h hq fb runs eff qw wfd tfd st e p ins = Ok (st', e', p', outs) ->
  pend_inv e' p' /\ Forall (fun o => pend_inv (fst (fst o)) (snd (fst o))) outs.
Proof.
  induction ins as [|[xs choice] t IH]; intros st e p st' e' p' outs H E.
  - cbn [loop_run] in E. injection E as <- <- <- <-. split; [exact H|constructor].
  - cbn [loop_run] in E.
    pose proof (fold_ext_inv xs e p H) as H1.
    destruct (fold_left (apply_ext qw) xs (e, p)) as [e1 p1]. cbn [fst snd] in *.
    destruct (loop_iter_full_env S step h hq fb runs eff qw wfd tfd st e1 p1 choice) as [[[[st2 e2] p2] out]| |] eqn:E1;
      cbn [bind] in E; try discriminate.
    pose proof (iter_env_inv _ _ _ _ _ _ _ _ E1) as H2.
    destruct (loop_run S step h hq fb runs eff qw wfd tfd st2 e2 p2 t) as [[[[st3 e3] p3] outs3]| |] eqn:E2;
      cbn [bind] in E; try discriminate.
    injection E as <- <- <- <-.
    destruct (IH _ _ _ _ _ _ _ H2 E2) as [A B]. split; [exact A|]. constructor; [exact H1|exact B].
Qed.
End RunS.
End Run.

(* the guard generated from EventLoop::queueInLoop satisfies both hypotheses *)
Lemma qw_current_foreign : EventLoop_queueInLoop_wake_guard false false true = true.
Proof. reflexivity. Qed.
Lemma qw_current_calling : EventLoop_queueInLoop_wake_guard true true true = true.
Proof. reflexivity. Qed.

(* ---- instances -------------------------------------------------------------------------------------------- *)
Lemma iteration_full_E : forall h hq fb runs st sp ready choice pending st1 act,
  reachEC st sp -> ep_step_current st (Poll ready choice) = Ok (st1, act) ->
  batch_ok h (map fst act) sp (callbacks_g runs act) ->
  functors_ok fb (spec_run sp (batch_ops h (callbacks_g runs act)))
    (pending ++ flat_map (fun ck => hq (fst ck) (snd ck)) (callbacks_g runs act)) ->
  exists st', ep_loop_iter_full h hq fb runs st ready choice pending =
      Ok (st', act, callbacks_g runs act,
          pending ++ flat_map (fun ck => hq (fst ck) (snd ck)) (callbacks_g runs act),
          functors_queued fb (pending ++ flat_map (fun ck => hq (fst ck) (snd ck)) (callbacks_g runs act))) /\
    reachEC st' (spec_run (spec_run sp (batch_ops h (callbacks_g runs act)))
                   (functors_ops fb (pending ++ flat_map (fun ck => hq (fst ck) (snd ck)) (callbacks_g runs act)))).
Proof.
  intros h hq fb runs st sp ready choice pending st1 act R E B F.
  destruct (ep_poll_sound _ _ _ _ _ _ R E) as [R1 _].
  exact (loop_iter_full_ok ep ep_step_current reachEC ep_step_reach h hq fb runs st sp ready choice pending st1 act E R1 B F).
Qed.
Lemma iteration_full_P : forall h hq fb runs st sp ready choice pending st1 act,
  reachPC st sp -> pp_step_current st (Poll ready choice) = Ok (st1, act) ->
  batch_ok h (map fst act) sp (callbacks_g runs act) ->
  functors_ok fb (spec_run sp (batch_ops h (callbacks_g runs act)))
    (pending ++ flat_map (fun ck => hq (fst ck) (snd ck)) (callbacks_g runs act)) ->
  exists st', pp_loop_iter_full_current h hq fb runs st ready choice pending =
      Ok (st', act, callbacks_g runs act,
          pending ++ flat_map (fun ck => hq (fst ck) (snd ck)) (callbacks_g runs act),
          functors_queued fb (pending ++ flat_map (fun ck => hq (fst ck) (snd ck)) (callbacks_g runs act))) /\
    reachPC st' (spec_run (spec_run sp (batch_ops h (callbacks_g runs act)))
                   (functors_ops fb (pending ++ flat_map (fun ck => hq (fst ck) (snd ck)) (callbacks_g runs act)))).
Proof.
  intros h hq fb runs st sp ready choice pending st1 act R E B F.
  destruct (pp_poll_sound _ _ _ _ _ _ R E) as [R1 _].
  exact (loop_iter_full_ok pp pp_step_current reachPC pp_step_reach h hq fb runs st sp ready choice pending st1 act E R1 B F).
Qed.

(* the last sentence of the property, epoll: in a reachable state with the loop's two channels registered,
   the kernel has nothing to return (epoll_wait blocks) iff the wake-up counter is zero, the timerfd is not
   due and no other registered channel is ready -- and then no task is queued *)
Lemma idle_blocks_iff_E : forall st sp wc tc wfd tfd e p,
  reachEC st sp -> loop_channels sp wc tc wfd tfd -> pend_inv e p ->
  (ep_full st (env_ready wfd tfd e) = [] <->
     (k_wake e = 0%N /\ k_texp e = 0%N /\ others_quiet sp wc tc e)) /\
  (ep_full st (env_ready wfd tfd e) = [] -> p = []).
Proof.
  intros st sp wc tc wfd tfd e p R LC PI.
  pose proof (blocks_iff sp wc tc wfd tfd e (reachE_unique _ _ R) LC) as BI.
  assert (EQ : ep_full st (env_ready wfd tfd e) = [] <-> (forall c r, ~ spec_reports sp (env_ready wfd tfd e) c r)).
  { split.
    - intros Z c r HR. apply (ep_full_in st sp _ c r (reachEC_inv _ _ R)) in HR. rewrite Z in HR. exact HR.
    - intros NR. now apply (ep_full_nil st sp). }
  split.
  - rewrite EQ. exact BI.
  - intros Z. destruct (proj1 BI (proj1 EQ Z)) as [KW _]. now apply (pend_inv_blocked_empty e p).
Qed.

Lemma idle_blocks_iff_P : forall st sp wc tc wfd tfd e p choice,
  reachPC st sp -> loop_channels sp wc tc wfd tfd -> pend_inv e p ->
  (pp_step_current st (Poll (env_ready wfd tfd e) choice) = Ok (st, []) <->
     (k_wake e = 0%N /\ k_texp e = 0%N /\ others_quiet sp wc tc e)) /\
  (pp_step_current st (Poll (env_ready wfd tfd e) choice) = Ok (st, []) -> p = []).
Proof.
  intros st sp wc tc wfd tfd e p choice R LC PI.
  pose proof (blocks_iff sp wc tc wfd tfd e (reachPC_unique _ _ R) LC) as BI.
  destruct (reachPC_refines st sp R (Poll (env_ready wfd tfd e) choice)) as [A _].
  destruct (A Logic.I) as [st' [act [E [_ [-> IFF]]]]].
  assert (EQ : pp_step_current st (Poll (env_ready wfd tfd e) choice) = Ok (st, []) <->
               (forall c r, ~ spec_reports sp (env_ready wfd tfd e) c r)).
  { rewrite E. split.
    - intros Z c r HR. injection Z as Z. apply IFF in HR. rewrite Z in HR. exact HR.
    - intros NR. f_equal. f_equal. destruct act as [|[c r] t]; [reflexivity|]. exfalso. apply (NR c r), IFF. now left. }
  split.
  - rewrite EQ. exact BI.
  - intros Z. destruct (proj1 BI (proj1 EQ Z)) as [KW _]. now apply (pend_inv_blocked_empty e p).
Qed.

(* any run of the loop (any back-end, any callbacks / functors / external events) with the wake-up guard
   generated from EventLoop::queueInLoop: at every poll, a non-empty queue comes with a pending wake-up *)
Lemma queued_task_wakes_current : forall S step h hq fb runs eff wfd tfd ins st e p st' e' p' outs,
  pend_inv e p ->
  loop_run S step h hq fb runs eff EventLoop_queueInLoop_wake_guard wfd tfd st e p ins = Ok (st', e', p', outs) ->
  pend_inv e' p' /\ Forall (fun o => pend_inv (fst (fst o)) (snd (fst o))) outs.
Proof.
  intros S step h hq fb runs eff wfd tfd ins st e p st' e' p' outs H E.
  exact (loop_run_inv EventLoop_queueInLoop_wake_guard qw_current_foreign qw_current_calling
           S step h hq fb runs eff wfd tfd ins st e p st' e' p' outs H E).
Qed.

(* a queued task keeps the loop from blocking (epoll): the wake-up channel is in the kernel's ready set *)
Lemma queued_task_not_blocked_E : forall st sp wc tc wfd tfd e p,
  reachEC st sp -> loop_channels sp wc tc wfd tfd -> pend_inv e p -> p <> [] ->
  In (wc, POLLIN) (ep_full st (env_ready wfd tfd e)).
Proof.
  intros st sp wc tc wfd tfd e p R LC PI NE.
  apply (ep_full_in st sp _ wc POLLIN (reachEC_inv _ _ R)).
  apply (reports_internal sp wc tc wfd tfd e (reachE_unique _ _ R) LC). now apply PI.
Qed.

(* ==== 4. back-end selection, hasChannel, the in-loop-thread assert ========================================= *)
Lemma default_backend_link : forall b,
  default_backend b = if Poller_newDefaultPoller_uses_poll b then BPoll else BEpoll.
Proof. intros [|]; reflexivity. Qed.
Lemma hasChannel_lookup_current : Poller_hasChannel_is_map_lookup = true.
Proof. reflexivity. Qed.
Lemma entry_points_assert_thread_current : Poller_entry_points_assert_thread = true.
Proof. reflexivity. Qed.

(* Poller::hasChannel is true exactly of the registered channels *)
Lemma ep_hasChannel_iff : forall st sp c, reachEC st sp ->
  (ep_hasChannel st c = true <-> exists s, sp c = Some s /\ s_reg s = true).
Proof.
  intros st sp c R. pose proof (reachEC_inv _ _ R) as I. unfold ep_hasChannel.
  pose proof (ie_obj _ _ I c) as RO. split.
  - intros H. destruct (e_objs st c) as [ch|] eqn:Ho; [|discriminate].
    apply rel_obj_some_l in RO. destruct RO as [s [Hs [Efd _]]].
    destruct (e_map st (fd ch)) as [c'|] eqn:Hm; [|discriminate].
    apply Nat.eqb_eq in H. subst c'. apply (ie_map _ _ I) in Hm. destruct Hm as [s0 [A [B _]]].
    exists s0. auto.
  - intros [s [Hs Rg]]. rewrite Hs in RO. apply rel_obj_some in RO. destruct RO as [ch [Ho [Efd _]]]. rewrite Ho.
    assert (Hm : e_map st (fd ch) = Some c). { apply (ie_map _ _ I). exists s. auto. }
    rewrite Hm. apply Nat.eqb_refl.
Qed.
Lemma pp_hasChannel_iff : forall st sp c, reachPC st sp ->
  (pp_hasChannel st c = true <-> exists s, sp c = Some s /\ s_reg s = true).
Proof.
  intros st sp c R. pose proof (reachPC_inv _ _ R) as I. unfold pp_hasChannel.
  pose proof (ip_obj _ _ _ I c) as RO. split.
  - intros H. destruct (p_objs st c) as [ch|] eqn:Ho; [|discriminate].
    apply rel_obj_some_l in RO. destruct RO as [s [Hs [Efd _]]].
    destruct (p_map st (fd ch)) as [c'|] eqn:Hm; [|discriminate].
    apply Nat.eqb_eq in H. subst c'. apply (ip_map _ _ _ I) in Hm. destruct Hm as [s0 [A [B _]]].
    exists s0. auto.
  - intros [s [Hs Rg]]. rewrite Hs in RO. apply rel_obj_some in RO. destruct RO as [ch [Ho [Efd _]]]. rewrite Ho.
    assert (Hm : p_map st (fd ch) = Some c). { apply (ip_map _ _ _ I). exists s. auto. }
    rewrite Hm. apply Nat.eqb_refl.
Qed.
