(* C18_RpcInstance: the framing codec instantiated with the RpcMessage payload format
   (muduo/net/protorpc/rpc.proto) as modelled by the C19 owner in C19_Wire.v (wire_parse /
   wire_ser; imported read-only) and the tag of RpcCodec.cc, "RPC0".  The generic theorems of
   Properties_C18 hold for every parser, hence for wire_parse; what needs the concrete format is
   the round trip, whose hypothesis parse (ser m) = Some m is C19's wire_roundtrip. *)
From Coq Require Import List ZArith Lia Bool Arith NArith.
From Coq.Strings Require Import Byte.
From Muduo Require Import Base_Bytes Gen_Consts Gen_C18 C10_Model C18_Model C18_CodecProofs C18_Proofs
  C18_EncModel C18_EncProofs C19_Model C19_Wire C19_WireProofs.
Import ListNotations.

Definition rpctag : list byte := [x52; x50; x43; x30].   (* "RPC0" *)

(* the tag as read from RpcCodec.cc by lib/gen_C18.py *)
Lemma rpctag_generated : map Z_of_byte rpctag = Gen_C18.RpcCodec_rpctag.
Proof. reflexivity. Qed.

Notation rpc_feed_all := (codec_feed_all rpcmsg wire_parse rpctag).

Definition rpc_sendable (m : rpcmsg) : Prop := wf_msg m /\ fits rpctag (wire_ser m).

Lemma rpc_good ms : Forall rpc_sendable ms ->
  Forall (fun m => wire_parse (wire_ser m) = Some m /\ fits rpctag (wire_ser m)) ms.
Proof.
  intros H. induction H as [|m ms [Hw Hf] _ IH]; constructor; [|exact IH].
  split; [apply wire_roundtrip; exact Hw|exact Hf].
Qed.

(* every well-formed RpcMessage that RpcCodec encodes -- through the Buffer model: fillEmptyBuffer
   into a fresh Buffer each -- decodes to an equal RpcMessage, in any segmentation, over the list
   decoder and over the connection's input Buffer *)
Theorem rpc_codec_instance :
  forall (ms : list rpcmsg) (bufs : list buf) (chunks : list (list byte)) (n0 : nat),
    Forall rpc_sendable ms ->
    Forall2 (fun m b => exists n, fillEmptyBuffer rpcmsg wire_ser rpctag m (new_buf n) = Ok b) ms bufs ->
    concat chunks = flat_map readable bufs ->
    flat_map readable bufs = flat_map (encode_msg rpcmsg wire_ser rpctag) ms /\
    rpc_feed_all codec_init chunks = (map CMsg ms, mkD tt [] false false) /\
    exists evss c', deliver_all rpcmsg wire_parse rpctag (conn0 n0) chunks = Ok (evss, c') /\
      concat evss = map CMsg ms /\ readable (c_in c') = [] /\
      c_connected c' = true /\ c_shutdowns c' = 0.
Proof.
  intros ms bufs chunks n0 Hs HF Hc. pose proof (rpc_good ms Hs) as HG.
  assert (Henc : flat_map readable bufs = flat_map (encode_msg rpcmsg wire_ser rpctag) ms).
  { clear Hc Hs HG. induction HF as [|m b ms' bufs' (n & E) _ IH]; [reflexivity|].
    cbn [flat_map]. rewrite IH. f_equal.
    destruct (fillEmptyBuffer_fresh rpcmsg wire_ser rpctag n m) as (b' & E' & R & _).
    rewrite E in E'. injection E' as <-. exact R. }
  split; [exact Henc|]. split.
  - apply (roundtrip_on rpcmsg wire_parse wire_ser rpctag ms chunks HG). rewrite Hc. exact Henc.
  - exact (roundtrip_through_buffers rpcmsg wire_parse wire_ser rpctag ms bufs chunks n0 HG HF Hc).
Qed.

(* a frame whose payload is not an RpcMessage (here: the required id is missing) is a ParseError *)
Theorem rpc_rejects_unparsable :
  forall ps ms p rest chunks,
    valid_frames rpcmsg wire_parse rpctag ps ms ->
    concat chunks = flat_map (encode rpctag) ps ++ (encode rpctag p ++ rest) ->
    fits rpctag p -> wire_parse p = None ->
    rpc_feed_all codec_init chunks =
      (map CMsg ms ++ [CErr kParseError], mkD tt (encode rpctag p ++ rest) true false).
Proof. exact (reject_payload rpcmsg wire_parse rpctag). Qed.

(* non-vacuity *)
Definition ex_rpc : rpcmsg :=
  mkMsg MT_REQUEST 7 (Some [x53]) (Some [x6d]) (Some [x01; x02]) None None.

Example ex_rpc_sendable : rpc_sendable ex_rpc.
Proof. split; [repeat split; cbn; lia|unfold fits; vm_compute; discriminate]. Qed.

Example ex_rpc_missing_id : wire_parse [x08; x01] = None.
Proof. vm_compute. reflexivity. Qed.
