(* C06_Hist: invariants of the TimerModel over the monotone history (the log of events emitted so
   far): every run belongs to an added timer, a one-shot runs at most once and under its own
   deadline, the k-th run of a repeater is filed under a deadline >= first deadline + (k-1) intervals,
   an expiry runs exactly the registered timers that are due, in (deadline, address) order, and
   ends re-armed for exactly max(earliest, now + floor). *)
From Coq Require Import List ZArith Bool Lia Sorted Arith Permutation.
From Muduo Require Import Gen_Consts Gen_C06 C06_Model C06_Proofs.
Import ListNotations.
Local Open Scope Z_scope.

(* ------------------------------------------------------------------ the log *)
Definition is_run (s : Z) (e : event) : bool := match e with ERun s' _ _ _ => s' =? s | _ => false end.
Fixpoint nruns (s : Z) (ev : list event) : Z :=
  match ev with [] => 0 | e :: r => (if is_run s e then 1 else 0) + nruns s r end.
Definition isrun (e : event) : bool := match e with ERun _ _ _ _ => true | _ => false end.
(* the runs of a log, in order: (sequence, deadline filed under, instant sampled by the batch) *)
Fixpoint rlog (ev : list event) : list (Z * Z * Z) :=
  match ev with
  | [] => []
  | ERun s dl now _ :: r => (s, dl, now) :: rlog r
  | _ :: r => rlog r
  end.

Lemma nruns_app : forall s a b, nruns s (a ++ b) = nruns s a + nruns s b.
Proof. intros s a b. induction a as [|e a IH]; cbn [app nruns]; lia. Qed.
Lemma nruns_nonneg : forall s a, 0 <= nruns s a.
Proof. intros s a. induction a as [|e a IH]; cbn [nruns]; [lia|]. destruct (is_run s e); lia. Qed.
Lemma rlog_app : forall a b, rlog (a ++ b) = rlog a ++ rlog b.
Proof.
  intros a b. induction a as [|e a IH]; cbn [app rlog]; auto. destruct e; auto. cbn [app]. f_equal; auto.
Qed.
Lemma rlog_in : forall ev s dl now, In (s, dl, now) (rlog ev) <-> exists t, In (ERun s dl now t) ev.
Proof.
  intros ev s dl now. induction ev as [|e ev IH]; cbn [rlog].
  - split; [intros [] | intros [t []]].
  - destruct e as [s' dl' now' t'| | |]; cbn [In]; rewrite ?IH.
    + split.
      * intros [E|[t H]]; [inversion E; subst; eauto | eauto].
      * intros [t [E|H]]; [inversion E; subst; auto | eauto].
    + split; [intros [t H]; eauto | intros [t [E|H]]; [discriminate|eauto]].
    + split; [intros [t H]; eauto | intros [t [E|H]]; [discriminate|eauto]].
    + split; [intros [t H]; eauto | intros [t [E|H]]; [discriminate|eauto]].
Qed.
Lemma rlog_nil_nruns : forall ev, rlog ev = [] -> forall s, nruns s ev = 0.
Proof.
  intros ev H s. induction ev as [|e ev IH]; cbn [nruns]; auto.
  destruct e; cbn [rlog is_run] in *; try discriminate; rewrite IH; auto.
Qed.
Lemma rlog_nil_norun : forall ev, rlog ev = [] -> forall s dl now t, ~ In (ERun s dl now t) ev.
Proof.
  intros ev H s dl now t HI. assert (In (s, dl, now) (rlog ev)) by (apply rlog_in; eauto). rewrite H in H0. contradiction.
Qed.
Lemma nruns_in : forall s ev dl now t, In (ERun s dl now t) ev -> 1 <= nruns s ev.
Proof.
  intros s ev dl now t. induction ev as [|e ev IH]; cbn [In nruns]; [tauto|].
  pose proof (nruns_nonneg s ev). intros [->|H1].
  - cbn [is_run]. rewrite Z.eqb_refl. lia.
  - specialize (IH H1). destruct (is_run s e); lia.
Qed.
Lemma nruns_rlog : forall s ev, nruns s ev = Z.of_nat (length (filter (fun r => fst (fst r) =? s) (rlog ev))).
Proof.
  intros s ev. induction ev as [|e ev IH]; cbn [nruns rlog]; auto.
  destruct e as [s' dl' now' t'| | |]; cbn [is_run]; try (rewrite IH; lia).
  cbn [filter fst]. destruct (s' =? s); cbn [length]; rewrite IH; lia.
Qed.

(* the add events carry the sequence numbers n+1, n+2, ... in order *)
Fixpoint adds_from (n : Z) (ev : list event) (n' : Z) : Prop :=
  match ev with
  | [] => n' = n
  | EAdd s _ _ _ :: r => s = n + 1 /\ adds_from s r n'
  | _ :: r => adds_from n r n'
  end.
Lemma adds_from_app : forall l1 l2 n m k, adds_from n l1 m -> adds_from m l2 k -> adds_from n (l1 ++ l2) k.
Proof.
  induction l1 as [|e l1 IH]; intros l2 n m k H1 H2; cbn [app adds_from] in *.
  - subst; auto.
  - destruct e; eauto. destruct H1 as [-> H1]. split; eauto.
Qed.
Lemma adds_from_le : forall l n m, adds_from n l m -> n <= m.
Proof.
  induction l as [|e l IH]; intros n m H; cbn [adds_from] in H; [lia|].
  destruct e; eauto. destruct H as [-> H]. apply IH in H. lia.
Qed.
Lemma adds_from_in : forall l n m s a w iv, adds_from n l m -> In (EAdd s a w iv) l -> n < s <= m.
Proof.
  induction l as [|e l IH]; intros n m s a w iv H HI; [contradiction|]. cbn [adds_from] in H.
  destruct HI as [->|HI].
  - destruct H as [-> H]. apply adds_from_le in H. lia.
  - destruct e; eauto. destruct H as [-> H]. specialize (IH _ _ _ _ _ _ H HI). lia.
Qed.
Lemma adds_from_uniq : forall l n m s a w iv a' w' iv', adds_from n l m ->
  In (EAdd s a w iv) l -> In (EAdd s a' w' iv') l -> a = a' /\ w = w' /\ iv = iv'.
Proof.
  induction l as [|e l IH]; intros n m s a w iv a' w' iv' H H1 H2; [contradiction|]. cbn [adds_from] in H.
  destruct H1 as [->|H1]; destruct H2 as [E|H2].
  - inversion E; auto.
  - destruct H as [-> H]. pose proof (adds_from_in _ _ _ _ _ _ _ H H2). lia.
  - subst e. destruct H as [-> H]. pose proof (adds_from_in _ _ _ _ _ _ _ H H1). lia.
  - destruct e; eauto. destruct H as [-> H]. eauto.
Qed.
Lemma adds_from_noadd : forall l n, (forall s a w iv, ~ In (EAdd s a w iv) l) -> adds_from n l n.
Proof.
  induction l as [|e l IH]; intros n H; cbn [adds_from]; auto.
  destruct e; try (apply IH; intros s a w iv HI; eapply H; right; eauto).
  exfalso. eapply H. left; eauto.
Qed.

(* spacing of the runs of sequence s: the (k+1)-th, (k+2)-th ... runs are filed under deadlines
   >= w + k*iv, w + (k+1)*iv, ... *)
Fixpoint spaced (s w iv k : Z) (ev : list event) : Prop :=
  match ev with
  | [] => True
  | e :: r => if is_run s e
              then (match e with ERun _ dl _ _ => w + k * iv <= dl | _ => True end) /\ spaced s w iv (k + 1) r
              else spaced s w iv k r
  end.
Lemma spaced_app : forall s w iv l1 l2 k,
  spaced s w iv k (l1 ++ l2) <-> spaced s w iv k l1 /\ spaced s w iv (k + nruns s l1) l2.
Proof.
  intros s w iv l1 l2. induction l1 as [|e l1 IH]; intros k; cbn [app spaced nruns].
  - rewrite Z.add_0_r. tauto.
  - destruct (is_run s e).
    + rewrite IH. replace (k + 1 + nruns s l1) with (k + (1 + nruns s l1)) by lia. tauto.
    + rewrite IH. replace (k + (0 + nruns s l1)) with (k + nruns s l1) by lia. tauto.
Qed.
Lemma spaced_noruns : forall s w iv l k, nruns s l = 0 -> spaced s w iv k l.
Proof.
  intros s w iv l. induction l as [|e l IH]; intros k H; cbn [spaced nruns] in *; auto.
  pose proof (nruns_nonneg s l). destruct (is_run s e); [lia|]. apply IH. lia.
Qed.
(* the readable form: the run that has exactly k predecessors is filed under a deadline >= w + k*iv *)
Lemma spaced_split : forall s w iv l1 dl now t l2, spaced s w iv 0 (l1 ++ ERun s dl now t :: l2) ->
  w + nruns s l1 * iv <= dl.
Proof.
  intros s w iv l1 dl now t l2 H. apply spaced_app in H as [_ H]. cbn [spaced is_run] in H.
  rewrite Z.eqb_refl in H. destruct H as [H _]. lia.
Qed.

(* every run is preceded by the add that returned its id: reading the log left to right with the
   last issued sequence number [seen], a run carries a sequence number that has been issued *)
Fixpoint runs_added (seen : Z) (ev : list event) : Prop :=
  match ev with
  | [] => True
  | EAdd s _ _ _ :: r => runs_added s r
  | ERun s _ _ _ :: r => 0 < s <= seen /\ runs_added seen r
  | _ :: r => runs_added seen r
  end.
Lemma runs_added_norun : forall ev n, rlog ev = [] -> runs_added n ev.
Proof.
  induction ev as [|e ev IH]; intros n H; cbn [runs_added]; auto. destruct e; cbn [rlog] in H; try discriminate; auto.
Qed.
Lemma runs_added_app : forall l1 l2 n m, adds_from n l1 m -> runs_added n l1 -> runs_added m l2 -> runs_added n (l1 ++ l2).
Proof.
  induction l1 as [|e l1 IH]; intros l2 n m A R1 R2; cbn [app adds_from runs_added] in *.
  - subst; auto.
  - destruct e; eauto.
    + destruct R1 as [R0 R1]. split; eauto.
    + destruct A as [-> A]. eauto.
Qed.
Lemma runs_added_split : forall l1 n m s dl now t l2, adds_from n (l1 ++ ERun s dl now t :: l2) m ->
  runs_added n (l1 ++ ERun s dl now t :: l2) -> 0 < s /\ (s <= n \/ exists a w iv, In (EAdd s a w iv) l1).
Proof.
  induction l1 as [|e l1 IH]; intros n m s dl now t l2 A R; cbn [app adds_from runs_added] in *.
  - destruct R as [R _]. split; [lia|left; lia].
  - destruct e as [s' dl' now' t'|x y|s' a' w' iv'|].
    + destruct R as [_ R]. destruct (IH _ _ _ _ _ _ _ A R) as [P [L|(a & w & iv & HI)]]; split; auto. right. exists a, w, iv. right; auto.
    + destruct (IH _ _ _ _ _ _ _ A R) as [P [L|(a & w & iv & HI)]]; split; auto. right. exists a, w, iv. right; auto.
    + destruct A as [-> A]. destruct (IH _ _ _ _ _ _ _ A R) as [P [L|(a & w & iv & HI)]]; split; auto.
      * destruct (Z.eq_dec s (n + 1)) as [->|N]; [right; exists a', w', iv'; left; auto | left; lia].
      * right. exists a, w, iv. right; auto.
    + destruct (IH _ _ _ _ _ _ _ A R) as [P [L|(a & w & iv & HI)]]; split; auto. right. exists a, w, iv. right; auto.
Qed.

(* ------------------------------------------------------------------ the history invariant *)
(* a live Timer object between batches: it was added under its own (sequence, address, interval),
   a one-shot has not run and keeps its deadline, a repeater that ran k times is filed under a
   deadline >= first deadline + k intervals *)
Definition obj_ok (log : list event) (a : Z) (o : tobj) : Prop :=
  exists w, In (EAdd (o_seq o) a w (o_iv o)) log /\
    (0 <= o_iv o -> w + nruns (o_seq o) log * o_iv o <= o_exp o) /\
    (o_iv o < 0 -> nruns (o_seq o) log = 0 /\ o_exp o = w).
(* an expired Timer object whose callback has run in the current batch, before TimerQueue::reset *)
Definition obj_ran (log : list event) (a : Z) (o : tobj) : Prop :=
  exists w, In (EAdd (o_seq o) a w (o_iv o)) log /\
    (0 <= o_iv o -> w + (nruns (o_seq o) log - 1) * o_iv o <= o_exp o).

Record LogInv (log : list event) (n : Z) : Prop := {
  l_adds : adds_from 0 log n;
  l_fresh : forall s, n < s -> nruns s log = 0;
  l_runadd : forall s dl now t, In (ERun s dl now t) log -> exists a w iv, In (EAdd s a w iv) log;
  l_before : runs_added 0 log;
  l_rep : forall s a w iv, In (EAdd s a w iv) log -> 0 <= iv -> spaced s w iv 0 log;
  l_one : forall s a w iv, In (EAdd s a w iv) log -> iv < 0 ->
            nruns s log <= 1 /\ forall dl now t, In (ERun s dl now t) log -> dl = w }.

Definition HI (R : Z -> Prop) (st : state) (log : list event) : Prop :=
  LogInv log (next_seq st) /\
  (forall a o, hget a (heap st) = Some o -> ~ R a -> obj_ok log a o) /\
  (forall a o, hget a (heap st) = Some o -> R a -> obj_ran log a o).
Definition noR : Z -> Prop := fun _ => False.

Lemma HI_ext : forall R R' st log, (forall b, R b <-> R' b) -> HI R st log -> HI R' st log.
Proof.
  intros R R' st log E (L & A & B). split; [auto|]. split; intros a o G H.
  - apply A; auto. rewrite E; auto.
  - apply B; auto. rewrite E; auto.
Qed.

Lemma loginv_init : LogInv [] 0.
Proof. constructor; cbn; auto; intros; contradiction. Qed.
Lemma HI_init : forall c, HI noR (init c) [].
Proof. intros c. split; [apply loginv_init|]. split; intros a o G; discriminate. Qed.

Lemma loginv_app_norun : forall log n ev n', LogInv log n -> adds_from n ev n' -> rlog ev = [] ->
  LogInv (log ++ ev) n'.
Proof.
  intros log n ev n' L A NR. pose proof (adds_from_le _ _ _ A) as Le. destruct L. constructor.
  - eapply adds_from_app; eauto.
  - intros s Hs. rewrite nruns_app, l_fresh0 by lia. rewrite (rlog_nil_nruns _ NR). reflexivity.
  - intros s dl now t HI. apply in_app_iff in HI as [HI|HI]; [|exfalso; eapply rlog_nil_norun; eauto].
    destruct (l_runadd0 _ _ _ _ HI) as (a & w & iv & H). exists a, w, iv. apply in_or_app; auto.
  - eapply runs_added_app; [exact l_adds0 | exact l_before0 | apply runs_added_norun; auto].
  - intros s a w iv HI P. apply spaced_app. apply in_app_iff in HI as [HI|HI].
    + split; [eauto|]. apply spaced_noruns. apply rlog_nil_nruns; auto.
    + pose proof (adds_from_in _ _ _ _ _ _ _ A HI). split; apply spaced_noruns; [apply l_fresh0; lia | apply rlog_nil_nruns; auto].
  - intros s a w iv HI P. rewrite nruns_app, (rlog_nil_nruns _ NR), Z.add_0_r.
    assert (NE : forall dl now t, In (ERun s dl now t) (log ++ ev) -> In (ERun s dl now t) log).
    { intros dl now t H. apply in_app_iff in H as [H|H]; auto. exfalso; eapply rlog_nil_norun; eauto. }
    apply in_app_iff in HI as [HI|HI].
    + destruct (l_one0 _ _ _ _ HI P) as [C D]. split; auto. intros dl now t H. eauto.
    + pose proof (adds_from_in _ _ _ _ _ _ _ A HI) as Rg. rewrite l_fresh0 by lia. split; [lia|].
      intros dl now t Hr. apply NE in Hr. apply nruns_in in Hr. rewrite l_fresh0 in Hr by lia. lia.
Qed.

Lemma obj_ok_app_norun : forall log ev a o, obj_ok log a o -> rlog ev = [] -> obj_ok (log ++ ev) a o.
Proof.
  intros log ev a o (w & HI & A & B) NR. exists w. rewrite nruns_app, (rlog_nil_nruns _ NR), Z.add_0_r.
  split; [apply in_or_app; auto|]. auto.
Qed.
Lemma obj_ran_app_norun : forall log ev a o, obj_ran log a o -> rlog ev = [] -> obj_ran (log ++ ev) a o.
Proof.
  intros log ev a o (w & HI & A) NR. exists w. rewrite nruns_app, (rlog_nil_nruns _ NR), Z.add_0_r.
  split; [apply in_or_app; auto|]. auto.
Qed.

(* appending the run of a live object that is in the between-batches state *)
Lemma loginv_run : forall log n a o now t, LogInv log n -> obj_ok log a o -> 0 < o_seq o <= n ->
  LogInv (log ++ [ERun (o_seq o) (o_exp o) now t]) n.
Proof.
  intros log n a o now t L (w & HA & Rp & On) Le. destruct L. constructor.
  - eapply adds_from_app; eauto. reflexivity.
  - intros s Hs. rewrite nruns_app, l_fresh0 by lia. cbn [nruns is_run].
    destruct (Z.eqb_spec (o_seq o) s); lia.
  - intros s dl now' t' HI. apply in_app_iff in HI as [HI|[HI|[]]].
    + destruct (l_runadd0 _ _ _ _ HI) as (a' & w' & iv' & H). exists a', w', iv'. apply in_or_app; auto.
    + inversion HI; subst. exists a, w, (o_iv o). apply in_or_app; auto.
  - eapply runs_added_app; [exact l_adds0 | exact l_before0 |]. cbn. split; auto.
  - intros s a' w' iv' HI P. apply in_app_iff in HI as [HI|[HI|[]]]; [|discriminate].
    apply spaced_app. split; [eauto|]. destruct (Z.eq_dec (o_seq o) s) as [E|N].
    + subst s. destruct (adds_from_uniq _ _ _ _ _ _ _ _ _ _ l_adds0 HA HI) as (-> & -> & E3).
      cbn [spaced is_run]. rewrite Z.eqb_refl. split; auto. rewrite <- E3 in P. specialize (Rp P). rewrite <- E3. lia.
    + apply spaced_noruns. cbn [nruns is_run]. destruct (Z.eqb_spec (o_seq o) s); [contradiction|lia].
  - intros s a' w' iv' HI P. apply in_app_iff in HI as [HI|[HI|[]]]; [|discriminate].
    rewrite nruns_app. cbn [nruns is_run]. destruct (l_one0 _ _ _ _ HI P) as [C D].
    destruct (Z.eqb_spec (o_seq o) s) as [E|N].
    + subst s. destruct (adds_from_uniq _ _ _ _ _ _ _ _ _ _ l_adds0 HA HI) as (-> & -> & E3).
      rewrite <- E3 in P. destruct (On P) as [Z0 Ew]. split; [lia|].
      intros dl now' t' H. apply in_app_iff in H as [H|[H|[]]]; [eauto|]. inversion H; subst. auto.
    + split; [lia|]. intros dl now' t' H. apply in_app_iff in H as [H|[H|[]]]; [eauto|]. inversion H; subst. congruence.
Qed.

Lemma obj_ok_other_run : forall log b p s dl now t, obj_ok log b p -> o_seq p <> s ->
  obj_ok (log ++ [ERun s dl now t]) b p.
Proof.
  intros log b p s dl now t (w & HI & A & B) N. exists w. rewrite nruns_app. cbn [nruns is_run].
  destruct (Z.eqb_spec s (o_seq p)); [congruence|]. rewrite !Z.add_0_r. split; [apply in_or_app; auto|]. auto.
Qed.
Lemma obj_ran_other_run : forall log b p s dl now t, obj_ran log b p -> o_seq p <> s ->
  obj_ran (log ++ [ERun s dl now t]) b p.
Proof.
  intros log b p s dl now t (w & HI & A) N. exists w. rewrite nruns_app. cbn [nruns is_run].
  destruct (Z.eqb_spec s (o_seq p)); [congruence|]. rewrite !Z.add_0_r. split; [apply in_or_app; auto|]. auto.
Qed.
Lemma obj_ok_to_ran : forall log a o dl now t, obj_ok log a o -> obj_ran (log ++ [ERun (o_seq o) dl now t]) a o.
Proof.
  intros log a o dl now t (w & HI & A & B). exists w. rewrite nruns_app. cbn [nruns is_run]. rewrite Z.eqb_refl.
  split; [apply in_or_app; auto|]. intros P. specialize (A P). replace (nruns (o_seq o) log + (1 + 0) - 1) with (nruns (o_seq o) log) by lia. auto.
Qed.
Lemma obj_ran_restart : forall log a o now, obj_ran log a o -> 0 <= o_iv o -> o_exp o <= now ->
  obj_ok log a (mkT (o_seq o) (now + o_iv o) (o_iv o)).
Proof.
  intros log a o now (w & HI & A) P Le. exists w. cbn [o_seq o_iv o_exp]. split; auto. split; [|lia].
  intros _. specialize (A P). nia.
Qed.

(* ------------------------------------------------------------------ shapes (structural, no invariant needed) *)
Definition hevolve (st st' : state) (ev : list event) : Prop :=
  forall b o', hget b (heap st') = Some o' -> hget b (heap st) = Some o' \/
     (next_seq st < o_seq o' /\ In (EAdd (o_seq o') b (o_exp o') (o_iv o')) ev).
Definition shape (st st' : state) (ev : list event) : Prop :=
  adds_from (next_seq st) ev (next_seq st') /\ rlog ev = [] /\ hevolve st st' ev.

Lemma shape_refl : forall st, shape st st [].
Proof. intros st. split; [reflexivity|]. split; [reflexivity|]. intros b o' G; auto. Qed.
Lemma shape_trans : forall st st1 st2 e1 e2, shape st st1 e1 -> shape st1 st2 e2 -> shape st st2 (e1 ++ e2).
Proof.
  intros st st1 st2 e1 e2 (A1 & R1 & H1) (A2 & R2 & H2). split; [eapply adds_from_app; eauto|].
  split; [rewrite rlog_app, R1, R2; reflexivity|]. intros b o' G.
  destruct (H2 _ _ G) as [G1|[Lt HI]].
  - destruct (H1 _ _ G1) as [G0|[Lt HI]]; auto. right. split; auto. apply in_or_app; auto.
  - right. pose proof (adds_from_le _ _ _ A1). split; [lia|]. apply in_or_app; auto.
Qed.
Lemma shape_heap_eq : forall st st' ev, heap st' = heap st -> next_seq st' = next_seq st -> rlog ev = [] ->
  (forall s a w iv, ~ In (EAdd s a w iv) ev) -> shape st st' ev.
Proof.
  intros st st' ev Eh En NR NA. split; [rewrite En; apply adds_from_noadd; auto|]. split; auto.
  intros b o' G. left. rewrite <- Eh. auto.
Qed.

Lemma alloc_shape : forall st w iv a st1 s, alloc st w iv a = Ok (st1, s) ->
  s = next_seq st + 1 /\ next_seq st1 = s /\ heap st1 = (a, mkT s w iv) :: heap st /\ hget a (heap st) = None /\
  timers st1 = timers st /\ active st1 = active st /\ canceling st1 = canceling st /\ calling st1 = calling st /\
  pending st1 = pending st /\ clk st1 = clk st /\ armed st1 = armed st /\ arm_at st1 = arm_at st.
Proof.
  intros st w iv a st1 s H. unfold alloc in H. destruct (hget a (heap st)) eqn:G.
  - rewrite andb_false_r in H. discriminate.
  - destruct (_ && _); [|discriminate]. inversion H; subst. cbn. auto 20.
Qed.
Lemma add_in_loop_shape : forall st a st' ev, add_in_loop st a = Ok (st', ev) ->
  heap st' = heap st /\ next_seq st' = next_seq st /\ rlog ev = [] /\ (forall s b w iv, ~ In (EAdd s b w iv) ev) /\
  canceling st' = canceling st /\ calling st' = calling st /\ pending st' = pending st /\ clk st' = clk st.
Proof.
  intros st a st' ev H. unfold add_in_loop in H.
  destruct (insert st a) as [[st1 e]| |] eqn:EI; cbn [bind] in H; try discriminate.
  assert (F1 : heap st1 = heap st /\ next_seq st1 = next_seq st /\ canceling st1 = canceling st /\
               calling st1 = calling st /\ pending st1 = pending st /\ clk st1 = clk st).
  { unfold insert in EI. destruct (assert (sizes_agree st)); cbn [bind] in EI; try discriminate.
    destruct (deref st a) as [o| |]; cbn [bind] in EI; try discriminate.
    destruct (kinsert _ (timers st)); try discriminate. destruct (kinsert _ (active st)); try discriminate.
    inversion EI; subst. cbn. auto 10. }
  destruct F1 as (Eh & En & Ec & Ecl & Ep & Ek). destruct e.
  - destruct (deref st1 a) as [o| |]; cbn [bind] in H; try discriminate. unfold reset_timerfd in H. inversion H; subst.
    assert (F2 : forall r, heap (settime st1 r) = heap st1 /\ next_seq (settime st1 r) = next_seq st1 /\
                 canceling (settime st1 r) = canceling st1 /\ calling (settime st1 r) = calling st1 /\
                 pending (settime st1 r) = pending st1 /\ clk (settime st1 r) = clk st1).
    { intros r. unfold settime. destruct (r =? 0); [|destruct (r <? 0)]; cbn; auto 10. }
    destruct (F2 (how_much st1 (o_exp o))) as (A & B & C & D & E & F).
    splits; try congruence; auto. intros s b w iv [HI|[]]. discriminate.
  - inversion H; subst. splits; auto.
Qed.
Lemma cancel_shape : forall st a s st', cancel_in_loop st a s = Ok st' ->
  next_seq st' = next_seq st /\ calling st' = calling st /\ pending st' = pending st /\ clk st' = clk st /\
  (forall b o', hget b (heap st') = Some o' -> hget b (heap st) = Some o').
Proof.
  intros st a s st' H. unfold cancel_in_loop in H.
  destruct (assert (sizes_agree st)); cbn [bind] in H; try discriminate.
  destruct (kmem (a, s) (active st)).
  - destruct (deref st a) as [o| |]; cbn [bind] in H; try discriminate.
    destruct (kerase _ (timers st)); try discriminate. destruct (kerase _ (active st)); try discriminate.
    inversion H; subst. cbn. splits; auto. intros b o' G.
    destruct (Z.eq_dec a b) as [->|N]; [rewrite hget_hdel_same in G; discriminate|].
    rewrite hget_hdel_other in G; auto.
  - destruct (calling st) eqn:ECl; inversion H; subst; cbn; splits; auto.
Qed.

Lemma cb_step_shape : forall st c st' ev, cb_step st c = Ok (st', ev) -> shape st st' ev.
Proof.
  intros st c st' ev H. destruct c as [d|w iv a|a s|w iv a|a s|w iv a|a|cs]; cbn [cb_step] in H.
  - destruct (d <? 0); inversion H; subst. apply shape_heap_eq; auto.
  - destruct (alloc st w iv a) as [[st1 s]| |] eqn:EA; cbn [bind] in H; try discriminate.
    destruct (add_in_loop st1 a) as [[st2 e]| |] eqn:EL; cbn [bind] in H; try discriminate.
    inversion H; subst. destruct (alloc_shape _ _ _ _ _ _ EA) as (Es & En & Eh & G0 & _).
    destruct (add_in_loop_shape _ _ _ _ EL) as (Eh2 & En2 & NR & NA & _).
    split; [|split].
    + eapply adds_from_app; [apply adds_from_noadd; eauto|]. cbn. split; [lia|]. congruence.
    + rewrite rlog_app, NR. reflexivity.
    + intros b o' G. rewrite Eh2, Eh in G. destruct (Z.eq_dec a b) as [->|N].
      * rewrite hget_cons_same in G. inversion G; subst o'. right. cbn [o_seq o_exp o_iv]. split; [lia|].
        apply in_or_app; right; left; auto.
      * rewrite hget_cons_other in G by auto. auto.
  - destruct (cancel_in_loop st a s) as [st1| |] eqn:EC; cbn [bind] in H; try discriminate. inversion H; subst.
    destruct (cancel_shape _ _ _ _ EC) as (En & _ & _ & _ & Hh). split; [cbn; auto|]. split; auto. intros b o' G; auto.
  - destruct (alloc st w iv a) as [[st1 s]| |] eqn:EA; cbn [bind] in H; try discriminate. inversion H; subst.
    destruct (alloc_shape _ _ _ _ _ _ EA) as (Es & En & Eh & G0 & _).
    split; [cbn; split; [lia|auto]|]. split; auto. intros b o' G. cbn in G. rewrite Eh in G.
    destruct (Z.eq_dec a b) as [->|N].
    + rewrite hget_cons_same in G. inversion G; subst o'. right. cbn [o_seq o_exp o_iv]. split; [lia|left; auto].
    + rewrite hget_cons_other in G by auto. auto.
  - inversion H; subst. apply shape_heap_eq; auto.
  - destruct (alloc st w iv a) as [[st1 s]| |] eqn:EA; cbn [bind] in H; try discriminate. inversion H; subst.
    destruct (alloc_shape _ _ _ _ _ _ EA) as (Es & En & Eh & G0 & _).
    split; [cbn; split; [lia|auto]|]. split; auto. intros b o' G. cbn in G. rewrite Eh in G.
    destruct (Z.eq_dec a b) as [->|N].
    + rewrite hget_cons_same in G. inversion G; subst o'. right. cbn [o_seq o_exp o_iv]. split; [lia|left; auto].
    + rewrite hget_cons_other in G by auto. auto.
  - destruct (zmem a (inflight st)); inversion H; subst. apply shape_heap_eq; auto.
  - inversion H; subst. apply shape_heap_eq; auto.
Qed.

Lemma cb_run_shape : forall cs st st' ev, cb_run st cs = Ok (st', ev) -> shape st st' ev.
Proof.
  induction cs as [|c r IH]; intros st st' ev H; cbn [cb_run] in H.
  - inversion H; subst. apply shape_refl.
  - destruct (cb_step st c) as [[st1 e1]| |] eqn:E1; try discriminate.
    + destruct (cb_run st1 r) as [[st2 e2]| |] eqn:E2; cbn [bind] in H; try discriminate.
      inversion H; subst. eapply shape_trans; [eapply cb_step_shape; eauto | eauto].
    + destruct (cb_run st r) as [[st2 e2]| |] eqn:E2; cbn [bind] in H; try discriminate.
      inversion H; subst. destruct (IH _ _ _ E2) as (A & NR & Hh). split; [exact A|]. split; [exact NR|].
      intros b o' G. destruct (Hh _ _ G) as [?|[? ?]]; auto. right. split; auto. right; auto.
Qed.

(* the generic preservation step: events without runs, new objects carry fresh sequence numbers,
   objects marked R are untouched *)
Lemma hi_step : forall R st log st' ev, HI R st log -> shape st st' ev ->
  (forall b o', R b -> hget b (heap st') = Some o' -> hget b (heap st) = Some o') ->
  HI R st' (log ++ ev).
Proof.
  intros R st log st' ev (L & A & B) (AF & NR & Hh) Fr. split; [eapply loginv_app_norun; eauto|].
  split; intros b o' G Hb.
  - destruct (Hh _ _ G) as [G0|[Lt HI]].
    + apply obj_ok_app_norun; [eapply A; eauto | auto].
    + exists (o_exp o'). rewrite nruns_app, (l_fresh _ _ L) by lia. rewrite (rlog_nil_nruns _ NR).
      split; [apply in_or_app; auto|]. split; [lia|auto].
  - apply obj_ran_app_norun; [eapply B; eauto | auto].
Qed.

(* ------------------------------------------------------------------ what a callback can do to one live object *)
Lemma kinsert_in : forall x l l', kinsert x l = Some l' -> forall y, In y l' <-> y = x \/ In y l.
Proof.
  intros x l. induction l as [|z r IH]; intros l' H y; cbn [kinsert] in H.
  - inversion H; subst. cbn [In]. intuition congruence.
  - destruct (klt x z); [inversion H; subst; cbn [In]; intuition congruence|].
    destruct (keq x z); [discriminate|]. destruct (kinsert x r) as [r'|]; [|discriminate].
    inversion H; subst. cbn [In]. rewrite (IH r' eq_refl y). intuition congruence.
Qed.
Lemma kinsert_none_in : forall x l, kinsert x l = None -> In x l.
Proof.
  intros x l. induction l as [|z r IH]; intros H; cbn [kinsert] in H; [discriminate|].
  destruct (klt x z); [discriminate|]. destruct (keq x z) eqn:E; [apply keq_iff in E; subst; left; auto|].
  destruct (kinsert x r); [discriminate|]. right; auto.
Qed.
Lemma kadd_in : forall x l y, In y (kadd x l) <-> y = x \/ In y l.
Proof.
  intros x l y. unfold kadd. destruct (kinsert x l) as [l'|] eqn:E.
  - eapply kinsert_in; eauto.
  - apply kinsert_none_in in E. split; [auto|intros [->|H]; auto].
Qed.

Lemma add_in_loop_timers : forall st a st' ev, add_in_loop st a = Ok (st', ev) ->
  forall k, In k (timers st) -> In k (timers st').
Proof.
  intros st a st' ev H k Hk. unfold add_in_loop in H.
  destruct (insert st a) as [[st1 e]| |] eqn:EI; cbn [bind] in H; try discriminate.
  assert (T1 : In k (timers st1)).
  { unfold insert in EI. destruct (assert (sizes_agree st)); cbn [bind] in EI; try discriminate.
    destruct (deref st a) as [o| |]; cbn [bind] in EI; try discriminate.
    destruct (kinsert _ (timers st)) as [t'|] eqn:K1; try discriminate. destruct (kinsert _ (active st)); try discriminate.
    inversion EI; subst. cbn. eapply kinsert_in; eauto. }
  destruct e.
  - destruct (deref st1 a) as [o| |]; cbn [bind] in H; try discriminate. unfold reset_timerfd in H. inversion H; subst.
    unfold settime. destruct (_ =? 0); [|destruct (_ <? 0)]; cbn; auto.
  - inversion H; subst; auto.
Qed.

Lemma cb_step_obj : forall st c st' ev b o, Inv st -> hget b (heap st) = Some o -> cb_step st c = Ok (st', ev) ->
  (hget b (heap st') = Some o /\ (forall d, In (d, b) (timers st) -> In (d, b) (timers st'))) \/
  (In (b, o_seq o) (active st) /\ gone st' (o_seq o)).
Proof.
  intros st c st' ev b o I G H. destruct c as [d|w iv a|a s|w iv a|a s|w iv a|a|cs]; cbn [cb_step] in H.
  - destruct (d <? 0); inversion H; subst. left. cbn. auto.
  - destruct (alloc st w iv a) as [[st1 s]| |] eqn:EA; cbn [bind] in H; try discriminate.
    destruct (add_in_loop st1 a) as [[st2 e]| |] eqn:EL; cbn [bind] in H; try discriminate.
    inversion H; subst. destruct (alloc_shape _ _ _ _ _ _ EA) as (Es & En & Eh & G0 & Et & _).
    destruct (add_in_loop_shape _ _ _ _ EL) as (Eh2 & _). left. split.
    + rewrite Eh2, Eh. rewrite hget_cons_other; auto. intros ->. congruence.
    + intros d Hd. eapply add_in_loop_timers; eauto. rewrite Et. auto.
  - destruct (cancel_in_loop st a s) as [st1| |] eqn:EC; cbn [bind] in H; try discriminate. inversion H; subst.
    unfold cancel_in_loop in EC. rewrite (sizes_agree_inv _ I) in EC. cbn [assert bind] in EC.
    destruct (kmem (a, s) (active st)) eqn:KM.
    + apply kmem_iff in KM. destruct (inv_erase _ _ _ _ _ _ I KM) as (oa & t' & a' & Ga & K1 & K2 & I' & M & HT).
      unfold deref in EC. rewrite Ga in EC. cbn [bind] in EC. rewrite K1, K2 in EC. inversion EC; subst.
      destruct (i_at _ _ _ _ I _ _ KM) as (o2 & G2 & Es & _). rewrite Ga in G2. inversion G2; subst o2.
      destruct (Z.eq_dec a b) as [->|N].
      * right. rewrite G in Ga. inversion Ga; subst oa. split; [rewrite Es; auto|].
        unfold gone, gonec. cbn. split; [apply (i_hp _ _ _ _ I) in G; lia|]. intros c p Gc Eq.
        destruct (Z.eq_dec b c) as [->|N]; [rewrite hget_hdel_same in Gc; discriminate|].
        rewrite hget_hdel_other in Gc by auto. apply N. eapply (i_sq _ _ _ _ I); eauto.
      * left. cbn. split; [rewrite hget_hdel_other; auto|]. intros d Hd. apply M. split; auto. congruence.
    + left. destruct (calling st); inversion EC; subst; cbn; auto.
  - destruct (alloc st w iv a) as [[st1 s]| |] eqn:EA; cbn [bind] in H; try discriminate. inversion H; subst.
    destruct (alloc_shape _ _ _ _ _ _ EA) as (Es & En & Eh & G0 & Et & _). left. cbn. rewrite Eh, Et. split; auto.
    rewrite hget_cons_other; auto. intros ->. congruence.
  - inversion H; subst. left. cbn. auto.
  - destruct (alloc st w iv a) as [[st1 s]| |] eqn:EA; cbn [bind] in H; try discriminate. inversion H; subst.
    destruct (alloc_shape _ _ _ _ _ _ EA) as (Es & En & Eh & G0 & Et & _). left. cbn. rewrite Eh, Et. split; auto.
    rewrite hget_cons_other; auto. intros ->. congruence.
  - destruct (zmem a (inflight st)); inversion H; subst. left. cbn. auto.
  - inversion H; subst. left. cbn. auto.
Qed.

Lemma det_not_active : forall st b s, Inv st -> det st b -> ~ In (b, s) (active st).
Proof.
  intros st b s I [_ ND] HA. destruct (i_at _ _ _ _ I _ _ HA) as (o & _ & _ & HT). eapply ND; eauto.
Qed.

(* a detached (expired, or queued) Timer object is not touched by the callbacks *)
Lemma cb_run_frame : forall cs st X st' ev b, Inv st -> DInv st (X ++ detq st) -> In b X ->
  cb_run st cs = Ok (st', ev) -> hget b (heap st') = hget b (heap st).
Proof.
  induction cs as [|c r IH]; intros st X st' ev b I D Hb H; cbn [cb_run] in H.
  - inversion H; subst; auto.
  - pose proof (cb_step_good st c X I D) as G1.
    destruct (cb_step st c) as [[st1 e1]| |] eqn:E1; try discriminate.
    + destruct (cb_run st1 r) as [[st2 e2]| |] eqn:E2; cbn [bind] in H; try discriminate.
      inversion H; subst. destruct G1 as (I1 & D1 & _). cbn [fst] in *.
      rewrite (IH _ _ _ _ _ I1 D1 Hb E2).
      assert (Db : det st b) by (apply (proj2 D); apply in_or_app; auto).
      destruct (proj1 Db) as (o & Go & _).
      destruct (cb_step_obj _ _ _ _ _ _ I Go E1) as [[G' _]|[HA _]]; [congruence|].
      exfalso. exact (det_not_active st b _ I Db HA).
    + destruct (cb_run st r) as [[st2 e2]| |] eqn:E2; cbn [bind] in H; try discriminate.
      inversion H; subst. eauto.
Qed.

(* a registered Timer object stays registered under its deadline, or is dead *)
Lemma cb_run_reg : forall cs st X st' ev b o d, Inv st -> DInv st (X ++ detq st) ->
  hget b (heap st) = Some o -> In (d, b) (timers st) -> cb_run st cs = Ok (st', ev) ->
  (hget b (heap st') = Some o /\ In (d, b) (timers st')) \/ gone st' (o_seq o).
Proof.
  induction cs as [|c r IH]; intros st X st' ev b o d I D Go Hd H; cbn [cb_run] in H.
  - inversion H; subst; auto.
  - pose proof (cb_step_good st c X I D) as G1.
    destruct (cb_step st c) as [[st1 e1]| |] eqn:E1; try discriminate.
    + destruct (cb_run st1 r) as [[st2 e2]| |] eqn:E2; cbn [bind] in H; try discriminate.
      inversion H; subst. destruct G1 as (I1 & D1 & _). cbn [fst] in *.
      destruct (cb_step_obj _ _ _ _ _ _ I Go E1) as [[G' T']|[_ Gn]].
      * eapply IH; eauto.
      * right. eapply cb_run_gone; eauto.
    + destruct (cb_run st r) as [[st2 e2]| |] eqn:E2; cbn [bind] in H; try discriminate.
      inversion H; subst. eauto.
Qed.

Lemma HI_same : forall R st st' log, heap st' = heap st -> next_seq st' = next_seq st -> HI R st log -> HI R st' log.
Proof. intros R st st' log Eh En (L & A & B). unfold HI. rewrite Eh, En. auto. Qed.

Definition seqof (h : heap_t) (a : Z) : Z := match hget a h with Some o => o_seq o | None => 0 end.

(* handleRead's loop over the expired vector: each entry runs once, in order, filed under its deadline *)
Lemma run_cbs_hist : forall ex st script now X (R : Z -> Prop) log st' ev,
  Inv st -> DInv st (X ++ detq st) -> incl (map snd ex) X -> (forall b, R b -> In b X) ->
  NoDup (map snd ex) -> (forall b, In b (map snd ex) -> ~ R b) ->
  (forall d a, In (d, a) ex -> exists o, hget a (heap st) = Some o /\ o_exp o = d) ->
  HI R st log -> run_cbs st ex script now = Ok (st', ev) ->
  HI (fun b => In b (map snd ex) \/ R b) st' (log ++ ev) /\
  rlog ev = map (fun k => (seqof (heap st) (snd k), fst k, now)) ex /\
  (forall b, In b X -> hget b (heap st') = hget b (heap st)).
Proof.
  induction ex as [|[d a] ex IH]; intros st script now X R log st' ev I D Sub RX ND NR Hex HH H; cbn [run_cbs] in H.
  - inversion H; subst. rewrite app_nil_r. split; [|split; auto].
    eapply HI_ext; [|exact HH]. intros b. cbn. tauto.
  - destruct (Hex d a (or_introl eq_refl)) as (o & Go & Eo).
    unfold deref in H. rewrite Go in H. cbn [bind] in H.
    destruct (cb_run st (hd [] script)) as [[st1 e1]| |] eqn:E1; cbn [bind] in H; try discriminate.
    destruct (run_cbs st1 ex (tl script) now) as [[st2 e2]| |] eqn:E2; cbn [bind] in H; try discriminate.
    inversion H; subst st2 ev; clear H.
    cbn [map snd] in ND, Sub, NR. apply NoDup_cons_iff in ND as [NIa ND'].
    assert (HaX : In a X) by (apply Sub; left; auto).
    assert (NRa : ~ R a) by (apply NR; left; auto).
    set (E := ERun (o_seq o) d now (clk st)).
    set (R1 := fun b => b = a \/ R b).
    destruct HH as (L & A & B).
    assert (H1 : HI R1 st (log ++ [E])).
    { split; [|split].
      - unfold E. rewrite <- Eo. eapply loginv_run; eauto. apply (i_hp _ _ _ _ I) in Go. lia.
      - intros b p Gb Nb. assert (b <> a) by (intros ->; apply Nb; left; auto).
        apply obj_ok_other_run; [apply A; auto; intros Rb; apply Nb; right; auto|].
        intros Eq. apply H. eapply (i_sq _ _ _ _ I); eauto.
      - intros b p Gb [->|Rb].
        + rewrite Go in Gb. inversion Gb; subst p. apply obj_ok_to_ran. auto.
        + assert (b <> a) by (intros ->; auto).
          apply obj_ran_other_run; [apply B; auto|]. intros Eq. apply H. eapply (i_sq _ _ _ _ I); eauto. }
    pose proof (cb_run_good (hd [] script) st X I D) as G1. rewrite E1 in G1. destruct G1 as (I1 & D1 & _ & _). cbn [fst] in *.
    assert (Fr1 : forall b, In b X -> hget b (heap st1) = hget b (heap st)) by (intros b Hb; eapply cb_run_frame; eauto).
    assert (H2 : HI R1 st1 ((log ++ [E]) ++ e1)).
    { eapply hi_step; [exact H1 | eapply cb_run_shape; eauto|]. intros b p [->|Rb] Gb; rewrite <- Fr1; auto. }
    assert (P1 : forall b, R1 b -> In b X) by (intros b [->|Rb]; auto).
    assert (P2 : forall b, In b (map snd ex) -> ~ R1 b).
    { intros b Hb [->|Rb]; [auto | eapply NR; [right|]; eauto]. }
    assert (P3 : forall d' a', In (d', a') ex -> exists o', hget a' (heap st1) = Some o' /\ o_exp o' = d').
    { intros d' a' Hi. rewrite Fr1; [apply Hex; right; auto|]. apply Sub. right. apply in_map_iff. exists (d', a'); auto. }
    assert (Sub' : incl (map snd ex) X) by (intros x Hx; apply Sub; right; auto).
    destruct (IH st1 (tl script) now X R1 _ st' e2 I1 D1 Sub' P1 ND' P2 P3 H2 E2) as (H3 & RL & Fr2).
    split; [|split].
    + replace (log ++ E :: e1 ++ e2) with (((log ++ [E]) ++ e1) ++ e2) by (rewrite <- !app_assoc; reflexivity).
      eapply HI_ext; [|exact H3]. intros b. unfold R1. cbn [map snd In]. split; intros; intuition.
    + unfold E. cbn [rlog]. rewrite rlog_app. destruct (cb_run_shape _ _ _ _ E1) as (_ & NR1 & _). rewrite NR1.
      cbn [app map fst snd]. f_equal.
      * unfold seqof. rewrite Go. reflexivity.
      * rewrite RL. apply map_ext_in. intros [d' a'] Hi. cbn [fst snd]. unfold seqof. rewrite Fr1; auto.
        apply Sub'. apply in_map_iff. exists (d', a'); auto.
    + intros b Hb. rewrite Fr2, Fr1; auto.
Qed.

(* TimerQueue::reset: a repeater that was not cancelled restarts at now + interval, everything else is deleted *)
Lemma reset_loop_hist : forall ex st now P log st',
  Inv st -> DInv st (map snd ex ++ P) ->
  (forall d a, In (d, a) ex -> d <= now /\ exists o, hget a (heap st) = Some o /\ o_exp o = d) ->
  (ex <> [] -> 0 < now) ->
  HI (fun b => In b (map snd ex)) st log -> reset_loop st ex now = Ok st' ->
  HI noR st' log /\ next_seq st' = next_seq st.
Proof.
  induction ex as [|[d a] ex IH]; intros st now P log st' I D Hex Pn HH H; cbn [reset_loop] in H.
  - inversion H; subst. split; [|reflexivity]. eapply HI_ext; [|exact HH]. intros b. cbn. unfold noR. tauto.
  - cbn [map snd app] in D. destruct D as [N Dt]. inversion N as [|x l NIa N']; subst.
    destruct (Dt a (or_introl eq_refl)) as [[o [G Po]] NDa].
    destruct (Hex d a (or_introl eq_refl)) as (Le & o2 & G2 & Eo). rewrite G in G2. inversion G2; subst o2. clear G2.
    assert (Pnow : 0 < now) by (apply Pn; discriminate).
    unfold deref in H. rewrite G in H. cbn [bind] in H.
    destruct HH as (L & A & B).
    assert (Hex' : forall st1, (forall b, b <> a -> hget b (heap st1) = hget b (heap st)) ->
               forall d' b, In (d', b) ex -> d' <= now /\ exists o', hget b (heap st1) = Some o' /\ o_exp o' = d').
    { intros st1 Fr d' b Hi. assert (b <> a).
      { intros ->. apply NIa. apply in_or_app. left. apply in_map_iff. exists (d', a); auto. }
      rewrite Fr by auto. apply Hex. right; auto. }
    destruct (o_repeat o && negb (kmem (a, o_seq o) (canceling st))) eqn:Br.
    + apply andb_true_iff in Br as [Rp _]. unfold o_repeat in Rp. apply Z.leb_le in Rp.
      set (o' := mkT (o_seq o) (now + o_iv o) (o_iv o)) in *.
      set (st1 := set_heap st (hput a o' (heap st))) in *.
      assert (I1 : Inv st1) by (apply inv_hput_det; auto).
      assert (G1 : hget a (heap st1) = Some o') by (apply hget_hput_same).
      assert (P1 : 0 < o_exp o') by (cbn; lia).
      destruct (insert_shape st1 a o' I1 G1 NDa P1) as (t' & a' & E & I2 & M & _).
      rewrite E in H. cbn [bind] in H.
      assert (D2 : DInv (set_sets st1 t' a') (map snd ex ++ P)).
      { split; auto. intros b Hb. assert (a <> b) by (intros ->; auto).
        destruct (Dt b (or_intror Hb)) as [[ob [Gb Pb]] NDb]. split.
        - exists ob. unfold st1. cbn [heap set_sets set_heap]. rewrite hget_hput_other; auto.
        - intros d' Hd'. cbn in Hd'. apply M in Hd' as [Eq|Hd']; [inversion Eq; congruence| eapply NDb; eauto]. }
      assert (H2 : HI (fun b => In b (map snd ex)) (set_sets st1 t' a') log).
      { split; [exact L|]. cbn [heap set_sets set_heap st1]. split; intros b p Gb Hb.
        - destruct (Z.eq_dec a b) as [<-|Nb].
          + rewrite hget_hput_same in Gb. inversion Gb; subst p. apply obj_ran_restart; auto; [|lia].
            apply B; auto. left; auto.
          + rewrite hget_hput_other in Gb by auto. apply A; auto. intros [Eq|Hi]; auto.
        - assert (a <> b) by (intros ->; apply NIa; apply in_or_app; auto).
          rewrite hget_hput_other in Gb by auto. apply B; auto. right; auto. }
      destruct (IH (set_sets st1 t' a') now P log st' I2 D2) as (H3 & En); auto.
      apply Hex'. intros b Nb. unfold st1. cbn [heap set_sets set_heap]. rewrite hget_hput_other; auto.
    + set (st1 := set_heap st (hdel a (heap st))) in *.
      assert (I1 : Inv st1) by (apply inv_hdel_det; auto).
      assert (D1 : DInv st1 (map snd ex ++ P)).
      { split; auto. intros b Hb. assert (a <> b) by (intros ->; auto).
        cbn. apply detc_hdel with (ts := timers st); auto. apply Dt. right; auto. }
      assert (H2 : HI (fun b => In b (map snd ex)) st1 log).
      { split; [exact L|]. cbn [heap set_heap st1]. split; intros b p Gb Hb.
        - destruct (Z.eq_dec a b) as [<-|Nb]; [rewrite hget_hdel_same in Gb; discriminate|].
          rewrite hget_hdel_other in Gb by auto. apply A; auto. intros [Eq|Hi]; auto.
        - assert (a <> b) by (intros ->; apply NIa; apply in_or_app; auto).
          rewrite hget_hdel_other in Gb by auto. apply B; auto. right; auto. }
      destruct (IH st1 now P log st' I1 D1) as (H3 & En); auto.
      apply Hex'. intros b Nb. unfold st1. cbn [heap set_sets set_heap]. rewrite hget_hdel_other; auto.
Qed.

(* ------------------------------------------------------------------ handleRead as a whole *)
(* the registered timers whose deadline has passed at the instant the batch samples *)
Lemma NoDup_app_l : forall (l1 l2 : list Z), NoDup (l1 ++ l2) -> NoDup l1.
Proof.
  induction l1 as [|x l1 IH]; intros l2 H; [constructor|]. cbn [app] in H. apply NoDup_cons_iff in H as [N H].
  constructor; [|eauto]. intros Hi. apply N. apply in_or_app; auto.
Qed.

Definition due (st : state) : list key := fst (ksplit (clk st, PTR_MAX) (timers st)).

Lemma gen_floor_same : TimerQueue_floor_cmp = TimerQueue_floor_val. Proof. reflexivity. Qed.

Lemma reset_timerfd_exact : forall st w,
  reset_timerfd st w =
  (set_arm st (Some (if w - clk st <? TimerQueue_floor_cmp then clk st + TimerQueue_floor_val else w)) (clk st),
   [EArm (clk st) (how_much st w)]).
Proof.
  intros st w. unfold reset_timerfd. f_equal. rewrite how_much_eq.
  pose proof gen_floor_val_pos. pose proof gen_floor_cmp_pos. unfold settime.
  destruct (Z.ltb_spec (w - clk st) TimerQueue_floor_cmp).
  - destruct (Z.eqb_spec TimerQueue_floor_val 0); [lia|]. destruct (Z.ltb_spec TimerQueue_floor_val 0); [lia|]. reflexivity.
  - destruct (Z.eqb_spec (w - clk st) 0); [lia|]. destruct (Z.ltb_spec (w - clk st) 0); [lia|].
    replace (clk st + (w - clk st)) with w by lia. reflexivity.
Qed.

Definition rearmed (st : state) : Prop :=
  forall d a r, timers st = (d, a) :: r ->
    armed st = Some (Z.max d (clk st + TimerQueue_floor_val)) /\ arm_at st = clk st.

Lemma fire_hist : forall st script log, Top st -> HI noR st log ->
  good (fire st script) (fun r => HI noR (fst r) (log ++ snd r) /\
     rlog (snd r) = map (fun k => (seqof (heap st) (snd k), fst k, clk st)) (due st) /\ rearmed (fst r)).
Proof.
  intros st script log (I & D & C & _) HH. unfold fire, due.
  destruct (consume_same st) as (Eh & Et & Ea & En & Ep & Ec & Ei).
  rewrite <- Et.
  set (st0 := consume st) in *.
  assert (I0 : Inv st0) by (unfold Inv; rewrite Eh, Et, Ea, En; auto).
  rewrite (sizes_agree_inv _ I0). cbn [assert bind].
  destruct (ksplit (clk st, PTR_MAX) (timers st0)) as [ex rest] eqn:KS. cbn [fst].
  destruct (ksplit_spec _ _ _ _ (i_st _ _ _ _ I0) KS) as (Eapp & Fex & Hrest).
  assert (A1 : match rest with [] => true | (d, _) :: _ => clk st <? d end = true).
  { destruct rest as [|[d a0] r]; auto. apply klt_false in Hrest. cbn [fst snd] in Hrest.
    destruct (i_ta _ _ _ _ I0 d a0) as (o & G & _); [rewrite Eapp; apply in_or_app; right; left; auto|].
    apply (i_hp _ _ _ _ I0) in G. apply Z.ltb_lt. lia. }
  rewrite A1. cbn [assert bind].
  assert (D0 : DInvC (heap st0) (ex ++ rest) (detq st)).
  { rewrite <- Eapp. unfold DInv in D. rewrite Eh, Et. exact D. }
  assert (Hex0 : forall d a, In (d, a) ex -> exists o, hget a (heap st0) = Some o /\ o_exp o = d).
  { intros d a Hi. destruct (i_ta _ _ _ _ I0 d a) as (o & G & E & _); [rewrite Eapp; apply in_or_app; auto|]. eauto. }
  unfold Inv in I0. rewrite Eapp in I0.
  pose proof (unactivate_good ex st0 rest (active st0) (next_seq st0) _ I0 D0) as GU.
  destruct (unactivate st0 ex (active st0)) as [act| |]; cbn [bind good] in *; auto.
  destruct GU as [I1 D1].
  set (st2 := set_sets st0 rest act).
  assert (I2 : Inv st2) by exact I1.
  rewrite (sizes_agree_inv _ I2). cbn [assert bind].
  set (st3 := set_canceling (set_calling st2 true) []).
  assert (I3 : Inv st3) by exact I1.
  assert (D3 : DInv st3 (map snd ex ++ detq st3)).
  { unfold DInv, detq. cbn. rewrite Ep, Ei. fold (detq st). eapply DInvC_perm; [apply Permutation_app_comm|]. exact D1. }
  pose proof (run_cbs_good ex st3 script (clk st) (map snd ex) I3 D3 (incl_refl _)) as GR.
  destruct (run_cbs st3 ex script (clk st)) as [[st4 evs]| |] eqn:ER; cbn [bind good] in *; auto.
  destruct GR as (I4 & D4 & C4). cbn [fst] in *.
  assert (H3 : HI noR st3 log) by (eapply HI_same; [| |exact HH]; cbn; auto).
  assert (NDex : NoDup (map snd ex)) by (destruct D3 as [N _]; apply NoDup_app_l in N; auto).
  destruct (run_cbs_hist ex st3 script (clk st) (map snd ex) noR log st4 evs I3 D3 (incl_refl _)
              (fun b (F : noR b) => match F with end) NDex (fun b _ (F : noR b) => F) Hex0 H3 ER) as (H4 & RL & Fr4).
  set (st5 := set_calling st4 false).
  assert (Pn : ex <> [] -> 0 < clk st).
  { destruct ex as [|[d a] ex']; [congruence|]. intros _.
    assert (0 < d) by (eapply (i_pos _ _ _ _ I0); left; eauto).
    pose proof (ksplit_le _ _ Fex d a (or_introl eq_refl)). lia. }
  pose proof (reset_loop_good ex st5 (clk st) (detq st4) I4 D4 Pn) as GL.
  destruct (reset_loop st5 ex (clk st)) as [st6| |] eqn:EL; cbn [bind good] in *; auto.
  destruct GL as (I6 & D6 & (F1 & F2 & F3 & F4 & F5)). cbn in F1, F2.
  assert (Hex5 : forall d a, In (d, a) ex -> d <= clk st /\ exists o, hget a (heap st5) = Some o /\ o_exp o = d).
  { intros d a Hi. split; [eapply ksplit_le; eauto|]. cbn [heap st5 set_calling]. rewrite Fr4; [apply Hex0; auto|].
    apply in_map_iff. exists (d, a); auto. }
  assert (H5 : HI (fun b => In b (map snd ex)) st5 (log ++ evs)).
  { eapply HI_same; [| |eapply HI_ext; [|exact H4]]; cbn; auto. intros b. unfold noR. tauto. }
  destruct (reset_loop_hist ex st5 (clk st) (detq st4) (log ++ evs) st6 I4 D4 Hex5 Pn H5 EL) as (H6 & _).
  assert (RL' : rlog evs = map (fun k => (seqof (heap st) (snd k), fst k, clk st)) ex).
  { rewrite RL. apply map_ext. intros k. cbn [heap st3 st2 set_canceling set_calling set_sets]. rewrite Eh. reflexivity. }
  destruct (timers st6) as [|[d a] r] eqn:ET6.
  - cbn. splits; auto. unfold rearmed. rewrite ET6. discriminate.
  - destruct (i_ta _ _ _ _ I6 d a) as (o & G & Eo & _); [rewrite ET6; left; auto|].
    assert (0 < d) by (eapply (i_pos _ _ _ _ I6); rewrite ET6; left; eauto).
    unfold deref. rewrite G. cbn [bind]. subst d. destruct (Z.ltb_spec 0 (o_exp o)); [|lia].
    rewrite reset_timerfd_exact. cbn [good fst snd]. splits.
    + rewrite app_assoc. eapply hi_step; [exact H6 | | intros b p []].
      apply shape_heap_eq; auto. intros s b w iv [E|[]]. discriminate.
    + rewrite rlog_app. cbn [rlog]. rewrite app_nil_r. exact RL'.
    + unfold rearmed. cbn. rewrite ET6. intros d' a' r' E. inversion E; subst. split; auto.
      rewrite gen_floor_same. f_equal. pose proof gen_floor_val_pos.
      destruct (Z.ltb_spec (o_exp o - clk st6) TimerQueue_floor_val); lia.
Qed.

Lemma run_functors_shape : forall fs st st' ev, run_functors st fs = Ok (st', ev) -> shape st st' ev.
Proof.
  induction fs as [|[a|a s|cs] r IH]; intros st st' ev H; cbn [run_functors] in H.
  - inversion H; subst. apply shape_refl.
  - destruct (add_in_loop st a) as [[st1 e1]| |] eqn:E1; cbn [bind] in H; try discriminate.
    destruct (run_functors st1 r) as [[st2 e2]| |] eqn:E2; cbn [bind] in H; try discriminate.
    inversion H; subst. destruct (add_in_loop_shape _ _ _ _ E1) as (Eh & En & NR & NA & _).
    eapply shape_trans; [apply shape_heap_eq; eauto | eauto].
  - destruct (cancel_in_loop st a s) as [st1| |] eqn:E1; cbn [bind] in H; try discriminate.
    destruct (cancel_shape _ _ _ _ E1) as (En & _ & _ & _ & Hh).
    change ev with ([] ++ ev). eapply shape_trans; [|eauto].
    split; [cbn; auto|]. split; auto. intros b o' G; auto.
  - destruct (cb_run st cs) as [[st1 e1]| |] eqn:E1; cbn [bind] in H; try discriminate.
    destruct (run_functors st1 r) as [[st2 e2]| |] eqn:E2; cbn [bind] in H; try discriminate.
    inversion H; subst. eapply shape_trans; [eapply cb_run_shape; eauto | eauto].
Qed.

Lemma step_hist : forall st o log st' ev, Top st -> HI noR st log -> step st o = Ok (st', ev) ->
  HI noR st' (log ++ ev).
Proof.
  intros st o log st' ev T HH H. destruct o as [c|script|]; cbn [step] in H.
  - eapply hi_step; [exact HH | eapply cb_step_shape; eauto | intros b p []].
  - pose proof (fire_hist st script log T HH) as G. rewrite H in G. cbn [good fst snd] in G. tauto.
  - eapply hi_step; [eapply HI_same; [| |exact HH]; reflexivity | | intros b p []].
    destruct (run_functors_shape _ _ _ _ H) as (A & NR & Hh). split; [exact A|]. split; auto.
Qed.

Lemma run_hist : forall ops st log st' ev, Top st -> HI noR st log -> run st ops = Ok (st', ev) ->
  HI noR st' (log ++ ev).
Proof.
  induction ops as [|o r IH]; intros st log st' ev T HH H; cbn [run] in H.
  - inversion H; subst. rewrite app_nil_r. auto.
  - pose proof (step_good st o T) as G.
    destruct (step st o) as [[st1 e1]| |] eqn:E1; cbn [bind good] in *; try discriminate.
    destruct (run st1 r) as [[st2 e2]| |] eqn:E2; cbn [bind] in H; try discriminate.
    inversion H; subst. rewrite app_assoc. cbn [fst] in G.
    apply (IH st1 (log ++ e1) st' e2 G); [exact (step_hist st o log st1 e1 T HH E1) | exact E2].
Qed.

Lemma reach_hist : forall c ops st evs, run (init c) ops = Ok (st, evs) -> HI noR st evs.
Proof.
  intros c ops st evs H. change evs with ([] ++ evs). eapply run_hist; [apply Top_init | apply HI_init | exact H].
Qed.

(* ------------------------------------------------------------------ which timers an expiry takes *)
Lemma Srt_app_r : forall l1 l2, Srt (l1 ++ l2) -> Srt l2.
Proof. induction l1 as [|x l1 IH]; intros l2 H; cbn [app] in H; auto. apply Srt_inv in H as [H _]. auto. Qed.

Lemma due_iff : forall st d a, Inv st -> (In (d, a) (due st) <-> In (d, a) (timers st) /\ d <= clk st).
Proof.
  intros st d a I. unfold due. destruct (ksplit (clk st, PTR_MAX) (timers st)) as [ex rest] eqn:KS. cbn [fst].
  destruct (ksplit_spec _ _ _ _ (i_st _ _ _ _ I) KS) as (Eapp & Fex & Hrest). split.
  - intros Hi. split; [rewrite Eapp; apply in_or_app; auto | eapply ksplit_le; eauto].
  - intros [Hi Le]. rewrite Eapp in Hi. apply in_app_iff in Hi as [Hi|Hi]; auto. exfalso.
    destruct rest as [|y r]; [contradiction|].
    assert (Lt : klt (d, a) (clk st, PTR_MAX) = true).
    { destruct (i_ta _ _ _ _ I d a) as (o & G & _); [rewrite Eapp; apply in_or_app; auto|].
      apply (i_hp _ _ _ _ I) in G. apply klt_iff. cbn [fst snd]. lia. }
    assert (Sr : Srt (y :: r)) by (eapply Srt_app_r; rewrite <- Eapp; apply (i_st _ _ _ _ I)).
    destruct Hi as [->|Hi]; [congruence|].
    apply Srt_inv in Sr as [_ F]. rewrite Forall_forall in F. specialize (F _ Hi).
    rewrite (klt_trans _ _ _ F Lt) in Hrest. discriminate.
Qed.

Lemma due_sorted : forall st, Inv st -> Srt (due st).
Proof.
  intros st I. unfold due. destruct (ksplit (clk st, PTR_MAX) (timers st)) as [ex rest] eqn:KS. cbn [fst].
  destruct (ksplit_spec _ _ _ _ (i_st _ _ _ _ I) KS) as (Eapp & _ & _).
  pose proof (i_st _ _ _ _ I) as S. rewrite Eapp in S. clear - S.
  induction ex as [|x ex IH]; [constructor|]. cbn [app] in S. apply Srt_inv in S as [S F]. constructor; [apply IH; exact S|].
  apply Forall_forall. intros y Hy. rewrite Forall_forall in F. apply F. apply in_or_app; auto.
Qed.

(* an expiry with nothing due leaves the sets, the heap and the clock alone *)
Lemma fire_idle : forall st script st' ev, Top st -> due st = [] -> fire st script = Ok (st', ev) ->
  timers st' = timers st /\ heap st' = heap st /\ clk st' = clk st /\ rlog ev = [].
Proof.
  intros st script st' ev (I & _) Dn H. unfold due in Dn. unfold fire in H.
  destruct (consume_same st) as (Eh & Et & Ea & En & Ep & Ec & Ei). rewrite Et in H.
  destruct (assert (sizes_agree (consume st))); cbn [bind] in H; try discriminate.
  destruct (ksplit (clk st, PTR_MAX) (timers st)) as [ex rest] eqn:KS. cbn [fst] in Dn. subst ex.
  destruct (ksplit_spec _ _ _ _ (i_st _ _ _ _ I) KS) as (Eapp & _). cbn [app] in Eapp.
  destruct (assert _); cbn [bind] in H; try discriminate.
  cbn [unactivate bind] in H.
  destruct (assert _); cbn [bind] in H; try discriminate.
  cbn [run_cbs bind reset_loop] in H. cbn [timers set_calling set_canceling set_sets] in H.
  destruct rest as [|[dq aq] r].
  - inversion H; subst. cbn. rewrite Eh, Ec. auto.
  - unfold deref in H. cbn [heap set_calling set_canceling set_sets] in H.
    destruct (hget aq (heap (consume st))) as [o|]; cbn [bind] in H; try discriminate.
    destruct (0 <? o_exp o).
    + rewrite reset_timerfd_exact in H. inversion H; subst. cbn. rewrite Eh, Ec. auto.
    + inversion H; subst. cbn. rewrite Eh, Ec. auto.
Qed.

(* ------------------------------------------------------------------ the clock inside a batch *)
Lemma cb_step_clk : forall st c st' ev, cb_step st c = Ok (st', ev) -> clk st <= clk st'.
Proof.
  intros st c st' ev H. destruct c as [d|w iv a|a s|w iv a|a s|w iv a|a|cs]; cbn [cb_step] in H.
  - destruct (Z.ltb_spec d 0); inversion H; subst. cbn. lia.
  - destruct (alloc st w iv a) as [[st1 s]| |] eqn:EA; cbn [bind] in H; try discriminate.
    destruct (add_in_loop st1 a) as [[st2 e]| |] eqn:EL; cbn [bind] in H; try discriminate.
    inversion H; subst. destruct (alloc_shape _ _ _ _ _ _ EA) as (_ & _ & _ & _ & _ & _ & _ & _ & _ & Ek & _).
    destruct (add_in_loop_shape _ _ _ _ EL) as (_ & _ & _ & _ & _ & _ & _ & Ek2). lia.
  - destruct (cancel_in_loop st a s) as [st1| |] eqn:EC; cbn [bind] in H; try discriminate. inversion H; subst.
    destruct (cancel_shape _ _ _ _ EC) as (_ & _ & _ & Ek & _). lia.
  - destruct (alloc st w iv a) as [[st1 s]| |] eqn:EA; cbn [bind] in H; try discriminate. inversion H; subst.
    destruct (alloc_shape _ _ _ _ _ _ EA) as (_ & _ & _ & _ & _ & _ & _ & _ & _ & Ek & _). cbn. lia.
  - inversion H; subst. cbn. lia.
  - destruct (alloc st w iv a) as [[st1 s]| |] eqn:EA; cbn [bind] in H; try discriminate. inversion H; subst.
    destruct (alloc_shape _ _ _ _ _ _ EA) as (_ & _ & _ & _ & _ & _ & _ & _ & _ & Ek & _). cbn. lia.
  - destruct (zmem a (inflight st)); inversion H; subst. cbn. lia.
  - inversion H; subst. cbn. lia.
Qed.
Lemma cb_run_clk : forall cs st st' ev, cb_run st cs = Ok (st', ev) -> clk st <= clk st'.
Proof.
  induction cs as [|c r IH]; intros st st' ev H; cbn [cb_run] in H.
  - inversion H; subst. lia.
  - destruct (cb_step st c) as [[st1 e1]| |] eqn:E1; try discriminate.
    + destruct (cb_run st1 r) as [[st2 e2]| |] eqn:E2; cbn [bind] in H; try discriminate.
      inversion H; subst. apply cb_step_clk in E1. apply IH in E2. lia.
    + destruct (cb_run st r) as [[st2 e2]| |] eqn:E2; cbn [bind] in H; try discriminate.
      inversion H; subst. eauto.
Qed.
Lemma run_cbs_clk : forall ex st script now st' ev, run_cbs st ex script now = Ok (st', ev) ->
  forall s dl now' t, In (ERun s dl now' t) ev -> now' = now /\ clk st <= t.
Proof.
  induction ex as [|[d a] ex IH]; intros st script now st' ev H s dl now' t HI; cbn [run_cbs] in H.
  - inversion H; subst. contradiction.
  - destruct (deref st a) as [o| |]; cbn [bind] in H; try discriminate.
    destruct (cb_run st (hd [] script)) as [[st1 e1]| |] eqn:E1; cbn [bind] in H; try discriminate.
    destruct (run_cbs st1 ex (tl script) now) as [[st2 e2]| |] eqn:E2; cbn [bind] in H; try discriminate.
    inversion H; subst. destruct HI as [HI|HI]; [inversion HI; subst; split; [auto|lia]|].
    apply in_app_iff in HI as [HI|HI].
    + exfalso. destruct (cb_run_shape _ _ _ _ E1) as (_ & NR & _). eapply rlog_nil_norun; eauto.
    + destruct (IH _ _ _ _ _ E2 _ _ _ _ HI) as [-> Le]. apply cb_run_clk in E1. split; [auto|lia].
Qed.
Lemma fire_clk : forall st script st' ev, fire st script = Ok (st', ev) ->
  forall s dl now t, In (ERun s dl now t) ev -> now = clk st /\ clk st <= t.
Proof.
  intros st script st' ev H s dl now t HI. unfold fire in H.
  destruct (assert (sizes_agree (consume st))); cbn [bind] in H; try discriminate.
  destruct (ksplit (clk st, PTR_MAX) (timers (consume st))) as [ex rest] eqn:KS.
  destruct (assert _); cbn [bind] in H; try discriminate.
  destruct (unactivate (consume st) ex (active (consume st))) as [act| |]; cbn [bind] in H; try discriminate.
  destruct (assert _); cbn [bind] in H; try discriminate.
  destruct (run_cbs _ ex script (clk st)) as [[st4 evs]| |] eqn:ER; cbn [bind] in H; try discriminate.
  assert (Hevs : In (ERun s dl now t) evs -> now = clk st /\ clk st <= t).
  { intros Hi. destruct (run_cbs_clk _ _ _ _ _ _ ER _ _ _ _ Hi) as [-> Le]. split; auto.
    cbn in Le. destruct (consume_same st) as (_ & _ & _ & _ & _ & Ec). lia. }
  destruct (reset_loop _ ex (clk st)) as [st6| |]; cbn [bind] in H; try discriminate.
  destruct (timers st6) as [|[dq aq] r]; [inversion H; subst; auto|].
  destruct (deref st6 aq) as [o| |]; cbn [bind] in H; try discriminate.
  destruct (0 <? o_exp o); [|inversion H; subst; auto].
  unfold reset_timerfd in H. inversion H; subst. apply in_app_iff in HI as [HI|[HI|[]]]; [auto|discriminate].
Qed.
Lemma run_clk : forall ops st st' ev, run st ops = Ok (st', ev) ->
  forall s dl now t, In (ERun s dl now t) ev -> now <= t.
Proof.
  induction ops as [|o r IH]; intros st st' ev H s dl now t HI; cbn [run] in H.
  - inversion H; subst. contradiction.
  - destruct (step st o) as [[st1 e1]| |] eqn:E1; cbn [bind] in H; try discriminate.
    destruct (run st1 r) as [[st2 e2]| |] eqn:E2; cbn [bind] in H; try discriminate.
    inversion H; subst. apply in_app_iff in HI as [HI|HI]; [|eauto].
    destruct o as [c|script|]; cbn [step] in E1.
    + exfalso. destruct (cb_step_shape _ _ _ _ E1) as (_ & NR & _). eapply rlog_nil_norun; eauto.
    + destruct (fire_clk _ _ _ _ E1 _ _ _ _ HI). lia.
    + exfalso. destruct (run_functors_shape _ _ _ _ E1) as (_ & NR & _). eapply rlog_nil_norun; eauto.
Qed.

(* ------------------------------------------------------------------ theorems in final form *)
Definition runs_of (s : Z) (ev : list event) : list event :=
  filter (fun e => match e with ERun s' _ _ _ => s' =? s | _ => false end) ev.
Lemma nruns_filter : forall s ev, nruns s ev = Z.of_nat (length (runs_of s ev)).
Proof.
  intros s ev. unfold runs_of. induction ev as [|e ev IH]; cbn [nruns filter]; auto.
  change (match e with ERun s' _ _ _ => s' =? s | _ => false end) with (is_run s e).
  destruct (is_run s e); cbn [length]; rewrite IH; lia.
Qed.

(* every run is the run of a timer that was added (its id was returned by an add) *)
Lemma run_of_added : forall c ops st evs, run (init c) ops = Ok (st, evs) ->
  forall s dl now t, In (ERun s dl now t) evs -> exists a w iv, In (EAdd s a w iv) evs.
Proof. intros c ops st evs H. destruct (reach_hist _ _ _ _ H) as (L & _). apply (l_runadd _ _ L). Qed.

(* ... and the add precedes the run in the log *)
Lemma add_precedes_run : forall c ops st evs, run (init c) ops = Ok (st, evs) ->
  forall l1 s dl now t l2, evs = l1 ++ ERun s dl now t :: l2 -> exists a w iv, In (EAdd s a w iv) l1.
Proof.
  intros c ops st evs H l1 s dl now t l2 E. destruct (reach_hist _ _ _ _ H) as (L & _). rewrite E in L.
  destruct (runs_added_split _ _ _ _ _ _ _ _ (l_adds _ _ L) (l_before _ _ L)) as [P [Le|Ex]]; [lia|exact Ex].
Qed.

(* ids are unique: one add event per sequence number *)
Lemma add_unique : forall c ops st evs, run (init c) ops = Ok (st, evs) ->
  forall s a w iv a' w' iv', In (EAdd s a w iv) evs -> In (EAdd s a' w' iv') evs -> a = a' /\ w = w' /\ iv = iv'.
Proof. intros c ops st evs H. destruct (reach_hist _ _ _ _ H) as (L & _). intros. eapply adds_from_uniq; eauto. apply (l_adds _ _ L). Qed.

(* a one-shot (runAt / runAfter: interval <= 0) runs at most once, and under its own deadline *)
Lemma oneshot_at_most_once : forall c ops st evs, run (init c) ops = Ok (st, evs) ->
  forall s a w iv, In (EAdd s a w iv) evs -> iv < 0 ->
  forall l1 dl now t l2, evs = l1 ++ ERun s dl now t :: l2 ->
  dl = w /\ w <= now <= t /\
  (forall dl' now' t', ~ In (ERun s dl' now' t') l1) /\ (forall dl' now' t', ~ In (ERun s dl' now' t') l2).
Proof.
  intros c ops st evs H s a w iv HA P l1 dl now t l2 E. destruct (reach_hist _ _ _ _ H) as (L & _).
  destruct (l_one _ _ L _ _ _ _ HA P) as [C D].
  assert (HI : In (ERun s dl now t) evs) by (rewrite E; apply in_or_app; right; left; auto).
  pose proof (D _ _ _ HI) as Ed. subst dl.
  pose proof (never_early _ _ _ _ H _ _ _ _ HI). pose proof (run_clk _ _ _ _ H _ _ _ _ HI).
  rewrite E, nruns_app in C. cbn [nruns is_run] in C. rewrite Z.eqb_refl in C.
  pose proof (nruns_nonneg s l1). pose proof (nruns_nonneg s l2). splits; auto; try lia.
  - intros dl' now' t' Hi. apply nruns_in in Hi. lia.
  - intros dl' now' t' Hi. apply nruns_in in Hi. lia.
Qed.

(* the run of a repeater (runEvery: interval > 0) that has k predecessors is filed under a deadline
   >= first deadline + k intervals, and happens at or after that deadline *)
Lemma repeat_spacing : forall c ops st evs, run (init c) ops = Ok (st, evs) ->
  forall s a w iv, In (EAdd s a w iv) evs -> 0 <= iv ->
  forall l1 dl now t l2, evs = l1 ++ ERun s dl now t :: l2 ->
  w + Z.of_nat (length (runs_of s l1)) * iv <= dl /\ dl <= now <= t.
Proof.
  intros c ops st evs H s a w iv HA P l1 dl now t l2 E. destruct (reach_hist _ _ _ _ H) as (L & _).
  pose proof (l_rep _ _ L _ _ _ _ HA P) as Sp. rewrite E in Sp. apply spaced_split in Sp. rewrite nruns_filter in Sp.
  assert (HI : In (ERun s dl now t) evs) by (rewrite E; apply in_or_app; right; left; auto).
  pose proof (never_early _ _ _ _ H _ _ _ _ HI). pose proof (run_clk _ _ _ _ H _ _ _ _ HI). lia.
Qed.

(* none lost: an expiry (handleRead at clock now) runs EXACTLY the registered timers whose deadline is
   <= now, each once, in (deadline, address) order -- and re-arms for exactly
   max(earliest remaining deadline, now' + floor) *)
Lemma fire_runs_due : forall c ops st evs script st' ev, run (init c) ops = Ok (st, evs) ->
  fire st script = Ok (st', ev) ->
  rlog ev = map (fun k => (seqof (heap st) (snd k), fst k, clk st)) (due st) /\
  Srt (due st) /\ (forall d a, In (d, a) (due st) <-> In (d, a) (timers st) /\ d <= clk st) /\
  rearmed st'.
Proof.
  intros c ops st evs script st' ev H HF. pose proof (reach_top _ _ _ _ H) as T. pose proof (reach_hist _ _ _ _ H) as HH.
  pose proof (fire_hist st script evs T HH) as G. rewrite HF in G. cbn [good fst snd] in G. destruct G as (_ & RL & RA).
  destruct T as (I & _). splits; auto; [apply due_sorted; auto | intros d a; apply due_iff; auto].
Qed.

Lemma none_lost : forall c ops st evs script st' ev, run (init c) ops = Ok (st, evs) ->
  fire st script = Ok (st', ev) ->
  forall d a, In (d, a) (timers st) -> d <= clk st ->
  exists o t, hget a (heap st) = Some o /\ In (ERun (o_seq o) d (clk st) t) ev.
Proof.
  intros c ops st evs script st' ev H HF d a Hi Le.
  destruct (fire_runs_due _ _ _ _ _ _ _ H HF) as (RL & _ & DI & _).
  destruct (reach_top _ _ _ _ H) as (I & _).
  destruct (i_ta _ _ _ _ I _ _ Hi) as (o & G & _).
  assert (In (o_seq o, d, clk st) (rlog ev)).
  { rewrite RL. apply in_map_iff. exists (d, a). cbn [fst snd]. unfold seqof. rewrite G. split; auto. apply DI; auto. }
  apply rlog_in in H0 as [t Ht]. eauto.
Qed.

(* progress: when the timerfd has become readable (armed instant x <= clock) the expiry either runs
   the earliest timer, or -- the arming was stale (x < earliest deadline, e.g. the earliest timer was
   cancelled) -- runs nothing, leaves the sets alone and re-arms for exactly max(earliest, now + floor),
   so that the next expiry that becomes readable does run it *)
Lemma progress : forall c ops st evs script st' ev d a r x, run (init c) ops = Ok (st, evs) ->
  timers st = (d, a) :: r -> armed st = Some x -> x <= clk st -> fire st script = Ok (st', ev) ->
  rearmed st' /\
  ((d <= clk st /\ exists o t, hget a (heap st) = Some o /\ In (ERun (o_seq o) d (clk st) t) ev) \/
   (clk st < d /\ x < d /\ rlog ev = [] /\ timers st' = timers st /\ clk st' = clk st /\
    armed st' = Some (Z.max d (clk st + TimerQueue_floor_val)))).
Proof.
  intros c ops st evs script st' ev d a r x H ET EA Le HF.
  destruct (fire_runs_due _ _ _ _ _ _ _ H HF) as (RL & _ & DI & RA). split; auto.
  destruct (Z.le_gt_cases d (clk st)) as [Ld|Gt].
  - left. split; auto. eapply none_lost; eauto. rewrite ET. left; auto.
  - right. pose proof (reach_top _ _ _ _ H) as T.
    assert (Dn : due st = []).
    { destruct (due st) as [|[d' a'] l] eqn:Ed; auto. exfalso.
      assert (Hi : In (d', a') (timers st) /\ d' <= clk st) by (apply DI; left; auto). destruct Hi as [Hi Le'].
      destruct T as (I & _). pose proof (i_st _ _ _ _ I) as S. rewrite ET in S, Hi.
      pose proof (Srt_head_le _ _ _ _ S Hi). cbn [fst] in H0. lia. }
    destruct (fire_idle _ _ _ _ T Dn HF) as (Et' & Eh' & Ek' & NR).
    splits; auto; try lia. destruct (RA d a r) as [A _]; [rewrite Et'; exact ET|]. rewrite A, Ek'. reflexivity.
Qed.

Lemma run_app : forall ops1 ops2 st st1 e1 st2 e2, run st ops1 = Ok (st1, e1) -> run st1 ops2 = Ok (st2, e2) ->
  run st (ops1 ++ ops2) = Ok (st2, e1 ++ e2).
Proof.
  induction ops1 as [|o r IH]; intros ops2 st st1 e1 st2 e2 H1 H2; cbn [run app] in *.
  - inversion H1; subst. auto.
  - destruct (step st o) as [[sta ea]| |]; cbn [bind] in *; try discriminate.
    destruct (run sta r) as [[stb eb]| |] eqn:E; cbn [bind] in *; try discriminate.
    inversion H1; subst. rewrite (IH _ _ _ _ _ _ E H2). cbn [bind]. rewrite app_assoc. reflexivity.
Qed.

(* exactly once: a registered one-shot whose deadline has passed runs in the next expiry, and -- whatever
   happens before and afterwards -- that is its only run *)
Lemma oneshot_exactly_once : forall c ops st evs a o script st' ev ops2 st2 evs2,
  run (init c) ops = Ok (st, evs) -> hget a (heap st) = Some o -> o_iv o < 0 ->
  In (o_exp o, a) (timers st) -> o_exp o <= clk st -> fire st script = Ok (st', ev) ->
  run st' ops2 = Ok (st2, evs2) ->
  (exists t, In (ERun (o_seq o) (o_exp o) (clk st) t) ev) /\
  length (runs_of (o_seq o) (evs ++ ev ++ evs2)) = 1%nat.
Proof.
  intros c ops st evs a o script st' ev ops2 st2 evs2 H G P Hi Le HF H2.
  destruct (none_lost _ _ _ _ _ _ _ H HF _ _ Hi Le) as (o' & t & G' & HR). rewrite G in G'. inversion G'; subst o'.
  split; [eauto|].
  assert (HT : run (init c) (ops ++ [Fire script] ++ ops2) = Ok (st2, evs ++ ev ++ evs2)).
  { eapply run_app; [exact H|]. eapply run_app; [|exact H2]. cbn [run step]. rewrite HF. cbn [bind]. rewrite app_nil_r. reflexivity. }
  destruct (reach_hist _ _ _ _ H) as (_ & A & _). destruct (A a o G (fun F => F)) as (w & HA & _).
  destruct (reach_hist _ _ _ _ HT) as (L & _).
  destruct (l_one _ _ L _ _ _ _ (in_or_app _ _ _ (or_introl HA)) P) as [C _].
  assert (1 <= nruns (o_seq o) (evs ++ ev ++ evs2)).
  { eapply nruns_in. apply in_or_app. right. apply in_or_app. left. eauto. }
  rewrite nruns_filter in *. lia.
Qed.

(* progress over two expiries, as one statement: the timerfd is readable (armed instant x <= clock) and a
   timer is pending; the loop processes the expiry, sleeps until the timerfd is readable again (only the
   clock moves) and processes the next expiry.  The earliest timer has run in the first or in the second. *)
Lemma progress_two : forall c ops st evs s1 st1 ev1 dt st2 e2 s2 st3 ev2 d a r x,
  run (init c) ops = Ok (st, evs) -> timers st = (d, a) :: r -> armed st = Some x -> x <= clk st ->
  fire st s1 = Ok (st1, ev1) ->
  step st1 (Cb (CTick dt)) = Ok (st2, e2) -> (forall x1, armed st1 = Some x1 -> x1 <= clk st2) ->
  fire st2 s2 = Ok (st3, ev2) ->
  exists o, hget a (heap st) = Some o /\
    ((exists t, In (ERun (o_seq o) d (clk st) t) ev1) \/ (exists t, In (ERun (o_seq o) d (clk st2) t) ev2)).
Proof.
  intros c ops st evs s1 st1 ev1 dt st2 e2 s2 st3 ev2 d a r x H ET EA Le HF1 HT Due HF2.
  destruct (reach_top _ _ _ _ H) as (I & _).
  destruct (i_ta _ _ _ _ I d a) as (o & G & _); [rewrite ET; left; auto|]. exists o. split; auto.
  destruct (progress _ _ _ _ _ _ _ _ _ _ _ H ET EA Le HF1) as [_ [[_ (o' & t & G' & HR)]|(Lt & _ & _ & Et1 & Ek1 & Ar1)]].
  - left. rewrite G in G'. inversion G'; subst o'. eauto.
  - right.
    assert (Dn : due st = []).
    { destruct (due st) as [|[d' a'] l] eqn:Ed; auto. exfalso.
      assert (Hi : In (d', a') (timers st) /\ d' <= clk st) by (apply due_iff; auto; rewrite Ed; left; auto). destruct Hi as [Hi Le'].
      pose proof (i_st _ _ _ _ I) as S. rewrite ET in S, Hi. pose proof (Srt_head_le _ _ _ _ S Hi) as Q. cbn [fst] in Q. lia. }
    destruct (fire_idle _ _ _ _ (reach_top _ _ _ _ H) Dn HF1) as (_ & Eh1 & _ & _).
    cbn [step cb_step] in HT. destruct (Z.ltb_spec dt 0); [discriminate|]. inversion HT; subst st2 e2. clear HT.
    assert (HT2 : run (init c) (ops ++ [Fire s1; Cb (CTick dt)]) = Ok (set_clk st1 (clk st1 + dt), evs ++ ev1 ++ [])).
    { eapply run_app; [exact H|]. cbn [run step cb_step]. rewrite HF1. cbn [bind].
      destruct (Z.ltb_spec dt 0); [lia|]. cbn [bind]. rewrite !app_nil_r. reflexivity. }
    specialize (Due _ Ar1). cbn [clk set_clk] in Due.
    destruct (none_lost _ _ _ _ _ _ _ HT2 HF2 d a) as (o' & t & G' & HR).
    + cbn [timers set_clk]. rewrite Et1, ET. left; auto.
    + cbn [clk set_clk]. lia.
    + cbn [heap set_clk] in G'. rewrite Eh1, G in G'. inversion G'; subst o'. eauto.
Qed.

(* ------------------------------------------------------------------ handleRead taken apart (for C06_Order, C07_Proofs) *)
Lemma fire_decomp : forall st script st' ev, Top st -> fire st script = Ok (st', ev) ->
  exists ex rest act st4 evs st6,
    ksplit (clk st, PTR_MAX) (timers st) = (ex, rest) /\ timers st = ex ++ rest /\
    (forall d a, In (d, a) ex -> d <= clk st) /\
    let st3 := set_canceling (set_calling (set_sets (consume st) rest act) true) [] in
    Inv st3 /\ DInv st3 (map snd ex ++ detq st3) /\
    run_cbs st3 ex script (clk st) = Ok (st4, evs) /\
    Inv st4 /\ DInv st4 (map snd ex ++ detq st4) /\ calling st4 = true /\
    reset_loop (set_calling st4 false) ex (clk st) = Ok st6 /\ Inv st6 /\
    heap st' = heap st6 /\ timers st' = timers st6 /\ active st' = active st6 /\ next_seq st' = next_seq st6 /\
    pending st' = pending st6 /\
    exists e, ev = evs ++ e /\ rlog e = [].
Proof.
  intros st script st' ev (I & D & C & _) H. unfold fire in H.
  destruct (consume_same st) as (Eh & Et & Ea & En & Ep & Ec & Ei).
  set (st0 := consume st) in *.
  assert (I0 : Inv st0) by (unfold Inv; rewrite Eh, Et, Ea, En; auto).
  rewrite (sizes_agree_inv _ I0) in H. cbn [assert bind] in H. rewrite Et in H.
  destruct (ksplit (clk st, PTR_MAX) (timers st)) as [ex rest] eqn:KS.
  destruct (ksplit_spec _ _ _ _ (i_st _ _ _ _ I) KS) as (Eapp & Fex & Hrest).
  destruct (assert _); cbn [bind] in H; try discriminate.
  assert (D0 : DInvC (heap st0) (ex ++ rest) (detq st)).
  { rewrite <- Eapp. unfold DInv in D. rewrite Eh. exact D. }
  unfold Inv in I0. rewrite Et, Eapp in I0.
  pose proof (unactivate_good ex st0 rest (active st0) (next_seq st0) _ I0 D0) as GU.
  destruct (unactivate st0 ex (active st0)) as [act| |]; cbn [bind good] in *; try discriminate; try contradiction.
  destruct GU as [I1 D1].
  set (st2 := set_sets st0 rest act) in *.
  assert (I2 : Inv st2) by exact I1.
  rewrite (sizes_agree_inv _ I2) in H. cbn [assert bind] in H.
  set (st3 := set_canceling (set_calling st2 true) []) in *.
  assert (I3 : Inv st3) by exact I1.
  assert (D3 : DInv st3 (map snd ex ++ detq st3)).
  { unfold DInv, detq. cbn. rewrite Ep, Ei. fold (detq st). eapply DInvC_perm; [apply Permutation_app_comm|]. exact D1. }
  pose proof (run_cbs_good ex st3 script (clk st) (map snd ex) I3 D3 (incl_refl _)) as GR.
  destruct (run_cbs st3 ex script (clk st)) as [[st4 evs]| |] eqn:ER; cbn [bind good] in *; try discriminate; try contradiction.
  destruct GR as (I4 & D4 & C4). cbn [fst] in *.
  assert (Pn : ex <> [] -> 0 < clk st).
  { destruct ex as [|[d1 a1] ex']; [congruence|]. intros _.
    assert (0 < d1) by (eapply (i_pos _ _ _ _ I); rewrite Eapp; left; eauto).
    pose proof (ksplit_le _ _ Fex d1 a1 (or_introl eq_refl)). lia. }
  pose proof (reset_loop_good ex (set_calling st4 false) (clk st) (detq st4) I4 D4 Pn) as GL.
  destruct (reset_loop (set_calling st4 false) ex (clk st)) as [st6| |] eqn:EL; cbn [bind good] in *; try discriminate; try contradiction.
  destruct GL as (I6 & D6 & _).
  exists ex, rest, act, st4, evs, st6. splits; auto.
  - intros d1 a1 Hi. eapply ksplit_le; eauto.
  - destruct (timers st6) as [|[dq aq] r]; [inversion H; subst; auto|].
    destruct (deref st6 aq) as [o| |]; cbn [bind] in H; try discriminate.
    destruct (0 <? o_exp o); [|inversion H; subst; auto]. rewrite reset_timerfd_exact in H. inversion H; subst. reflexivity.
  - destruct (timers st6) as [|[dq aq] r] eqn:ET6; [inversion H; subst; auto|].
    destruct (deref st6 aq) as [o| |]; cbn [bind] in H; try discriminate.
    destruct (0 <? o_exp o); [|inversion H; subst; auto]. rewrite reset_timerfd_exact in H. inversion H; subst. cbn. auto.
  - destruct (timers st6) as [|[dq aq] r]; [inversion H; subst; auto|].
    destruct (deref st6 aq) as [o| |]; cbn [bind] in H; try discriminate.
    destruct (0 <? o_exp o); [|inversion H; subst; auto]. rewrite reset_timerfd_exact in H. inversion H; subst. reflexivity.
  - destruct (timers st6) as [|[dq aq] r]; [inversion H; subst; auto|].
    destruct (deref st6 aq) as [o| |]; cbn [bind] in H; try discriminate.
    destruct (0 <? o_exp o); [|inversion H; subst; auto]. rewrite reset_timerfd_exact in H. inversion H; subst. reflexivity.
  - destruct (timers st6) as [|[dq aq] r]; [inversion H; subst; auto|].
    destruct (deref st6 aq) as [o| |]; cbn [bind] in H; try discriminate.
    destruct (0 <? o_exp o); [|inversion H; subst; auto]. rewrite reset_timerfd_exact in H. inversion H; subst. reflexivity.
  - destruct (timers st6) as [|[dq aq] r]; [inversion H; subst; exists []; rewrite app_nil_r; auto|].
    destruct (deref st6 aq) as [o| |]; cbn [bind] in H; try discriminate.
    destruct (0 <? o_exp o); [|inversion H; subst; exists []; rewrite app_nil_r; auto].
    rewrite reset_timerfd_exact in H. inversion H; subst. eexists. split; [reflexivity|]. reflexivity.
Qed.
